#!/bin/bash
# Offline set-up: nothing is downloaded or built outside /verif; byte-compile check + engine self-tests.
cd "$(dirname "$(readlink -f "$0")")" || exit 2
export PYTHONDONTWRITEBYTECODE=1 PYTHONHASHSEED=0
/venv/bin/python -c "import ast,sys,glob; [ast.parse(open(f).read(), f) for f in glob.glob('vf/**/*.py', recursive=True)]; print('vf sources parse')" || exit 1
mkdir -p evidence replay
if [ -f vf/selftest.py ]; then /venv/bin/python -m vf.selftest || exit 1; fi
echo setup ok
