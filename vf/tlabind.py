"""E4: TLC models bound to the implementation by trace inclusion.

`tlc_run` model-checks a spec (all interleavings, invariants from the .cfg) and optionally
dumps the labelled state graph; `Graph` reads that graph as an NFA; `accepts` decides whether
a label sequence obtained from a real execution (E3) is a trace of the model, treating
model steps without implementation-visible counterpart as tau.
"""
from __future__ import annotations

import os
import re
import shutil
import subprocess
import tempfile

TLA_DIR = os.path.join(os.path.dirname(os.path.abspath(__file__)), "tla")


def tlc_run(spec: str, cfg: str, dump: bool = False, workers: int = 4, timeout: int = 900):
    """Returns dict(ok, states, distinct, depth, output_tail, dot) — dot is the graph text when dump."""
    tmp = tempfile.mkdtemp(prefix="vf_tlc_")
    try:
        cmd = ["tlc", "-workers", str(1 if dump else workers), "-noGenerateSpecTE", "-deadlock", "-metadir", os.path.join(tmp, "meta"), "-config", cfg]
        dot_path = os.path.join(tmp, "g.dot")
        if dump:
            cmd += ["-dump", "dot,actionlabels", dot_path]
        cmd.append(spec)
        jtmp = os.path.join(tmp, "jtmp")
        os.makedirs(jtmp, exist_ok=True)
        env = dict(os.environ, JAVA_TOOL_OPTIONS=(os.environ.get("JAVA_TOOL_OPTIONS", "") + f" -Djava.io.tmpdir={jtmp}").strip())
        r = subprocess.run(cmd, cwd=TLA_DIR, capture_output=True, text=True, timeout=timeout, env=env)
        out = r.stdout + "\n".join(l for l in r.stderr.splitlines() if "JAVA_TOOL_OPTIONS" not in l)
        m = re.search(r"(\d+) states generated, (\d+) distinct states found", out)
        dm = re.search(r"depth of the complete state graph search is (\d+)", out)
        res = {
            "ok": "No error has been found" in out,
            "states_generated": int(m.group(1)) if m else 0,
            "distinct": int(m.group(2)) if m else 0,
            "depth": int(dm.group(1)) if dm else 0,
            "tail": out[-1500:],
            "dot": compact(open(dot_path).read()) if dump and os.path.exists(dot_path) else None,
        }
        return res
    finally:
        shutil.rmtree(tmp, ignore_errors=True)


def compact(dot: str) -> str:
    """Keep only what the NFA needs: edge lines (without styling) and the initial-state marker lines."""
    out = []
    for line in dot.splitlines():
        m = re.match(r'\s*(-?\d+) -> (-?\d+) \[label="([^"]*)"', line)
        if m:
            out.append(f'{m.group(1)} -> {m.group(2)} [label="{m.group(3)}"]')
            continue
        m = re.match(r'\s*(-?\d+) \[label=.*style = filled\]', line)
        if m:
            out.append(f'{m.group(1)} [label="init",style = filled]')
    return "\n".join(out)


class Graph:
    def __init__(self, dot: str, relabel=None):
        self.relabel = relabel
        self.edges: dict[str, list[tuple[str, str]]] = {}
        self.init: list[str] = []
        self.nedges = 0
        for line in dot.splitlines():
            m = re.match(r'\s*(-?\d+) -> (-?\d+) \[label="([^"]*)"', line)
            if m:
                lab = m.group(3)
                self.edges.setdefault(m.group(1), []).append((relabel(lab) if relabel else lab, m.group(2)))
                self.nedges += 1
                continue
            m = re.match(r'\s*(-?\d+) \[label=.*style = filled\]', line)
            if m:
                self.init.append(m.group(1))
        self.used: set[tuple[str, str, str]] = set()

    def closure(self, states: set[str], is_tau) -> set[str]:
        seen = set(states)
        work = list(states)
        while work:
            s = work.pop()
            for (lab, dst) in self.edges.get(s, ()):
                if is_tau(lab) and dst not in seen:
                    seen.add(dst)
                    work.append(dst)
                    self.used.add((s, lab, dst))
        return seen

    def accepts(self, labels: list[str], is_tau) -> tuple[bool, int]:
        """(accepted, index of the first label that no model path can take)"""
        cur = self.closure(set(self.init), is_tau)
        for i, lab in enumerate(labels):
            nxt = set()
            for s in cur:
                for (l2, dst) in self.edges.get(s, ()):
                    if l2 == lab:
                        nxt.add(dst)
                        self.used.add((s, l2, dst))
            if not nxt:
                return False, i
            cur = self.closure(nxt, is_tau)
        return True, len(labels)
