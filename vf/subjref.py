"""Shared world + reference model for the subject checks C20-C23 (engine E2, vf/hbfs.py).

One *world* = a fresh real subject + 3 recording observers (plain or scripted) + the
harness bookkeeping (subscription handles) + the reference model(s) + logs + the
exceptions raised to the caller.  `World.apply(ev)` performs one event on the real
subject (then, for ReplaySubject, runs the virtual scheduler to quiescence inside the
current instant) and the same event on every reference model.  The oracle (evaluated on
every prefix by hbfs.bfs) demands equality of the per-observer logs and of the
exceptions raised to the caller.

Events (small JSON-able tuples):
  ("sub", i) ("unsub", i) ("next", 0|1) ("error",) ("complete",) ("dispose",)
  ("subbare",)      subscribe with an on_next callback only (no on_error), enabled after dispose()
  ("tick", 5|10)    ReplaySubject with a window only: advance the virtual clock

Scripted observers act on their first on_next *at which the action is possible* and
then disarm:
  ("unsub", j)  dispose the harness' handle of observer j (j may be the observer itself);
                possible when the harness holds an un-disposed handle of j whose
                subscribe() call has returned
  ("sub", k)    subscribe observer k; possible when the harness holds no un-disposed
                handle of k

Reference semantics (DESIGN.md section 5, C20-C23): the recipients of a notification are the
subscriptions registered when the call is made, in subscription order, minus any
recipient whose unsubscription returned before its turn; an observer subscribed from
inside a callback does not get the notification being delivered (but gets the current
value / the replay buffer / the terminal as any new subscriber does).

State key.  hbfs.bfs checks every prefix and never extends a violating history, so at
every state that is expanded the real logs equal the model's logs.  Equality of the
full logs after one more event is therefore equivalent to equality of what that event
appended, and the logs (which no code under test ever reads) are left out of the
canonical heap: two histories are merged when the real subject, all library objects
reachable from it, the harness bookkeeping, the scripted observers' state and the model
state (incl. which model alternative is still in agreement) are isomorphic.  This makes
the reachable state space of Subject/BehaviorSubject/AsyncSubject finite, so BFS can
close it (no state left to expand before the depth bound) - the verdict then covers
histories of every length over the menu.
"""
from __future__ import annotations

from typing import Any

from reactivex.scheduler import VirtualTimeScheduler
from reactivex.subject import AsyncSubject, BehaviorSubject, ReplaySubject, Subject

from . import core, hbfs, vt

NOBS = 3
CLASSES = {"subject": "Subject", "behavior": "BehaviorSubject", "replay": "ReplaySubject", "async": "AsyncSubject"}


class SubjErr(Exception):
    """The error instance passed to subject.on_error (one per world; compared by identity)."""


class FalsyErr(Exception):
    """An exception object whose truth value is False (e.g. an exception that is also an
    empty container).  The property statements do not restrict the error object."""

    def __bool__(self) -> bool:
        return False


class QSched(vt.VScheduler):
    """Virtual-time scheduler of one world.  `quiesce()` runs everything that is due in
    the current instant (ReplaySubject's ScheduledObservers only ever schedule at
    `now`, so the clock does not move).  TestScheduler.start() would also schedule its
    create/subscribe/dispose actions at 100/200/1000, hence the base-class call."""

    def quiesce(self) -> None:
        VirtualTimeScheduler.start(self)
        # action/step counters are bookkeeping of the harness, not state of the system
        self.actions = 0
        self.step = 0


# ------------------------------------------------------------------ observers

class Rec:
    """Recording observer, optionally scripted (see module doc)."""

    def __init__(self, world: "World", idx: int, script: tuple | None):
        self.world, self.idx, self.script = world, idx, script
        self.armed = script is not None
        self.log: list[tuple] = []

    def on_next(self, value: Any) -> None:
        self.log.append(("N", value))
        if self.armed:
            self._act()

    def on_error(self, error: Exception) -> None:
        self.log.append(("E", error))

    def on_completed(self) -> None:
        self.log.append(("C",))

    def _act(self) -> None:
        w = self.world
        kind, j = self.script  # type: ignore[misc]
        if kind == "unsub":
            if w.live[j] and w.handles[j] is not None:
                self.armed = False
                w.live[j] = False
                w.handles[j].dispose()
        else:
            if not w.live[j]:
                self.armed = False
                w.do_sub(j)


# ------------------------------------------------------------------ reference model

class MSub:
    """One subscription in the model (an identity; no counters, so states stay finite)."""

    __slots__ = ("obs", "active", "pending")

    def __init__(self, obs: int):
        self.obs = obs
        self.active = True
        self.pending: list[tuple] = []


def note_n(v: Any) -> tuple:
    return ("N",) + tuple(vt.norm_value(v))


TERM = {"E": ("E", "ERR"), "C": ("C",)}
DISPOSED = "DisposedException"


class Model:
    """Plain-list reference model of the four subjects.

    sync mode (Subject, BehaviorSubject, AsyncSubject): notifications are delivered
    inside the call, to the recipients in subscription order.
    sched mode (ReplaySubject on a scheduler): every subscription has its own FIFO of
    undelivered notifications which is drained when the scheduler runs; the statement
    fixes the order *per subscriber* only, so only scripts whose effect does not depend
    on the relative order of two different subscribers' deliveries are admitted there
    (checked by `validate_cfg`).
    `obs_major` (AsyncSubject only): on completion with a value, deliver value and
    completion observer by observer (True) or all values first (False); the statement
    does not choose, both are accepted (World keeps one model per alternative)."""

    def __init__(self, cfg: dict, obs_major: bool = True):
        self.kind = cfg["kind"]
        self.scripts = [tuple(s) if s else None for s in cfg["scripts"]]
        self.values = list(cfg["values"])
        self.sched_mode = self.kind == "replay"
        self.obs_major = obs_major
        self.ok = True  # still in agreement with the implementation (sticky)
        self.subs: list[MSub] = []  # registered subscriptions, subscription order
        self.pend: list[MSub] = []  # sched mode: active subscriptions (may hold pending notes)
        self.cur: list[MSub | None] = [None] * NOBS
        self.live = [False] * NOBS
        self.ready = [False] * NOBS
        self.armed = [s is not None for s in self.scripts]
        self.stopped: str | None = None
        self.disposed = False
        self.logs: list[list[tuple]] = [[] for _ in range(NOBS)]
        self.raised: list[str] = []
        self.value = cfg.get("init")
        self.has_value = False
        self.bs, self.window = cfg.get("bs"), cfg.get("window")
        self.now = 0
        self.hist: list[tuple] = []  # (time, value) that may still be retained

    # -- helpers
    def _drop(self, s: MSub) -> None:
        s.active = False
        s.pending = []
        if s in self.subs:
            self.subs.remove(s)
        if s in self.pend:
            self.pend.remove(s)

    def retained(self) -> list[tuple]:
        """The last buffer_size values whose age is within the window (age == window is within)."""
        h = self.hist if self.bs is None else (self.hist[-self.bs:] if self.bs > 0 else [])
        return [(t, v) for (t, v) in h if self.window is None or self.now - t <= self.window]

    def deliver(self, s: MSub, note: tuple) -> None:
        if not s.active:
            return  # unsubscribed before its turn
        self.logs[s.obs].append(note)
        if note[0] != "N":
            self._drop(s)  # a subscription ends with its terminal
        else:
            self.fire(s.obs)

    def fire(self, i: int) -> None:
        if not self.armed[i]:
            return
        kind, j = self.scripts[i]  # type: ignore[misc]
        if kind == "unsub":
            if self.live[j] and self.ready[j]:
                self.armed[i] = False
                self.unsub(j)
        else:
            if not self.live[j]:
                self.armed[i] = False
                self.sub(j)

    # -- events
    def apply(self, ev: tuple) -> None:
        k = ev[0]
        if k == "sub":
            self.sub(ev[1])
        elif k == "unsub":
            self.unsub(ev[1])
        elif k == "next":
            self.next(self.values[ev[1]])
        elif k == "error":
            self.terminal("E")
        elif k == "complete":
            self.terminal("C")
        elif k == "dispose":
            self.disposed = True
            for s in list(self.subs) + list(self.pend):
                self._drop(s)
            self.hist = []
            self.value = None
        elif k == "subbare":
            if not self.disposed:
                raise AssertionError("subbare is only in the menu after dispose()")
            self.raised.append(DISPOSED)
        elif k == "tick":
            self.now += ev[1]
        else:
            raise AssertionError(ev)
        if self.sched_mode:
            self.quiesce()

    def sub(self, i: int) -> None:
        self.live[i] = True
        self.ready[i] = False  # the handle exists only once subscribe() has returned
        if self.disposed:
            self.cur[i] = None
            self.logs[i].append(("E", DISPOSED))  # surfaced to the subscriber, not registered
        else:
            s = MSub(i)
            self.cur[i] = s
            if self.sched_mode:
                self.hist = self.retained()
                s.pending = [note_n(v) for (_, v) in self.hist]
                if self.stopped is None:
                    self.subs.append(s)
                else:
                    s.pending.append(TERM[self.stopped])
                self.pend.append(s)
            elif self.stopped is None:
                self.subs.append(s)
                if self.kind == "behavior":
                    self.deliver(s, note_n(self.value))
            else:
                if self.kind == "async" and self.stopped == "C" and self.has_value:
                    self.deliver(s, note_n(self.value))
                self.deliver(s, TERM[self.stopped])
        self.ready[i] = True

    def unsub(self, i: int) -> None:
        self.live[i] = False
        s = self.cur[i]
        if s is not None and s.active:
            self._drop(s)

    def next(self, v: Any) -> None:
        if self.disposed:
            self.raised.append(DISPOSED)
            return
        if self.stopped is not None:
            return
        if self.kind == "async":
            self.value, self.has_value = v, True
            return
        if self.kind == "behavior":
            self.value = v
        if self.kind == "replay":
            self.hist.append((self.now, v))
            self.hist = self.retained()
        for s in list(self.subs):
            if self.sched_mode:
                if s.active:
                    s.pending.append(note_n(v))
            else:
                self.deliver(s, note_n(v))

    def terminal(self, kind: str) -> None:
        if self.disposed:
            self.raised.append(DISPOSED)
            return
        if self.stopped is not None:
            return
        self.stopped = kind
        recips = list(self.subs)
        self.subs.clear()
        term = TERM[kind]
        if self.sched_mode:
            self.hist = self.retained()
            for s in recips:
                if s.active:
                    s.pending.append(term)
        elif self.kind == "async" and kind == "C" and self.has_value:
            val = note_n(self.value)
            if self.obs_major:
                for s in recips:
                    self.deliver(s, val)
                    self.deliver(s, term)
            else:
                for s in recips:
                    self.deliver(s, val)
                for s in recips:
                    self.deliver(s, term)
        else:
            for s in recips:
                self.deliver(s, term)

    def quiesce(self) -> None:
        while True:
            s = next((s for s in self.pend if s.pending), None)
            if s is None:
                return
            self.deliver(s, s.pending.pop(0))

    def phase(self) -> str:
        if self.disposed:
            return "disposed"
        return {None: "open", "C": "completed", "E": "errored"}[self.stopped]


# ------------------------------------------------------------------ world

class World:
    def __init__(self, cfg: dict):
        validate_cfg(cfg)
        kind = cfg["kind"]
        self.cfg = cfg
        self.values = list(cfg["values"])
        self.sched: QSched | None = None
        if kind == "subject":
            self.subject: Any = Subject()
        elif kind == "behavior":
            self.subject = BehaviorSubject(cfg["init"])
        elif kind == "replay":
            self.sched = QSched()
            self.subject = ReplaySubject(cfg["bs"], cfg["window"], self.sched)
        elif kind == "async":
            self.subject = AsyncSubject()
        else:
            raise AssertionError(kind)
        self.err: Exception = FalsyErr("E") if cfg.get("err") == "falsy" else SubjErr("E")
        scripts = [tuple(s) if s else None for s in cfg["scripts"]]
        self.recs = [Rec(self, i, scripts[i]) for i in range(NOBS)]
        self.handles: list[Any] = [None] * NOBS
        self.live = [False] * NOBS
        self.dispose_called = False
        self.raised: list[str] = []
        self.bare_log: list[Any] = []
        self.models = [Model(cfg)] + ([Model(cfg, obs_major=False)] if kind == "async" else [])
        self.last_effect = False  # skipped by state_key
        self.last_fired = False  # skipped by state_key
        self.diff: tuple[str, str] | None = None  # skipped by state_key

    # -- real side
    def do_sub(self, i: int) -> None:
        self.live[i] = True
        self.handles[i] = None
        self.handles[i] = self.subject.subscribe(self.recs[i])

    def _bare_next(self, v: Any) -> None:
        self.bare_log.append(v)

    def _real(self, ev: tuple) -> None:
        k = ev[0]
        if k == "sub":
            self.do_sub(ev[1])
        elif k == "unsub":
            self.live[ev[1]] = False
            self.handles[ev[1]].dispose()
        elif k == "next":
            self.subject.on_next(self.values[ev[1]])
        elif k == "error":
            self.subject.on_error(self.err)
        elif k == "complete":
            self.subject.on_completed()
        elif k == "dispose":
            self.dispose_called = True
            self.subject.dispose()
        elif k == "subbare":
            self.subject.subscribe(self._bare_next)
        elif k == "tick":
            self.sched.advance_by(ev[1])  # type: ignore[union-attr]
        else:
            raise AssertionError(ev)

    def effects(self) -> int:
        return sum(len(r.log) for r in self.recs) + len(self.raised)

    def apply(self, ev: tuple) -> None:
        ev = tuple(ev)
        before = self.effects()
        armed = [r.armed for r in self.recs]
        try:
            self._real(ev)
        except Exception as e:  # raised to the caller of the subject method
            self.raised.append(type(e).__name__)
        if self.sched is not None:
            self.sched.quiesce()
        self.last_effect = self.effects() > before
        self.last_fired = armed != [r.armed for r in self.recs]
        for m in self.models:
            m.apply(ev)
        self._judge()

    # -- oracle
    def norm(self, e: tuple) -> tuple:
        if e[0] == "N":
            return note_n(e[1])
        if e[0] == "E":
            return ("E", "ERR") if e[1] is self.err else ("E", type(e[1]).__name__)
        return ("C",)

    def real_logs(self) -> list[list[tuple]]:
        return [[self.norm(e) for e in r.log] for r in self.recs]

    def _diff(self, m: Model, logs: list[list[tuple]]) -> tuple[str, str] | None:
        """(class of the disagreement, text) or None."""
        for i in range(NOBS):
            exp, got = m.logs[i], logs[i]
            if exp == got:
                continue
            n = 0
            while n < len(exp) and n < len(got) and exp[n] == got[n]:
                n += 1
            if n == len(got):
                cls = f"missing:{exp[n][0]}"
            elif n == len(exp):
                cls = f"extra:{got[n][0]}"
            else:
                cls = f"differs:exp={exp[n][0]},got={got[n][0]}"
            return ("log-" + cls, f"observer {i} ({self.cfg['scripts'][i] or 'plain'}): expected {exp} got {got}")
        if m.raised != self.raised:
            return ("raised", f"exceptions raised to the caller: expected {m.raised} got {self.raised}")
        return None

    def _judge(self) -> None:
        logs = self.real_logs()
        first = None
        for m in self.models:
            if not m.ok:
                continue
            d = self._diff(m, logs)
            if d is None:
                continue
            m.ok = False
            first = first or d
        self.diff = None
        if self.sched is not None and self.sched.escaped:
            self.diff = ("escaped", f"exception escaped into the scheduler: {self.sched.escaped[0][1]!r}")
        elif self.bare_log:
            self.diff = ("bare-delivery", f"observer subscribed after dispose() received {self.bare_log}")
        elif not any(m.ok for m in self.models):
            self.diff = first or ("diverged", "no reference alternative agrees any more")

    def verdict(self) -> tuple[str, str] | None:
        return self.diff

    def show(self) -> dict:
        return {"logs": [repr(l) for l in self.real_logs()], "raised": list(self.raised),
                "expected_logs": [repr(l) for l in self.models[0].logs], "expected_raised": list(self.models[0].raised)}


_SKIP = frozenset({"last_effect", "last_fired", "diff"})


def state_key(w: World) -> str:
    """Canonical heap of the world without the logs (see module doc for why that is sound)."""
    saved: list[tuple[Any, str, Any]] = []

    def blank(o: Any, a: str) -> None:
        saved.append((o, a, getattr(o, a)))
        setattr(o, a, [])

    for r in w.recs:
        blank(r, "log")
    blank(w, "raised")
    blank(w, "bare_log")
    for m in w.models:
        blank(m, "logs")
        blank(m, "raised")
    try:
        return hbfs.canon(w, skip_names=_SKIP)
    finally:
        for o, a, v in saved:
            setattr(o, a, v)


# ------------------------------------------------------------------ configurations / menu

def validate_cfg(cfg: dict) -> None:
    scripts = [tuple(s) if s else None for s in cfg["scripts"]]
    assert len(scripts) == NOBS
    if cfg["kind"] == "replay":
        # order-independence of scripted effects (see Model doc): an observer may only
        # unsubscribe itself, and the target of a ("sub", k) script is a plain observer
        # that no other script touches
        for i, s in enumerate(scripts):
            if s is None:
                continue
            if s[0] == "unsub":
                assert s[1] == i, "ReplaySubject worlds admit self-unsubscription only"
            else:
                k = s[1]
                assert scripts[k] is None and all(t is None or t[1] != k for j, t in enumerate(scripts) if j != i)


def script_tag(cfg: dict) -> str:
    out = []
    for i, s in enumerate(cfg["scripts"]):
        if not s:
            out.append("P")
        elif s[0] == "unsub":
            out.append("Uself" if s[1] == i else f"U{s[1]}")
        else:
            out.append(f"S{s[1]}")
    return "-".join(out)


def facets(cfg: dict) -> str:
    f = []
    if cfg["kind"] == "behavior":
        f.append(f"init={cfg['init']!r}")
    if cfg["kind"] == "replay":
        f.append(f"bs={cfg['bs']},w={cfg['window']}")
    if cfg.get("err") == "falsy":
        f.append("err=falsy")
    return ",".join(f)


def cfg_tag(cfg: dict) -> str:
    return f"{CLASSES[cfg['kind']]}|{script_tag(cfg)}|{facets(cfg)}"


def _role(cfg: dict, i: int) -> tuple:
    scripts = cfg["scripts"]
    s = scripts[i]
    own = None if not s else (("unsub", "self") if (s[0] == "unsub" and s[1] == i) else ("x", i))
    targeted = any(t and t[1] == i for j, t in enumerate(scripts) if j != i)
    return (own, i if targeted else None)


def enabled(w: World) -> list[tuple]:
    """The event menu in a state (depends on the state only, simplest first).  Observers
    that play the same role (same script, not the target of another script) are
    interchangeable while unused, so they are taken into use in index order."""
    cfg = w.cfg
    evs: list[tuple] = []
    fresh = [w.handles[i] is None and not w.live[i] for i in range(NOBS)]
    for i in range(NOBS):
        if w.live[i]:
            continue
        if fresh[i] and any(fresh[j] and _role(cfg, j) == _role(cfg, i) for j in range(i)):
            continue
        evs.append(("sub", i))
    for i in range(NOBS):
        if w.handles[i] is not None:
            evs.append(("unsub", i))
    evs += [("next", 0), ("next", 1), ("error",), ("complete",), ("dispose",)]
    if w.sched is not None and cfg["window"] is not None:
        evs += [("tick", 5), ("tick", 10)]
    if w.dispose_called:
        evs.append(("subbare",))
    return evs


def build(cfg: dict, history: list) -> World:
    w = World(cfg)
    for ev in history:
        w.apply(ev)
    return w


def signature(cfg: dict, w: World, history: list, cls: str) -> str:
    return f"{CLASSES[cfg['kind']]}|{script_tag(cfg)}|{history[-1][0]}|{w.models[0].phase()}|{cls}|{facets(cfg)}"


def explore(part: core.Part, cfg: dict, depth: int, deadline: float, seed: int) -> hbfs.Result:
    """One BFS instance = one configuration.  Feeds `part` (one case per transition)."""
    tag = cfg_tag(cfg)

    def check(w: World, h: list) -> str | None:
        d = w.verdict()
        smp = None
        if len(part.samples) < 2 and len(h) >= 4 and w.last_effect:  # samples: actual non-trivial histories with what was observed
            smp = {"config": tag, "history": h, "observed_logs": w.show()["logs"], "raised_to_caller": list(w.raised)}
        part.case((tag, repr(h)), w.last_effect, outcome=(repr(w.real_logs()), tuple(w.raised)), sample=smp)
        if w.last_fired:
            part.count("transitions_with_reentrant_script_action")
        if h[-1][0] == "sub" and w.models[0].phase() != "open":
            part.count("transitions_late_subscription")
        if d is None:
            return None
        sig = signature(cfg, w, h, d[0])
        part.violation(sig, f"{tag} history {h}: {d[1]}", {"cfg": cfg, "history": h, "seed": seed}, **w.show())
        return d[1]

    res = hbfs.bfs(lambda h: build(cfg, h), lambda h, w: enabled(w), check, state_key, depth, deadline)
    part.count("states", res.states)
    part.count("transitions", res.transitions)
    part.count("merges", res.merges)
    part.count("bfs_instances")
    part.count(f"max_depth:{res.max_depth}")  # counters are summed on merge, so the depth goes into the name
    if res.complete and res.max_depth < depth and not res.violations:
        part.count("closed_instances")  # nothing left to expand: every longer history reaches a visited state
    if not res.complete:
        part.complete = False
    if not part.samples and res.samples:
        part.samples.append(core.jsonable({"config": tag, "history": res.samples[-1]}))
    return res


def _suffix(after: World, before: World) -> tuple:
    la, lb = after.real_logs(), before.real_logs()
    return tuple(tuple(la[i][len(lb[i]):]) for i in range(NOBS)), tuple(after.raised[len(before.raised):])


def audit_merges(part: core.Part, cfg: dict, depth: int, deadline: float) -> None:
    """Self-check of the (log-free) state key on this heap: a second BFS of one
    configuration in which, for every merge, the merged history h and the representative
    r of its state are both extended by every enabled event; the menus, what each event
    appends to the logs / raises, the verdicts and the successor keys must coincide.  A
    discrepancy is an error of the harness (AssertionError -> HARNESS-ERROR), not a verdict."""
    import time

    rep: dict[str, list] = {}
    last: dict[str, list] = {"h": []}

    def check(w: World, h: list) -> str | None:
        last["h"] = h
        return w.verdict() and w.verdict()[1]

    def key(w: World) -> str:
        k = state_key(w)
        h = list(last["h"])
        r = rep.setdefault(k, h)
        if r != h and time.time() < deadline:
            wr, wh = build(cfg, r), build(cfg, h)
            er, eh = enabled(wr), enabled(wh)
            assert er == eh, f"merge audit: menus differ after {r} / {h}: {er} / {eh}"
            for e in er:
                a, b = build(cfg, r + [e]), build(cfg, h + [e])
                same = _suffix(a, wr) == _suffix(b, wh) and (a.verdict() is None) == (b.verdict() is None) and state_key(a) == state_key(b)
                assert same, f"merge audit: {cfg_tag(cfg)}: histories {r} and {h} were merged but differ on {e}: {_suffix(a, wr)} / {_suffix(b, wh)}"
            part.count("merge_audits")
        return k

    hbfs.bfs(lambda h: build(cfg, h), lambda h, w: enabled(w), check, key, depth, deadline)
    part.count("audited_instances")


def shard_entry(part: core.Part, shard: int, nshards: int, tier: str, seed: int, deadline: float, cfgs: list, depths: list) -> None:
    """ctx.sharded worker: configuration i belongs to shard i % nshards.  A configuration
    with "audit": depth is additionally run through audit_merges to that depth."""
    for i, cfg in enumerate(cfgs):
        if i % nshards == shard:
            if cfg.get("audit"):
                audit_merges(part, {k: v for k, v in cfg.items() if k != "audit"}, cfg["audit"], deadline)
            else:
                explore(part, cfg, depths[i], deadline, seed)


def run_configs(ctx: core.Ctx, cfgs: list, depths: list) -> core.Part:
    order = sorted(range(len(cfgs)), key=lambda i: 0 if cfgs[i].get("audit") else 1)  # the (slow) audits start first
    cfgs, depths = [cfgs[i] for i in order], [depths[i] for i in order]
    part = ctx.sharded(shard_entry, extra=(cfgs, depths), nshards=len(cfgs))
    c = part.counters
    ctx.cov["states"] = c.get("states", 0)
    ctx.cov["transitions"] = c.get("transitions", 0)
    ctx.cov["traces_validated_against_impl"] = c.get("transitions", 0)
    ctx.cov["merges"] = c.get("merges", 0)
    ctx.cov["max_depth"] = max([int(k.split(":")[1]) for k in c if k.startswith("max_depth:")] or [0])
    ctx.cov["bfs_instances"] = c.get("bfs_instances", 0)
    ctx.cov["merge_audits"] = c.get("merge_audits", 0)
    ctx.cov["transitions_with_reentrant_script_action"] = c.get("transitions_with_reentrant_script_action", 0)
    ctx.cov["transitions_late_subscription"] = c.get("transitions_late_subscription", 0)
    ctx.cov["instances_closed_before_depth_bound"] = c.get("closed_instances", 0)
    return part


def replay_case(case: dict) -> list:
    cfg, history = case["cfg"], [tuple(e) for e in case["history"]]
    print("configuration:", cfg_tag(cfg), "values", cfg["values"])
    w = World(cfg)
    for n, ev in enumerate(history):
        w.apply(ev)
        print(f"  {n + 1}. {ev!r:18} logs={w.real_logs()} raised={w.raised}")
        d = w.verdict()
        if d is not None:
            print("  expected logs:", w.models[0].logs, "raised:", w.models[0].raised)
            return [{"signature": signature(cfg, w, history[: n + 1], d[0]), "what": d[1], "detail": w.show()}]
    return []


# value alphabets: the first value is falsy in every representative (C08-style trap)
ALPHABETS = [(0, 1), (None, 2), (False, "x")]


def alphabet(seed: int) -> list:
    return list(ALPHABETS[seed % len(ALPHABETS)])


P = None


def US(i: int) -> list:
    return ["unsub", i]
