"""Shared helper of the C18 (windows/buffers) and C19 (grouping) checks.

* `observe_nested` runs one real pipeline whose subscriber receives *observables*
  (windows, groups): a recorder is subscribed to every inner observable inside the
  emission step (Recorder.on_next_hook), so that an inner observable is observed from
  the instant it is handed out.  The observation is a list of `Seg`-tuples
  `(open instant, key, ((instant, value), ...), end instant | None, end kind | None)`.

* `admissible` is the reference side: a small *nondeterministic* event simulator.  A model
  (a few lines of state: which segments are live, what closes them) is fed the source
  timeline, the other harness timelines (boundaries, openings) and its own timers, instant
  by instant.  Inside one virtual instant every order of the pending events of *different
  origin* (the source, another harness source, each model timer) is explored, keeping each
  origin's own order, and timers are re-collected after every step (rule R3 of DESIGN.md).
  The search is pruned by the observation (a branch whose partial result is not a prefix of
  what was observed is abandoned), so it answers "is the observation a member of the
  admissible set?" without materialising the set.

The models only encode the rule of the property statement (when a segment opens, when it
closes, who receives an element); they know nothing about subjects, ids, queues or
ref-counts of the implementation.
"""
from __future__ import annotations

import math
from typing import Any

from . import vt

SUB = vt.SUB
nv = vt.norm_value


# ------------------------------------------------------------------ observation

class StepCold(vt.LoggedCold):
    """LoggedCold that also logs every delivery as (step, time, kind) in `.deliveries`
    (the step is taken *before* the observer is called)."""

    def __init__(self, env, name, timeline):
        super().__init__(env, name, timeline)
        self.deliveries: list = []

    def _subscribe_core(self, observer, scheduler=None):
        src = self

        class Tap:
            def on_next(self, v):
                src.deliveries.append((src.sched.tick(), src.sched._clock, "N"))
                observer.on_next(v)

            def on_error(self, e):
                src.deliveries.append((src.sched.tick(), src.sched._clock, "E"))
                observer.on_error(e)

            def on_completed(self):
                src.deliveries.append((src.sched.tick(), src.sched._clock, "C"))
                observer.on_completed()

        return super()._subscribe_core(Tap(), scheduler)


def observe_nested(make, tl, horizon, budget: int = 8000):
    """Run make(env, src) on a cold source with timeline `tl`; subscribe a recorder to every
    inner observable in the step it is emitted.  Returns (env, src, out, inner, status);
    inner = [(emission instant, emission step, inner observable, recorder)]."""
    env = vt.Env(budget=budget)
    src = StepCold(env, "src", tl)
    env.sources["src"] = src
    out = env.recorder("out")
    inner: list = []

    def hook(w, k):
        r = env.recorder("in%d" % (k - 1))
        inner.append((env.sched._clock, env.sched.step, w, r))
        r.subscription = w.subscribe(r, scheduler=env.sched)

    out.on_next_hook = hook
    env.subscribe_at(SUB, lambda: make(env, src), out)
    status = env.run(horizon)
    return env, src, out, inner, status


def rt(t):
    return None if t is None else round(float(t), 6)


def segments(inner, keyed: bool = False):
    """Observed segments in emission order."""
    segs = []
    for (t, _step, w, r) in inner:
        elems = tuple((rt(e[1]), nv(e[3])) for e in r.log if e[2] == "N")
        term = r.terminal()
        key = nv(getattr(w, "key", None)) if keyed else None
        segs.append((rt(t), key, elems, rt(term[1]) if term else None, term[2] if term else None))
    return segs


def close_steps(inner):
    """Step at which each inner recorder saw its terminal (None if it did not)."""
    out = []
    for (_t, _s, _w, r) in inner:
        term = r.terminal()
        out.append(term[0] if term else None)
    return out


def error_identity_problem(src, recs):
    """'end with the source's terminal notification': an error seen by a recorder must be the
    source's own error instance."""
    own = set(id(e) for e in src.errors.values())
    for r in recs:
        term = r.terminal()
        if term and term[2] == "E" and id(term[3]) not in own:
            return f"{r.name} ended with {term[3]!r}, which is not the source's error"
    return None


def show_segs(segs):
    def one(s):
        o, k, el, c, kd = s
        body = ",".join(f"{t:g}:{_sv(v)}" for (t, v) in el)
        end = "open" if c is None else f"{c:g}{'|' if kd == 'C' else '#'}"
        ks = "" if k is None else f"<{_sv(k)}>"
        return f"{o:g}{ks}[{body}]{end}"

    return " ".join(one(s) for s in segs) or "-"


def _sv(v):
    if isinstance(v, tuple) and len(v) == 2 and isinstance(v[0], str):
        if v[0] in ("tuple", "list"):
            return "(" + ",".join(_sv(i) for i in v[1]) + ")"
        return repr(v[1])
    return repr(v)


# ------------------------------------------------------------------ simulator

class St:
    """Model state: segments [open, key, elems, close, kind], indices of live segments,
    rule-specific scalars in x, done flag (source terminal consumed)."""

    __slots__ = ("w", "live", "x", "done")

    def __init__(self):
        self.w: list = []
        self.live: list = []
        self.x: dict = {}
        self.done = False

    def copy(self):
        n = St()
        n.w = [[s[0], s[1], list(s[2]), s[3], s[4]] for s in self.w]
        n.live = list(self.live)
        n.x = dict(self.x)
        n.done = self.done
        return n

    def freeze(self):
        return (
            tuple((s[0], s[1], tuple(s[2]), s[3], s[4]) for s in self.w),
            tuple(self.live),
            tuple(sorted(self.x.items(), key=repr)),
            self.done,
        )

    # helpers for models
    def open(self, t, key=None):
        self.w.append([rt(t), key, [], None, None])
        self.live.append(len(self.w) - 1)
        return len(self.w) - 1

    def close(self, j, t, kind):
        self.w[j][3], self.w[j][4] = rt(t), kind
        self.live.remove(j)

    def result(self):
        return [(s[0], s[1], tuple(s[2]), s[3], s[4]) for s in self.w]


class Model:
    """Base: every element goes to every live segment; the source's terminal ends all live
    segments with its kind and ends the run."""

    ext: dict = {}  # other harness sources: name -> [(abs t, kind, value)]

    def init(self, st: St, t0):
        pass

    def on_next(self, st: St, t, v):
        for j in st.live:
            st.w[j][2].append((rt(t), nv(v)))

    def on_term(self, st: St, t, kind):
        for j in list(st.live):
            st.close(j, t, kind)
        st.done = True

    def on_ext(self, st: St, name, t, kind, v):
        pass

    def timers(self, st: St):
        return []

    def on_timer(self, st: St, tid, t):
        pass


def _prefix_ok(st: St, obs) -> bool:
    if len(st.w) > len(obs):
        return False
    for s, o in zip(st.w, obs):
        if s[0] != o[0] or s[1] != o[1]:
            return False
        n = len(s[2])
        if n > len(o[2]) or tuple(s[2]) != o[2][:n]:
            return False
        if s[3] is not None and (s[3] != o[3] or s[4] != o[4] or n != len(o[2])):
            return False
    return True


def _events(model: Model, src_events):
    items = [("src", list(src_events))]
    for name in sorted(model.ext):
        items.append((name, list(model.ext[name])))
    return items


def _step(model, items, st, ptrs, c, t):
    s2 = st.copy()
    if c[1] == 0:
        i = c[2]
        name, evs = items[i]
        (_, kind, v) = evs[ptrs[i]]
        if name == "src":
            if kind == "N":
                model.on_next(s2, t, v)
            else:
                model.on_term(s2, t, kind)
        else:
            model.on_ext(s2, name, t, kind, v)
        p2 = ptrs[:i] + (ptrs[i] + 1,) + ptrs[i + 1:]
    else:
        model.on_timer(s2, c[2], t)
        p2 = ptrs
    return s2, p2


def _candidates(model, items, st, ptrs, horizon):
    cand = []
    for i, (_name, evs) in enumerate(items):
        if ptrs[i] < len(evs):
            cand.append((rt(evs[ptrs[i]][0]), 0, i))
    for (due, tid) in model.timers(st):
        cand.append((rt(due), 1, tid))
    return [c for c in cand if c[0] < horizon]


def admissible(model: Model, src_events, observed, t0=SUB, horizon=math.inf) -> bool:
    """Is `observed` producible by the model under some order of simultaneous events?
    src_events: [(abs t, kind, value)]."""
    items = _events(model, src_events)
    st0 = St()
    model.init(st0, t0)
    seen: set = set()
    stats = {"branch": 0}

    def rec(st: St, ptrs) -> bool:
        if not _prefix_ok(st, observed):
            return False
        key = (st.freeze(), ptrs)
        if key in seen:
            return False
        seen.add(key)
        if st.done:
            return st.result() == observed
        cand = _candidates(model, items, st, ptrs, horizon)
        if not cand:
            return st.result() == observed
        t = min(c[0] for c in cand)
        now = [c for c in cand if c[0] == t]
        if len(now) > 1:
            stats["branch"] += 1
        for c in now:
            s2, p2 = _step(model, items, st, ptrs, c, t)
            if rec(s2, p2):
                return True
        return False

    ok = rec(st0, tuple(0 for _ in items))
    admissible.last_branching = stats["branch"]
    return ok


admissible.last_branching = 0


def canonical(model: Model, src_events, t0=SUB, horizon=math.inf):
    """One member of the admissible set (source first, then other sources, then timers by id):
    used only to word a diagnosis."""
    items = _events(model, src_events)
    st = St()
    model.init(st, t0)
    ptrs = tuple(0 for _ in items)
    guard = 0
    while not st.done and guard < 10000:
        guard += 1
        cand = _candidates(model, items, st, ptrs, horizon)
        if not cand:
            break
        t = min(c[0] for c in cand)
        now = sorted((c for c in cand if c[0] == t), key=lambda c: (c[1], repr(c[2])))
        st, ptrs = _step(model, items, st, ptrs, now[0], t)
    return st.result()


def has_tie(model: Model, src_events, t0=SUB, horizon=math.inf) -> bool:
    """Did the canonical run meet an instant with simultaneous events of different origin?"""
    items = _events(model, src_events)
    st = St()
    model.init(st, t0)
    ptrs = tuple(0 for _ in items)
    guard = 0
    tie = False
    while not st.done and guard < 10000:
        guard += 1
        cand = _candidates(model, items, st, ptrs, horizon)
        if not cand:
            break
        t = min(c[0] for c in cand)
        now = sorted((c for c in cand if c[0] == t), key=lambda c: (c[1], repr(c[2])))
        if len(now) > 1:
            tie = True
        st, ptrs = _step(model, items, st, ptrs, now[0], t)
    return tie


def classify(expected, observed) -> str:
    """Label of the first difference between a reference member and the observation."""
    for j in range(max(len(expected), len(observed))):
        if j >= len(observed):
            return "missing-window"
        if j >= len(expected):
            return "extra-window"
        e, o = expected[j], observed[j]
        if e[1] != o[1]:
            return "key"
        if e[0] != o[0]:
            return "open-instant"
        if e[2] != o[2]:
            return "contents"
        if e[4] != o[4]:
            return "terminal-kind"
        if e[3] != o[3]:
            return "close-instant"
    return "order"


def abs_events(tl, t0=SUB):
    return [(t0 + t, k, v) for (t, k, v) in tl]
