"""E3 part of C11: the merge family with the outer sequence and every inner on its own thread.

The outer thread hands out n inner observables and completes; inner i is a gated Subject: its
thread starts emitting only once the operator has subscribed it (so nothing is lost
legitimately), emits (i, 0), (i, 1), ... and terminates.  Every interleaving up to the
preemption bound, line-level scheduling points in the operator's files.

Oracle = C11's statement, which is schedule independent for these inputs:
* no error anywhere: the output holds exactly the emitted elements, each inner's in its
  order, then completes; every handed-out inner gets subscribed (queued inners start);
  max_concurrent=1 / concat_map: the output is the concatenation in arrival order;
* never more than max_concurrent inners subscribed-and-not-terminated at once;
* with an erroring inner: the output is a per-inner-ordered subset followed by the error.
"""
from __future__ import annotations

import itertools

from . import ilv, ilvrun

FOCUS = ["operators/_merge.py", "operators/_flatmap.py", "observable/merge.py", "internal/concurrency.py"]
OPS = {
    # name: (max_concurrent or None, builder)
    "merge_all": None,
    "flat_map": None,
    "merge_mc1": 1,
    "merge_mc2": 2,
    "concat_map": 1,
}
WAIT = 3.0  # virtual seconds an inner thread waits for its subscription before giving up


class Boom(Exception):
    pass


class H:
    allow_thread_errors = False

    def __init__(self, op, seqs, lines=True):
        self.op, self.seqs, self.lines = op, seqs, lines
        self.mc = OPS[op]
        self.name = f"merge-threads|{op}|" + "||".join("".join(s) for s in seqs) + ("" if lines else "|sync-points-only")
        self.sig = "merge-threads"
        # lines=False: scheduling points at lock/condition/event/thread operations only (fewer points, so PB 2 is affordable)
        self.focus = ilv.focus_files(*FOCUS) if lines else []

    def setup(self, run):
        import reactivex
        from reactivex import operators as ops
        from reactivex.subject import Subject

        n = len(self.seqs)
        st = {"out": [], "events": [], "gate": [ilv.CEvent() for _ in range(n)], "subs": [Subject() for _ in range(n)], "unsubscribed": [], "outer": Subject()}

        def gated(i):
            def sub(observer, scheduler=None):
                st["events"].append(("sub", i))
                d = st["subs"][i].subscribe(observer)
                st["gate"][i].set()
                return d

            return reactivex.create(sub)

        st["inners"] = [gated(i) for i in range(n)]
        op = self.op
        if op == "merge_all":
            o = st["outer"].pipe(ops.merge_all())
        elif op == "flat_map":
            o = st["outer"].pipe(ops.flat_map(lambda x: x))
        elif op == "concat_map":
            o = st["outer"].pipe(ops.concat_map(lambda x: x))
        else:
            o = st["outer"].pipe(ops.merge(max_concurrent=self.mc))
        out = st["out"]
        st["d"] = o.subscribe(lambda v: out.append(("N", v)), lambda e: out.append(("E", type(e).__name__)), lambda: out.append(("C",)))
        return st

    def bodies(self, st):
        def outer():
            for inner in st["inners"]:
                st["outer"].on_next(inner)
            st["outer"].on_completed()

        def mk(i, seq):
            def body():
                if not st["gate"][i].wait(WAIT):
                    st["unsubscribed"].append(i)
                    return
                s = st["subs"][i]
                for j, k in enumerate(seq):
                    if k == "N":
                        s.on_next((i, j))
                    elif k == "C":
                        st["events"].append(("end", i))
                        s.on_completed()
                    else:
                        st["events"].append(("end", i))
                        s.on_error(Boom(i))

            return body

        return [outer] + [mk(i, s) for i, s in enumerate(self.seqs)]

    def outcome(self, x):
        return (tuple(x.state["out"]), tuple(x.state["unsubscribed"]))

    def nontrivial(self, x):
        return x.switches > 0

    def check(self, x):
        if x.outcome != "quiescent":
            return []
        st, P = x.state, []
        out = list(st["out"])
        shown = [o[1] if o[0] == "N" else o[0] for o in out]
        terms = [i for i, o in enumerate(out) if o[0] != "N"]
        if terms and terms[0] != len(out) - 1:
            P.append((f"{self.op}|threads|grammar", f"downstream received {shown}"))
        vals = [o[1] for o in out if o[0] == "N"]
        emitted = [(i, j) for i, s in enumerate(self.seqs) for j, k in enumerate(s) if k == "N"]
        for i in range(len(self.seqs)):
            mine = [v for v in vals if v[0] == i]
            if mine != sorted(set(mine)):
                P.append((f"{self.op}|threads|inner-order", f"elements of inner {i} reordered or duplicated: {shown}"))
        no_error = all(s[-1] == "C" for s in self.seqs)
        if no_error:
            if st["unsubscribed"]:
                P.append((f"{self.op}|threads|queued-inner-never-started", f"inner(s) {st['unsubscribed']} were handed out but never subscribed; downstream received {shown}"))
            elif sorted(vals) != emitted:
                P.append((f"{self.op}|threads|lost-or-extra-elements", f"emitted {emitted}, downstream received {shown}"))
            if not out or out[-1] != ("C",):
                P.append((f"{self.op}|threads|never-completed", f"outer and every inner completed, downstream received {shown}"))
            elif st["unsubscribed"] or sorted(vals) != emitted:
                P.append((f"{self.op}|threads|completed-early", f"completed although not every inner had been consumed: {shown}"))
            if self.mc == 1 and not st["unsubscribed"] and sorted(vals) == emitted and vals != emitted:
                P.append((f"{self.op}|threads|not-concatenation", f"max_concurrent=1 must give the concatenation in arrival order, got {shown}"))
        else:
            if not set(vals) <= set(emitted):
                P.append((f"{self.op}|threads|lost-or-extra-elements", f"downstream received {shown}"))
            if self._error_must_show(st) and (not out or out[-1][0] != "E"):
                P.append((f"{self.op}|threads|error-not-delivered", f"a subscribed inner failed; downstream received {shown}"))
        if self.mc:
            live = 0
            for ev, i in st["events"]:
                live += 1 if ev == "sub" else -1
                if live > self.mc:
                    P.append((f"{self.op}|threads|too-many-concurrent", f"more than max_concurrent={self.mc} inners subscribed at once: {st['events']}"))
                    break
        return P

    def _error_must_show(self, st):
        # the error is delivered when its inner was subscribed (it then did emit it)
        return any(s[-1] == "E" and i not in st["unsubscribed"] for i, s in enumerate(self.seqs))


SEQ_Q = [("C",), ("N", "C"), ("N", "E")]
SEQ_T = SEQ_Q + [("N", "N", "C"), ("E",)]


QUICK = [("merge_mc1", (("C",), ("C",))), ("merge_mc1", (("N", "C"), ("N", "C"))), ("merge_mc1", (("N", "C"), ("N", "E"))),
         ("merge_mc2", (("N", "C"), ("N", "C"))), ("merge_mc2", (("C",), ("N", "C"))), ("concat_map", (("N", "C"), ("N", "C"))),
         ("concat_map", (("N", "E"), ("C",))), ("merge_all", (("N", "C"), ("N", "C")))]


def harnesses(tier):
    if tier == "quick":
        return [H(op, seqs) for op, seqs in QUICK]
    hs = []
    for op in OPS:
        # flat_map = map + merge_all: the full pair table is explored for merge_all, a diagonal for flat_map
        pairs = itertools.product(SEQ_T, repeat=2) if op != "flat_map" else [(a, a) for a in SEQ_T]
        for pair in pairs:
            hs.append(H(op, pair))
        if op == "merge_mc2":
            for tr in itertools.product([("C",), ("N", "C")], repeat=3):
                hs.append(H(op, tr))
    for op, seqs in DEEP[:4]:
        hs.append(H(op, seqs, lines=False))
    return hs


# explored with PB 2 at sync-operation granularity (thorough)
DEEP = [("merge_mc1", (("C",), ("C",))), ("merge_mc1", (("N", "C"), ("N", "C"))), ("merge_mc1", (("N", "C"), ("N", "E"))), ("merge_mc2", (("N", "C"), ("C",))),
        ("concat_map", (("N", "C"), ("N", "C"))), ("merge_all", (("C",), ("N", "C"))), ("merge_all", (("N", "E"), ("C",))), ("flat_map", (("N", "C"), ("C",)))]


def PB_of(tier, h):
    return 1 if h.lines else 2


def shard(part, shard_i, nshards, tier, seed, deadline):
    ilv.install()
    for i, h in enumerate(harnesses(tier)):
        if (i + seed) % nshards == shard_i:
            ilvrun.explore_all(part, [h], 0, 1, PB_of(tier, h), 0, deadline, horizon=WAIT + 3.0, coarse_pb=2 if (tier != "quick" and h.lines and (h.op, h.seqs) in DEEP[:2]) else None)


def run_part(ctx):
    before = ctx.total.counters.get("executions", 0)
    hs = harnesses(ctx.tier)
    ctx.sharded(shard, nshards=len(hs), deadline=ctx.sub_deadline(0.5))
    ex = ctx.total.counters.get("executions", 0) - before
    ctx.cov["e3_threads"] = {
        "schedules_explored": ex, "coarse_executions": ctx.total.counters.get("coarse_executions", 0),
        "schedule_points": ctx.total.counters.get("schedule_points", 0),
        "PB": "1 (line-level points)" if ctx.tier == "quick" else "1 with line-level points for every harness; 2 at sync-operation points for the DEEP list",
        "harnesses": len(hs),
        "operators": list(OPS),
    }
    ctx.assumptions = list(ctx.assumptions) + [
        "E3 part: outer and inners each emit serially from their own controlled thread, an inner starts emitting once it has been subscribed; "
        "preemption at sync operations and line boundaries of _merge.py/_flatmap.py/merge.py/concurrency.py"
    ]


def replay(case):
    ilv.install()
    for tier in ("quick", "thorough"):
        for h in harnesses(tier):
            if h.name == case["harness"]:
                return ilvrun.replay_harness(h, case)
    return []
