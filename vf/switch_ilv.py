"""E3 part of C12: switch_latest / switch_map with the outer sequence and the inners on their own threads.

The outer thread hands out inner 0, then inner 1, then completes (or fails).  Inner 0 is hot
(its thread emits whenever it runs), inner 1 - the latest one - starts emitting once it has
been subscribed.  One global event list records, in the order they happen: the start of
every emission call, the return of each hand-out, the start of every terminal call, and
every downstream notification.  Every interleaving up to the preemption bound with
line-level scheduling points in _switchlatest.py.

Oracles (only what C12 states, and only where no emission is in flight across the switch):
* an element/error of inner 0 whose emission call *started after* the hand-out of inner 1
  had returned is never forwarded (stale);
* every element of the latest inner is forwarded, in order (no error case);
* completion comes only after the outer's and the latest inner's completion calls began,
  and does come once both are done; an outer error / latest-inner error is delivered.
"""
from __future__ import annotations

import itertools

from . import ilv, ilvrun

FOCUS = ["operators/_switchlatest.py"]
WAIT = 3.0


class Boom(Exception):
    pass


class H:
    allow_thread_errors = False

    def __init__(self, form, s0, s1, oterm):
        self.form, self.s0, self.s1, self.oterm = form, s0, s1, oterm
        self.name = f"switch-threads|{form}|{''.join(s0)}||{''.join(s1)}|outer{oterm}"
        self.sig = "switch-threads"
        self.focus = ilv.focus_files(*FOCUS)

    def setup(self, run):
        import reactivex
        from reactivex import operators as ops
        from reactivex.subject import Subject

        st = {"ev": [], "gate": ilv.CEvent(), "subs": [Subject(), Subject()], "outer": Subject(), "unsubscribed": False}
        ev = st["ev"]

        def gated(observer, scheduler=None):
            d = st["subs"][1].subscribe(observer)
            st["gate"].set()
            return d

        st["inners"] = [st["subs"][0], reactivex.create(gated)]
        if self.form == "switch_latest":
            o = st["outer"].pipe(ops.map(lambda i: st["inners"][i]), ops.switch_latest())
        else:
            o = st["outer"].pipe(ops.switch_map(lambda i: st["inners"][i]))
        st["d"] = o.subscribe(lambda v: ev.append(("out", "N", v)), lambda e: ev.append(("out", "E", str(e))), lambda: ev.append(("out", "C", None)))
        return st

    def bodies(self, st):
        ev = st["ev"]

        def outer():
            for i in (0, 1):
                st["outer"].on_next(i)
                ev.append(("handed", i))
            ev.append(("term-start", "outer"))
            st["outer"].on_error(Boom("outer")) if self.oterm == "E" else st["outer"].on_completed()

        def mk(i, seq):
            def body():
                if i == 1 and not st["gate"].wait(WAIT):
                    st["unsubscribed"] = True
                    return
                s = st["subs"][i]
                for j, k in enumerate(seq):
                    if k == "N":
                        ev.append(("emit-start", (i, j)))
                        s.on_next((i, j))
                    elif k == "C":
                        ev.append(("term-start", i))
                        s.on_completed()
                    else:
                        ev.append(("term-start", i))
                        s.on_error(Boom(f"inner{i}"))

            return body

        return [outer, mk(0, self.s0), mk(1, self.s1)]

    def outcome(self, x):
        return tuple(e[1:] for e in x.state["ev"] if e[0] == "out")

    def nontrivial(self, x):
        return x.switches > 0

    def check(self, x):
        if x.outcome != "quiescent":
            return []
        st, P = x.state, []
        ev = st["ev"]
        idx = {}
        for n, e in enumerate(ev):
            idx.setdefault(e[:2] if e[0] != "out" else ("out",) + e[1:], n)
        out = [e[1:] for e in ev if e[0] == "out"]
        shown = [o[1] if o[0] == "N" else o[0] + (f"({o[1]})" if o[1] else "") for o in out]
        terms = [i for i, o in enumerate(out) if o[0] != "N"]
        f = self.form
        if terms and terms[0] != len(out) - 1:
            P.append((f"{f}|threads|grammar", f"downstream received {shown}"))
        handed1 = idx.get(("handed", 1), 10**9)
        for o in out:
            if o[0] == "N" and o[1][0] == 0 and idx[("emit-start", o[1])] > handed1:
                P.append((f"{f}|threads|stale-element-forwarded", f"{o[1]} was emitted by the superseded inner after the newer inner had been handed over; downstream {shown}"))
            if o[0] == "E" and o[1] == "inner0" and idx.get(("term-start", 0), -1) > handed1:
                P.append((f"{f}|threads|stale-error-forwarded", f"the superseded inner failed after the newer inner had been handed over; downstream {shown}"))
        if st["unsubscribed"]:
            if not terms:
                P.append((f"{f}|threads|latest-inner-never-subscribed", f"downstream {shown}"))
            return P
        got1 = [o[1] for o in out if o[0] == "N" and o[1][0] == 1]
        want1 = [(1, j) for j, k in enumerate(self.s1) if k == "N"]
        err_before = any(o[0] == "E" for o in out)
        if got1 != want1 and not err_before:
            P.append((f"{f}|threads|latest-elements-lost", f"latest inner emitted {want1}, downstream {shown}"))
        if got1 != want1[: len(got1)]:
            P.append((f"{f}|threads|latest-elements-reordered", f"latest inner emitted {want1}, downstream {shown}"))
        cpos = idx.get(("out", "C", None))
        if cpos is not None:
            if cpos < idx.get(("term-start", "outer"), 10**9) or self.oterm == "E":
                P.append((f"{f}|threads|completed-before-outer", f"downstream completed before the outer sequence did: {shown}"))
            if cpos < idx.get(("term-start", 1), 10**9) or self.s1[-1] == "E":
                P.append((f"{f}|threads|completed-before-latest-inner", f"downstream completed before the latest inner did: {shown}"))
        if not terms:
            P.append((f"{f}|threads|never-terminated", f"outer ended with {self.oterm}, latest inner with {self.s1[-1]}; downstream {shown}"))
        elif out[-1][0] == "C" and (self.oterm == "E" or self.s1[-1] == "E"):
            pass  # reported above
        return P


S0_Q = [("N", "C"), ("N", "E")]
S1_Q = [("C",), ("N", "C"), ("N", "E")]
S0_T = S0_Q + [("N", "N", "C"), ("C",)]
S1_T = S1_Q + [("N", "N", "C")]


# explored with PB 2 as well in the thorough tier (a PB-2 search of one harness is ~35 000 executions)
DEEP = [("switch_latest", ("N", "C"), ("C",), "C"), ("switch_latest", ("N", "C"), ("N", "C"), "C"), ("switch_latest", ("C",), ("N", "C"), "C"),
        ("switch_latest", ("N", "E"), ("N", "C"), "C"), ("switch_latest", ("N", "C"), ("N", "E"), "C"), ("switch_latest", ("N", "C"), ("N", "C"), "E")]


def harnesses(tier):
    if tier == "quick":
        combos = [("switch_latest", a, b, t) for a in S0_Q for b in S1_Q for t in ("C", "E") if not (t == "E" and b != ("N", "C"))]
        combos.append(("switch_map", ("N", "C"), ("N", "C"), "C"))
        hs = [H(*c) for c in combos]
        for c in DEEP[:2]:
            # PB 2, switching only at line boundaries of _switchlatest.py (and where threads block/start/end): cheap enough for every run
            h = H(*c)
            h.pb, h.lines_only = 2, True
            h.name += "|PB2-lines-only"
            hs.append(h)
        return hs
    hs = [H(f, a, b, t) for f in ("switch_latest", "switch_map") for a in S0_T for b in S1_T for t in ("C", "E")]
    for c in DEEP[:3]:
        h = H(*c)
        h.pb = 2
        h.name += "|PB2"
        hs.append(h)
    return hs


def PB_of(tier, h=None):
    return getattr(h, "pb", 1)


def shard(part, shard_i, nshards, tier, seed, deadline):
    ilv.install()
    for i, h in enumerate(harnesses(tier)):
        if (i + seed) % nshards == shard_i:
            ilvrun.explore_all(part, [h], 0, 1, PB_of(tier, h), 0, deadline, horizon=WAIT + 3.0, coarse_pb=2 if (tier != "quick" and PB_of(tier, h) == 1) else None)


def run_part(ctx):
    before = ctx.total.counters.get("executions", 0)
    hs = harnesses(ctx.tier)
    ctx.sharded(shard, nshards=len(hs), deadline=ctx.sub_deadline(0.5))
    ex = ctx.total.counters.get("executions", 0) - before
    ctx.cov["e3_threads"] = {"schedules_explored": ex, "coarse_executions": ctx.total.counters.get("coarse_executions", 0), "schedule_points": ctx.total.counters.get("schedule_points", 0), "PB": "1" if ctx.tier == "quick" else "1 for every harness, 2 for the DEEP list", "harnesses": len(hs)}
    ctx.assumptions = list(ctx.assumptions) + [
        "E3 part: outer and two inners each emit serially from their own controlled thread; preemption at sync operations and line "
        "boundaries of _switchlatest.py; emissions in flight across the switch are not judged (only calls that started after the hand-over returned)"
    ]


def replay(case):
    ilv.install()
    for tier in ("quick", "thorough"):
        for h in harnesses(tier):
            if h.name == case["harness"]:
                return ilvrun.replay_harness(h, case)
    return []
