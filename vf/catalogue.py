"""Catalogue Ω of operator instances for the pipeline-level generic oracles
(C01-C04, C08, C09, C44) and the pipeline runner that executes one case.

An Entry builds a *fresh* operator function for one execution from a Kit:
  K.p(slot, fn)        user callback wrapped in a probe (slot name = kind.label); kinds follow R5:
                       mapper, predicate, key, comparer, accumulator, duration, closing, factory,
                       condition, handler, action(side effects: C40, not C09)
  K.src(name, tl)      extra source of the case's source kind (timeline relative to subscription)
  K.A, K.B, K.C        the three alphabet values of this execution; K.u(x) maps a concrete value
                       back to its abstract symbol (identity unless a renaming is in force: C08)
  K.sched              the virtual scheduler (always passed explicitly to time-based operators)
"""
from __future__ import annotations

from typing import Any, Callable

from . import vt


class Entry:
    def __init__(self, id: str, build: Callable[["Kit"], Callable], flags=(), needs=None):
        self.id = id
        self.name = id.split(":")[0]
        self.build = build
        self.flags = set(flags)
        self.needs = needs  # None | 'connectable' (must follow a connectable-producing stage)

    def __repr__(self):
        return f"<Entry {self.id}>"


class Kit:
    def __init__(self, env: vt.Env, source_kind: str, alphabet=(1, 2, 3), unrename=None, stage: int = 0, sub: float = vt.SUB):
        self.env, self.sched = env, env.sched
        self.source_kind = source_kind
        self.A, self.B, self.C = alphabet
        self.u = unrename or (lambda x: x)
        self.stage = stage
        self.sub = sub
        self.extra: list = []

    def p(self, slot: str, fn: Callable) -> Callable:
        return self.env.probe(f"s{self.stage}.{slot}", fn)

    def src(self, name: str, tl, kind: str | None = None):
        kind = kind or ("cold" if self.source_kind == "rogue" else self.source_kind)
        nm = f"s{self.stage}.{name}"
        if kind == "hot":
            s = self.env.hot(nm, [(self.sub + t, k, v) for (t, k, v) in tl])
        else:
            s = self.env.cold(nm, tl)
        self.extra.append(s)
        return s

    def timer(self, name: str, due: float):
        """cold single-shot duration source: emits at +due and completes"""
        return self.env.cold(f"s{self.stage}.{name}", [(due, "N", 0), (due, "C", None)])


# extra-source timelines (relative).  Offsets ending in 5 do not tie with the main slots 10,20,..
def X_two(K):
    return [(15, "N", K.C), (35, "N", K.A), (45, "C", None)]


def X_tie(K):
    return [(20, "N", K.C), (30, "C", None)]


def X_err(K):
    return [(15, "N", K.C), (25, "E", "X")]


def X_never(K):
    return [(15, "N", K.C)]


def X_empty(K):
    return [(5, "C", None)]


def build_catalogue() -> list[Entry]:
    import reactivex
    from reactivex import operators as ops
    from reactivex.subject import Subject

    E: list[Entry] = []

    def add(id, build, *flags, needs=None):
        E.append(Entry(id, build, flags, needs))

    def compose(*fs):
        from reactivex import compose as c

        return c(*fs)

    VA = "value_agnostic"
    CS = "cold_safe"
    # ---------------- element-wise
    add("map:wrap", lambda K: ops.map(K.p("mapper.f", lambda x: (x, "m"))), "elementwise", VA, CS, "core")
    add("map_indexed", lambda K: ops.map_indexed(K.p("mapper.f", lambda x, i: (x, i))), "elementwise", VA, CS)
    add("filter:neA", lambda K: ops.filter(K.p("predicate.p", lambda x: K.u(x) != 1)), "elementwise", VA, CS, "core")
    add("filter_indexed", lambda K: ops.filter_indexed(K.p("predicate.p", lambda x, i: i != 1)), "elementwise", VA, CS)
    add("take:1", lambda K: ops.take(1), "elementwise", VA, CS, "core", "early")
    add("take:2", lambda K: ops.take(2), "elementwise", VA, CS, "core", "early")
    add("skip:1", lambda K: ops.skip(1), "elementwise", VA, CS, "core")
    add("take_while:neB", lambda K: ops.take_while(K.p("predicate.p", lambda x: K.u(x) != 2)), "elementwise", VA, CS, "early")
    add("take_while:neB:incl", lambda K: ops.take_while(K.p("predicate.p", lambda x: K.u(x) != 2), True), "elementwise", VA, CS, "early")
    add("take_while_indexed", lambda K: ops.take_while_indexed(K.p("predicate.p", lambda x, i: i < 1)), "elementwise", VA, CS, "early")
    add("skip_while:eqA", lambda K: ops.skip_while(K.p("predicate.p", lambda x: K.u(x) == 1)), "elementwise", VA, CS)
    add("skip_while_indexed", lambda K: ops.skip_while_indexed(K.p("predicate.p", lambda x, i: i < 1)), "elementwise", VA, CS)
    add("distinct", lambda K: ops.distinct(), "elementwise", VA, CS, "eq")
    add("distinct:key:cmp", lambda K: ops.distinct(K.p("key.k", lambda x: (K.u(x) == 1)), K.p("comparer.c", lambda a, b: a == b)), "elementwise", VA, CS)
    add("distinct_until_changed", lambda K: ops.distinct_until_changed(), "elementwise", VA, CS, "core", "eq")
    add("distinct_until_changed:key:cmp", lambda K: ops.distinct_until_changed(K.p("key.k", lambda x: (K.u(x) == 1)), K.p("comparer.c", lambda a, b: a == b)), "elementwise", VA, CS)
    add("pairwise", lambda K: ops.pairwise(), "elementwise", VA, CS)
    add("start_with:C", lambda K: ops.start_with(K.C), "elementwise", VA, CS, "core")
    add("default_if_empty:C", lambda K: ops.default_if_empty(K.C), "elementwise", VA, CS)
    add("ignore_elements", lambda K: ops.ignore_elements(), "elementwise", VA, CS)
    add("take_last:1", lambda K: ops.take_last(1), "elementwise", VA, CS, "core")
    add("take_last:2", lambda K: ops.take_last(2), "elementwise", VA, CS)
    add("skip_last:1", lambda K: ops.skip_last(1), "elementwise", VA, CS)
    add("take_last_buffer:2", lambda K: ops.take_last_buffer(2), "elementwise", VA, CS)
    add("element_at:1", lambda K: ops.element_at(1), "elementwise", VA, CS, "early")
    add("element_at_or_default:5:C", lambda K: ops.element_at_or_default(5, K.C), "elementwise", VA, CS)
    add("find:eqB", lambda K: ops.find(K.p("predicate.p", lambda x, i, s: K.u(x) == 2)), "elementwise", CS, "early")
    add("find_index:eqB", lambda K: ops.find_index(K.p("predicate.p", lambda x, i, s: K.u(x) == 2)), "elementwise", CS, "early")
    add("starmap", lambda K: compose(ops.map(lambda x: (x, x)), ops.starmap(K.p("mapper.f", lambda a, b: [a, b]))), "elementwise", VA, CS)
    add("pluck", lambda K: compose(ops.map(lambda x: {"k": x}), ops.pluck("k")), "elementwise", VA, CS)
    add("materialize", lambda K: ops.materialize(), "elementwise", CS)
    add("mat_demat", lambda K: compose(ops.materialize(), ops.dematerialize()), "elementwise", VA, CS)
    add("as_observable", lambda K: ops.as_observable(), "elementwise", VA, CS)
    add("slice:1:3", lambda K: ops.slice(1, 3), "elementwise", VA, CS, "early")
    add("slice:-2:", lambda K: ops.slice(-2, None), "elementwise", VA, CS)
    add("slice:-3:2", lambda K: ops.slice(-3, 2), "elementwise", VA, CS)
    add("slice::-1:2", lambda K: ops.slice(None, -1, 2), "elementwise", VA, CS)
    add("first", lambda K: ops.first(), "aggregate", VA, CS, "early")
    add("first:eqB", lambda K: ops.first(K.p("predicate.p", lambda x: K.u(x) == 2)), "aggregate", VA, CS, "early")
    add("first_or_default:C", lambda K: ops.first_or_default(None, K.C), "aggregate", VA, CS, "early")
    add("last", lambda K: ops.last(), "aggregate", VA, CS)
    add("last:eqA", lambda K: ops.last(K.p("predicate.p", lambda x: K.u(x) == 1)), "aggregate", VA, CS)
    add("last_or_default:C", lambda K: ops.last_or_default(K.C), "aggregate", VA, CS)
    add("single", lambda K: ops.single(), "aggregate", VA, CS)
    add("single_or_default:C", lambda K: ops.single_or_default(None, K.C), "aggregate", VA, CS)
    # ---------------- aggregates
    add("reduce:list:seed", lambda K: ops.reduce(K.p("accumulator.a", lambda acc, x: acc + [x]), []), "aggregate", VA, CS)
    add("reduce:pair", lambda K: ops.reduce(K.p("accumulator.a", lambda acc, x: (acc, x))), "aggregate", VA, CS)
    add("scan:list:seed", lambda K: ops.scan(K.p("accumulator.a", lambda acc, x: acc + [x]), []), "aggregate", VA, CS, "core")
    add("scan:pair", lambda K: ops.scan(K.p("accumulator.a", lambda acc, x: (acc, x))), "aggregate", VA, CS)
    add("count", lambda K: ops.count(), "aggregate", VA, CS)
    add("count:neA", lambda K: ops.count(K.p("predicate.p", lambda x: K.u(x) != 1)), "aggregate", VA, CS)
    add("sum:key", lambda K: ops.sum(K.p("key.k", lambda x: 1 if K.u(x) == 1 else 2)), "aggregate", VA, CS)
    add("average:key", lambda K: ops.average(K.p("key.k", lambda x: 1 if K.u(x) == 1 else 3)), "aggregate", VA, CS)
    add("sum", lambda K: ops.sum(), "aggregate", CS, "numeric")
    add("min", lambda K: ops.min(), "aggregate", CS, "numeric")
    add("max:cmp", lambda K: ops.max(K.p("comparer.c", lambda a, b: (K.u(a) > K.u(b)) - (K.u(a) < K.u(b)))), "aggregate", VA, CS)
    add("min_by:key", lambda K: ops.min_by(K.p("key.k", lambda x: K.u(x) % 2)), "aggregate", VA, CS)
    add("max_by:key", lambda K: ops.max_by(K.p("key.k", lambda x: K.u(x) % 2)), "aggregate", VA, CS)
    add("to_list", lambda K: ops.to_list(), "aggregate", VA, CS)
    add("to_iterable", lambda K: ops.to_iterable(), "aggregate", VA, CS)
    add("to_set", lambda K: ops.to_set(), "aggregate", CS, "hash")
    add("to_dict:key", lambda K: ops.to_dict(K.p("key.k", lambda x: K.u(x) % 2)), "aggregate", VA, CS)
    add("to_dict:key:elem", lambda K: ops.to_dict(K.p("key.k", lambda x: K.u(x) % 2), K.p("mapper.e", lambda x: [x])), "aggregate", VA, CS)
    add("all:neB", lambda K: ops.all(K.p("predicate.p", lambda x: K.u(x) != 2)), "aggregate", CS, "early")
    add("some", lambda K: ops.some(), "aggregate", CS, "early")
    add("some:eqB", lambda K: ops.some(K.p("predicate.p", lambda x: K.u(x) == 2)), "aggregate", CS, "early")
    add("contains:B", lambda K: ops.contains(K.B), "aggregate", CS, "early", "eq")
    add("contains:B:cmp", lambda K: ops.contains(K.B, K.p("comparer.c", lambda a, b: K.u(a) == K.u(b))), "aggregate", CS, "early")
    add("is_empty", lambda K: ops.is_empty(), "aggregate", CS, "early")
    add("sequence_equal:obs", lambda K: ops.sequence_equal(K.src("x", [(15, "N", K.A), (25, "N", K.B), (45, "C", None)])), "aggregate", "multi", CS)
    add("sequence_equal:iter:cmp", lambda K: ops.sequence_equal([K.A, K.B], K.p("comparer.c", lambda a, b: K.u(a) == K.u(b))), "aggregate", CS)
    # ---------------- multi-source
    add("merge:x", lambda K: ops.merge(K.src("x", X_two(K))), "multi", VA, CS, "core")
    add("merge:x:err", lambda K: ops.merge(K.src("x", X_err(K))), "multi", VA, CS)
    add("merge:mc1", lambda K: compose(ops.map(lambda x, inner=[K.src("i1", X_two(K)), K.src("i2", X_empty(K)), K.src("i3", X_never(K))], n=[0]: inner[min(_inc(n), 2)]), ops.merge(max_concurrent=1)), "higher", VA, CS)
    add("concat:x", lambda K: ops.concat(K.src("x", X_two(K))), "multi", VA, CS, "core")
    add("zip:x", lambda K: ops.zip(K.src("x", X_two(K))), "multi", VA, CS, "core")
    add("zip:x:tie", lambda K: ops.zip(K.src("x", X_tie(K))), "multi", VA, CS)
    add("zip_with_iterable", lambda K: ops.zip_with_iterable([K.C, K.A]), "multi", VA, CS)
    add("combine_latest:x", lambda K: ops.combine_latest(K.src("x", X_two(K))), "multi", VA, CS, "core")
    add("with_latest_from:x", lambda K: ops.with_latest_from(K.src("x", X_two(K))), "multi", VA, CS, "core")
    add("fork_join:x", lambda K: ops.fork_join(K.src("x", X_two(K))), "multi", VA, CS)
    add("amb:x", lambda K: ops.amb(K.src("x", X_two(K))), "multi", VA, CS, "core")
    add("amb:x:early", lambda K: ops.amb(K.src("x", [(5, "N", K.C), (45, "C", None)])), "multi", VA, CS)
    add("catch:x", lambda K: ops.catch(K.src("x", X_two(K))), "multi", VA, CS, "core")
    add("catch:handler", lambda K: ops.catch(K.p("handler.h", lambda e, s, x=K.src("x", X_two(K)): x)), "multi", VA, CS)
    add("on_error_resume_next:x", lambda K: ops.on_error_resume_next(K.src("x", X_two(K))), "multi", VA, CS)
    add("take_until:x", lambda K: ops.take_until(K.src("x", X_never(K))), "multi", VA, CS, "core", "early")
    add("take_until:x:late", lambda K: ops.take_until(K.src("x", [(25, "N", K.C)])), "multi", VA, CS, "early")
    add("skip_until:x", lambda K: ops.skip_until(K.src("x", X_never(K))), "multi", VA, CS)
    add("switch_latest", lambda K: compose(ops.map(lambda x, inner=[K.src("i1", X_two(K)), K.src("i2", X_err(K)), K.src("i3", X_never(K))], n=[0]: inner[min(_inc(n), 2)]), ops.switch_latest()), "higher", VA, CS)
    add("merge_all", lambda K: compose(ops.map(lambda x, inner=[K.src("i1", X_two(K)), K.src("i2", X_empty(K)), K.src("i3", X_never(K))], n=[0]: inner[min(_inc(n), 2)]), ops.merge_all()), "higher", VA, CS)
    add("flat_map", lambda K: ops.flat_map(K.p("mapper.f", lambda x, inner=K.src("i", [(5, "N", K.C), (15, "C", None)]): inner)), "higher", VA, CS, "core")
    add("flat_map:err", lambda K: ops.flat_map(K.p("mapper.f", lambda x, inner=K.src("i", X_err(K)): inner)), "higher", VA, CS)
    add("flat_map_indexed", lambda K: ops.flat_map_indexed(K.p("mapper.f", lambda x, i, inner=K.src("i", [(5, "N", K.C), (15, "C", None)]): inner)), "higher", VA, CS)
    add("flat_map_latest", lambda K: ops.flat_map_latest(K.p("mapper.f", lambda x, inner=K.src("i", X_two(K)): inner)), "higher", VA, CS, "core")
    if hasattr(ops, "switch_map"):
        add("switch_map", lambda K: ops.switch_map(K.p("mapper.f", lambda x, inner=K.src("i", X_two(K)): inner)), "higher", VA, CS)
    if hasattr(ops, "concat_map"):
        add("concat_map", lambda K: ops.concat_map(K.p("mapper.f", lambda x, inner=K.src("i", [(5, "N", K.C), (15, "C", None)]): inner)), "higher", VA, CS)
    add("exclusive", lambda K: compose(ops.map(lambda x, inner=K.src("i", X_two(K)): inner), ops.exclusive()), "higher", VA, CS)
    add("expand", lambda K: compose(ops.expand(K.p("mapper.f", lambda x, e=K.src("e", X_empty(K)), i=K.src("i", [(5, "N", "leaf"), (5, "C", None)]): e if x == "leaf" else i)), ops.take(6)), "higher", CS)
    add("join", lambda K: ops.join(K.src("x", X_two(K)), K.p("duration.l", lambda v, K=K: K.timer("dl", 20)), K.p("duration.r", lambda v, K=K: K.timer("dr", 20))), "higher", VA, CS)
    add("group_join", lambda K: compose(ops.group_join(K.src("x", X_two(K)), K.p("duration.l", lambda v, K=K: K.timer("dl", 20)), K.p("duration.r", lambda v, K=K: K.timer("dr", 20))), ops.flat_map(lambda t: t[1].pipe(ops.map(lambda r, l=t[0]: (l, r))))), "higher", VA, CS)
    # ---------------- time
    add("delay:10", lambda K: ops.delay(10, K.sched), "time", VA, CS, "core")
    add("delay:0", lambda K: ops.delay(0, K.sched), "time", VA, CS)
    add("delay_subscription:15", lambda K: ops.delay_subscription(15, K.sched), "time", VA, CS)
    add("delay_with_mapper", lambda K: ops.delay_with_mapper(K.p("duration.d", lambda x, K=K: K.timer("d", 15))), "time", VA, CS)
    add("delay_with_mapper:subdelay", lambda K: ops.delay_with_mapper(K.timer("sd", 5), K.p("duration.d", lambda x, K=K: K.timer("d", 15))), "time", VA, CS)
    add("debounce:15", lambda K: ops.debounce(15, K.sched), "time", VA, CS, "core")
    add("throttle_with_timeout:5", lambda K: ops.throttle_with_timeout(5, K.sched), "time", VA, CS)
    add("throttle_first:15", lambda K: ops.throttle_first(15, K.sched), "time", VA, CS)
    add("throttle_with_mapper", lambda K: ops.throttle_with_mapper(K.p("duration.d", lambda x, K=K: K.timer("d", 15))), "time", VA, CS)
    add("sample:15", lambda K: ops.sample(15, K.sched), "time", VA, CS, "core")
    add("sample:obs", lambda K: ops.sample(K.src("x", X_two(K))), "time", "multi", VA, CS)
    add("timestamp", lambda K: ops.timestamp(K.sched), "time", CS, "clockvalue")
    add("time_interval", lambda K: ops.time_interval(K.sched), "time", CS)
    add("timeout:25", lambda K: ops.timeout(25, None, K.sched), "time", VA, CS)
    add("timeout:15:other", lambda K: ops.timeout(15, K.src("x", X_two(K)), K.sched), "time", "multi", VA, CS, "core")
    add("timeout_with_mapper", lambda K: ops.timeout_with_mapper(K.timer("ft", 15), K.p("duration.d", lambda x, K=K: K.timer("d", 15)), K.src("x", X_two(K))), "time", VA, CS)
    add("take_with_time:25", lambda K: ops.take_with_time(25, K.sched), "time", VA, CS, "early")
    add("skip_with_time:15", lambda K: ops.skip_with_time(15, K.sched), "time", VA, CS)
    add("take_until_with_time:25", lambda K: ops.take_until_with_time(25, K.sched), "time", VA, CS, "early")
    add("skip_until_with_time:15", lambda K: ops.skip_until_with_time(15, K.sched), "time", VA, CS)
    add("take_last_with_time:15", lambda K: ops.take_last_with_time(15, K.sched), "time", VA, CS)
    add("skip_last_with_time:15", lambda K: ops.skip_last_with_time(15, K.sched), "time", VA, CS)
    # ---------------- windows / buffers / groups
    add("buffer:x", lambda K: ops.buffer(K.src("x", X_two(K))), "window", "multi", VA, CS)
    add("buffer_when", lambda K: ops.buffer_when(K.p("closing.c", lambda K=K: K.timer("c", 25))), "window", VA, CS)
    add("buffer_toggle", lambda K: ops.buffer_toggle(K.src("o", X_two(K)), K.p("closing.c", lambda v, K=K: K.timer("c", 15))), "window", VA, CS)
    add("buffer_with_count:2", lambda K: ops.buffer_with_count(2), "window", VA, CS, "core")
    add("buffer_with_count:2:1", lambda K: ops.buffer_with_count(2, 1), "window", VA, CS)
    add("buffer_with_time:15", lambda K: ops.buffer_with_time(15, None, K.sched), "window", "time", VA, CS)
    add("buffer_with_time:15:10", lambda K: ops.buffer_with_time(15, 10, K.sched), "window", "time", VA, CS)
    add("buffer_with_time_or_count:25:2", lambda K: ops.buffer_with_time_or_count(25, 2, K.sched), "window", "time", VA, CS)
    add("window:x", lambda K: ops.window(K.src("x", X_two(K))), "window", "inner", "multi", VA, CS)
    add("window_when", lambda K: ops.window_when(K.p("closing.c", lambda K=K: K.timer("c", 25))), "window", "inner", VA, CS)
    add("window_toggle", lambda K: ops.window_toggle(K.src("o", X_two(K)), K.p("closing.c", lambda v, K=K: K.timer("c", 15))), "window", "inner", VA, CS)
    add("window_with_count:2", lambda K: ops.window_with_count(2), "window", "inner", VA, CS)
    add("window_with_count:2:1", lambda K: ops.window_with_count(2, 1), "window", "inner", VA, CS)
    add("window_with_count:2+merge_all", lambda K: compose(ops.window_with_count(2), ops.merge_all()), "window", VA, CS, "core")
    add("window_with_time:15", lambda K: ops.window_with_time(15, None, K.sched), "window", "inner", "time", VA, CS)
    add("window_with_time:15:10", lambda K: ops.window_with_time(15, 10, K.sched), "window", "inner", "time", VA, CS)
    add("window_with_time_or_count:25:2", lambda K: ops.window_with_time_or_count(25, 2, K.sched), "window", "inner", "time", VA, CS)
    add("group_by:key", lambda K: ops.group_by(K.p("key.k", lambda x: K.u(x) % 2)), "window", "inner", VA, CS)
    add("group_by:key:elem", lambda K: ops.group_by(K.p("key.k", lambda x: K.u(x) % 2), K.p("mapper.e", lambda x: [x])), "window", "inner", VA, CS)
    add("group_by+merge_all", lambda K: compose(ops.group_by(K.p("key.k", lambda x: K.u(x) % 2)), ops.merge_all()), "window", VA, CS, "core")
    add("group_by_until", lambda K: ops.group_by_until(K.p("key.k", lambda x: K.u(x) % 2), None, K.p("duration.d", lambda g, K=K: K.timer("d", 15))), "window", "inner", VA, CS)
    add("partition:merge", lambda K: (lambda s: reactivex.merge(*s.pipe(ops.partition(K.p("predicate.p", lambda x: K.u(x) == 1))))), "window", VA, CS)
    add("partition_indexed:merge", lambda K: (lambda s: reactivex.merge(*s.pipe(ops.partition_indexed(K.p("predicate.p", lambda x, i: i % 2 == 0))))), "window", VA, CS)
    # ---------------- multicast
    add("share", lambda K: ops.share(), "multicast", VA, "core")
    add("publish+ref_count", lambda K: compose(ops.publish(), ops.ref_count()), "multicast", VA)
    add("publish:mapper", lambda K: ops.publish(K.p("mapper.m", lambda o: o.pipe(ops.map(lambda x: [x])))), "multicast", VA, CS)
    add("replay:2+ref_count", lambda K: compose(ops.replay(buffer_size=2, scheduler=K.sched), ops.ref_count()), "multicast", VA)
    add("replay:mapper", lambda K: ops.replay(buffer_size=1, mapper=K.p("mapper.m", lambda o: o.pipe(ops.map(lambda x: [x]))), scheduler=K.sched), "multicast", VA, CS)
    add("publish_value:C+ref_count", lambda K: compose(ops.publish_value(K.C), ops.ref_count()), "multicast", VA)
    add("multicast:factory:mapper", lambda K: ops.multicast(subject_factory=K.p("factory.sf", lambda sch=None: Subject()), mapper=K.p("mapper.m", lambda o: o.pipe(ops.map(lambda x: [x])))), "multicast", VA, CS)
    # ---------------- utility / control
    add("do_action", lambda K: ops.do_action(K.p("action.n", lambda x: None), K.p("action.e", lambda e: None), K.p("action.c", lambda: None)), "utility", VA, CS)
    add("finally_action", lambda K: ops.finally_action(K.p("action.f", lambda: None)), "utility", VA, CS)
    add("observe_on", lambda K: ops.observe_on(K.sched), "utility", VA, CS, "core")
    add("subscribe_on", lambda K: ops.subscribe_on(K.sched), "utility", VA, CS)
    add("repeat:2", lambda K: ops.repeat(2), "utility", VA, CS, "core")
    add("retry:2", lambda K: ops.retry(2), "utility", VA, CS, "core")
    add("while_do", lambda K: ops.while_do(K.p("condition.c", lambda s, n=[0]: _inc(n) < 2)), "utility", VA, CS)
    add("do_while", lambda K: ops.do_while(K.p("condition.c", lambda s, n=[0]: _inc(n) < 1)), "utility", VA, CS)
    add("to_marbles", lambda K: ops.to_marbles(10, K.sched), "utility", CS, "stringify")
    return E


def _inc(box):
    box[0] += 1
    return box[0] - 1


_CAT: list[Entry] | None = None


def catalogue() -> list[Entry]:
    global _CAT
    if _CAT is None:
        _CAT = build_catalogue()
    return _CAT


def by_id() -> dict[str, Entry]:
    return {e.id: e for e in catalogue()}


# --------------------------------------------------------------------------- structural timelines

def TLS(A=1, B=2, C=3):
    """Structural timeline set for pipeline-level oracles (relative times)."""
    return {
        "empty-C": [(10, "C", None)],
        "empty-E": [(10, "E", "E")],
        "never": [],
        "a-C": [(10, "N", A), (20, "C", None)],
        "a-E": [(10, "N", A), (20, "E", "E")],
        "ab-C": [(10, "N", A), (20, "N", B), (30, "C", None)],
        "aba-C": [(10, "N", A), (20, "N", B), (30, "N", A), (40, "C", None)],
        "abc-E": [(10, "N", A), (20, "N", B), (30, "N", C), (40, "E", "E")],
        "abc-never": [(10, "N", A), (20, "N", B), (30, "N", C)],
        "burst-ab-C": [(10, "N", A), (10, "N", B), (20, "C", None)],
        "C-with-last": [(10, "N", A), (20, "N", B), (20, "C", None)],
        # first element delivered synchronously inside subscribe() (cold sources only; used by C01)
        "coldsync:a.b-C": [(None, "N", A), (10, "N", B), (20, "C", None)],
        # non-conforming (rogue sources only)
        "rogue:a-C-b": [(10, "N", A), (20, "C", None), (30, "N", B)],
        "rogue:a-E-b-C": [(10, "N", A), (20, "E", "E"), (30, "N", B), (40, "C", None)],
        "rogue:a-C-C": [(10, "N", A), (20, "C", None), (30, "C", None)],
    }


# --------------------------------------------------------------------------- running one case

class Result:
    pass


def run_case(stages: list[str], source_kind: str, timeline, *, arm=None, rec_fault=None, inner_policy: str = "sub",
             dispose: tuple | None = None, alphabet=(1, 2, 3), unrename=None, budget: int = 20000, subscribes=((vt.SUB,),),
             pass_scheduler: bool = True, horizon: float = vt.HORIZON, shared_ops=None, reenter: tuple | None = None) -> Result:
    """Execute one pipeline case on a fresh Env.

    stages: catalogue ids applied left to right.  source_kind: cold|hot|rogue.
    timeline: relative [(t, kind, value)] of the main source.
    arm: (slot, k) probe fault; rec_fault: (kind, k) fault raised by the outer subscriber itself.
    inner_policy: how observables handed to the subscriber are treated: 'sub' subscribe at once,
      'sub1' subscribe and unsubscribe after the first element, 'none' never subscribe.
    dispose: None | ('at', t, 'first'|'last') | ('in_on_next', k) | ('after_subscribe',)
    subscribes: tuple of (time,) — the *same observable object* is subscribed at each time (C04).
    reenter: (callback kind 'N'|'E'|'C', k, emit kind) — from inside the subscriber's k-th callback of that kind the (hot,
      still live) main source synchronously emits one more notification (re-entrancy from user code).
    """
    from reactivex import Observable

    cat = by_id()
    env = vt.Env(budget=budget, arm=arm)
    R = Result()
    R.env = env
    R.kits = []
    R.inner = []
    R.outers = []
    R.reentered = False
    first_sub = min(s[0] for s in subscribes)

    def build():
        tl = timeline
        if source_kind == "hot":
            src = env.hot("main", [(first_sub + t, k, v) for (t, k, v) in tl])
        elif source_kind == "rogue":
            src = env.rogue("main", tl)
        else:
            src = env.cold("main", tl)
        R.main = src
        obs = src
        for si, sid in enumerate(stages):
            K = Kit(env, source_kind, alphabet, unrename, si, first_sub)
            R.kits.append(K)
            op = shared_ops[si] if shared_ops is not None else cat[sid].build(K)
            obs = op(obs)
        return obs

    # dispose 'first in t' must be scheduled before the sources exist
    pending_dispose = []
    if dispose is not None and dispose[0] == "at" and dispose[2] == "first":
        env.at(dispose[1], lambda: [f() for f in pending_dispose])

    holder = {}

    def get_obs():
        if "o" not in holder:
            holder["o"] = build()
        return holder["o"]

    if source_kind == "hot":
        get_obs()  # hot sources schedule their messages at construction

    for (st,) in subscribes:
        rec = env.recorder(f"out@{st:g}", fault=rec_fault)
        R.outers.append(rec)

        def hook(value, k, rec=rec):
            if isinstance(value, Observable) and inner_policy != "none":
                ir = env.recorder(f"{rec.name}.inner{len(R.inner)}")
                R.inner.append(ir)
                if inner_policy == "sub1":
                    ir.on_next_hook = lambda v, kk, ir=ir: ir.dispose() if kk == 1 else None
                ir.subscription = value.subscribe(ir, scheduler=env.sched)
            elif isinstance(value, Observable):
                R.inner.append(None)
            if dispose is not None and dispose[0] == "in_on_next" and k == dispose[1]:
                rec.dispose()

        rec.on_next_hook = hook
        if reenter is not None and source_kind == "hot":
            fired = [False]

            def poke(kind, fired=fired):
                if not fired[0]:
                    fired[0] = True
                    R.reentered = True
                    R.main.emit_now(reenter[2], "RE" if reenter[2] == "N" else ("RE" if reenter[2] == "E" else None))

            if reenter[0] == "N":
                prev = rec.on_next_hook

                def hook2(value, k, prev=prev, poke=poke):
                    prev(value, k)
                    if k == reenter[1]:
                        poke("N")

                rec.on_next_hook = hook2
            else:
                rec.on_term_hook = lambda kind, poke=poke: poke(kind) if kind == reenter[0] else None

        def go(rec=rec):
            rec.subscription = get_obs().subscribe(rec, scheduler=env.sched if pass_scheduler else None)
            if dispose is not None and dispose[0] == "after_subscribe":
                rec.dispose()
            if dispose is not None and dispose[0] == "at" and dispose[2] == "last":
                env.at(dispose[1], rec.dispose)  # queued right after the subscription's own actions

        env.at(st, go)
        pending_dispose.append(rec.dispose)
    R.status = env.run(horizon)
    R.rec = R.outers[0]
    return R
