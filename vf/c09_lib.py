"""Helpers of the C09 check (callback exceptions become on_error).

* SubjectDriven: a real reactivex Subject fed by harness actions scheduled on the virtual scheduler; every
  subject.on_next/on_error/on_completed call is wrapped in try/except that records what propagates to the
  emitter (`.caught`).  Subscriptions are logged like LoggedHot's (env.sublog).
* extra entries (not in the shared catalogue): source factories whose user callbacks run at subscribe time or
  on the scheduler (defer, using, case, if_then, on_error_resume_next with a factory source, generate,
  generate_with_relative_time, for_in) and operator parameterisations whose callbacks the catalogue does not
  probe (comparers of min/min_by/max_by/sequence_equal(obs), predicates of single/first_or_default/..., the
  subject factory of group_by, mappers of publish_value, starmap_indexed, ...).
* run(): executes one case on a fresh Env (the shared catalogue.run_case knows only hot/cold/rogue sources).
"""
from __future__ import annotations

from typing import Any, Callable

from . import catalogue as cat
from . import vt


class SubjectDriven(vt._LoggedBase):
    """Hot source backed by a real Subject.  `timeline` [(abs_time, kind, value)] is scheduled at construction;
    the harness action is the emitter: whatever subject.on_xxx raises is recorded in `.caught`."""

    def __init__(self, env: vt.Env, name: str, timeline: list):
        from reactivex.subject import Subject

        super().__init__(env, name)
        self.subject = Subject()
        self.timeline = [tuple(x) for x in timeline]
        self.caught: list[tuple[float, BaseException]] = []
        self.errors: dict[Any, vt.SrcError] = {}
        for (t, kind, value) in self.timeline:
            self.sched.schedule_absolute(t, self._mk(kind, value))

    def _mk(self, kind, value):
        from reactivex.disposable import Disposable

        def action(_s, _st=None):
            v = value
            if kind == "E" and not isinstance(value, BaseException):
                v = self.errors.setdefault(value, vt.SrcError((self.name, value)))
            try:
                if kind == "N":
                    self.subject.on_next(v)
                elif kind == "E":
                    self.subject.on_error(v)
                else:
                    self.subject.on_completed()
            except Exception as e:  # propagated into the emitter
                self.caught.append((self.sched._clock, e))
            return Disposable()

        return action

    def _subscribe_core(self, observer, scheduler=None):
        from reactivex.disposable import Disposable

        s = self._open()
        inner = self.subject.subscribe(observer, scheduler=scheduler)

        def dispose():
            self._close(s)
            inner.dispose()

        return Disposable(dispose)


class SyncCold(vt.LoggedCold):
    """Cold source that delivers its whole timeline synchronously inside subscribe (like of()/from_iterable on an
    immediate scheduler).  If an observer raises out of that loop the exception leaves subscribe() - the library's
    Observable.subscribe routes it to on_error - and this source, having nothing left to cancel, closes its log entry."""

    def __init__(self, env: vt.Env, name: str, timeline: list):
        super().__init__(env, name, [(None, k, v) for (_t, k, v) in timeline])

    def _subscribe_core(self, observer, scheduler=None):
        n = len(self.subs)
        try:
            return super()._subscribe_core(observer, scheduler)
        except Exception:
            if len(self.subs) > n:
                self._close(self.subs[n])
            raise


class Kit(cat.Kit):
    """catalogue.Kit that also knows the 'subj' source kind and the main source of root entries."""

    def __init__(self, env, source_kind, alphabet, unrename, stage, sub, main_tl=None):
        super().__init__(env, source_kind, alphabet, unrename, stage, sub)
        self.main_tl = main_tl

    def src(self, name: str, tl, kind: str | None = None):
        kind = kind or self.source_kind
        if kind == "sync":  # only the main source is synchronous; extra sources stay asynchronous
            kind = "cold"
        if kind == "subj":
            nm = f"s{self.stage}.{name}"
            s = SubjectDriven(self.env, nm, [(self.sub + t, k, v) for (t, k, v) in tl])
            self.env.sources[nm] = s
            self.extra.append(s)
            return s
        return super().src(name, tl, kind)


def make_source(env, kind: str, name: str, tl, sub: float):
    if kind == "hot":
        return env.hot(name, [(sub + t, k, v) for (t, k, v) in tl])
    if kind == "subj":
        s = SubjectDriven(env, name, [(sub + t, k, v) for (t, k, v) in tl])
        env.sources[name] = s
        return s
    if kind == "sync":
        s = SyncCold(env, name, tl)
        env.sources[name] = s
        return s
    return env.cold(name, tl)


# --------------------------------------------------------------------------- extra entries
# Root entries build an observable from the main source `m` (already constructed: hot sources schedule at
# construction).  Operator entries have the catalogue's shape.

def build_roots() -> dict[str, Callable]:
    import reactivex
    from reactivex import operators as ops
    from reactivex.disposable import Disposable

    R: dict[str, Callable] = {}

    R["defer"] = lambda K, m: reactivex.defer(K.p("factory.f", lambda sch: m))
    R["using"] = lambda K, m: reactivex.using(K.p("factory.r", lambda: Disposable()), K.p("factory.o", lambda r: m))
    R["case"] = lambda K, m: reactivex.case(K.p("mapper.m", lambda: "k"), {"k": m}, K.src("dflt", cat.X_empty(K)))
    R["if_then"] = lambda K, m: reactivex.if_then(K.p("condition.c", lambda: True), m, K.src("else", cat.X_empty(K)))
    R["if_then:else"] = lambda K, m: reactivex.if_then(K.p("condition.c", lambda: False), K.src("then", cat.X_empty(K)), m)
    # on_error_resume_next with factory (callable) sources: first a plain source, then factories
    R["on_error_resume_next:factory"] = lambda K, m: reactivex.on_error_resume_next(
        m, K.p("factory.f", lambda e, x=K.src("x", cat.X_two(K)): x)
    )
    R["on_error_resume_next:factory:first"] = lambda K, m: reactivex.on_error_resume_next(
        K.p("factory.f", lambda e: m), K.src("x", cat.X_two(K))
    )
    R["catch:handler:root"] = lambda K, m: m.pipe(ops.catch(K.p("handler.h", lambda e, s, x=K.src("x", cat.X_two(K)): x)))
    R["generate"] = lambda K, m: reactivex.generate(0, K.p("condition.c", lambda s: s < 3), K.p("mapper.i", lambda s: s + 1))
    R["generate_with_relative_time"] = lambda K, m: reactivex.generate_with_relative_time(
        0, K.p("condition.c", lambda s: s < 3), K.p("mapper.i", lambda s: s + 1), K.p("mapper.t", lambda s: 10)
    )
    # a zero delay is a legitimate RelativeTime (DESIGN.md section 7 #11: `assert time` rejects it inside the scheduled action)
    R["generate_with_relative_time:zero"] = lambda K, m: reactivex.generate_with_relative_time(
        0, K.p("condition.c", lambda s: s < 3), K.p("mapper.i", lambda s: s + 1), K.p("mapper.t", lambda s: 0 if s == 1 else 10)
    )

    def _from_callback(K, m):
        class Emitter:
            pass

        em = Emitter()
        em.caught = []
        K.env.sources[f"s{K.stage}.cb"] = em

        def func(cb):
            def fire():
                try:
                    cb(K.A, K.B)
                except Exception as e:  # propagated into whoever invoked the callback
                    em.caught.append((K.sched._clock, e))

            K.env.at(K.sub + 10, fire)

        return reactivex.from_callback(func, K.p("mapper.m", lambda args: list(args)))()

    R["from_callback:mapper"] = _from_callback
    R["for_in"] = lambda K, m: reactivex.for_in([1, 2], K.p("mapper.f", lambda v, xs=[m, K.src("x", cat.X_two(K))]: xs[v - 1]))
    return R


# which root entries use the main source (the others are run once, source kind 'cold', timeline 'none')
ROOT_NO_MAIN = {"generate", "generate_with_relative_time", "generate_with_relative_time:zero", "from_callback:mapper"}


def build_extra_ops() -> list[cat.Entry]:
    """Operator parameterisations with callback slots the shared catalogue does not probe."""
    import reactivex
    from reactivex import operators as ops
    from reactivex.subject import Subject

    E: list[cat.Entry] = []

    def add(id, build, *flags):
        E.append(cat.Entry("x:" + id, build, flags))

    cmp3 = lambda K: (lambda a, b: (K.u(a) > K.u(b)) - (K.u(a) < K.u(b)))
    add("min:cmp", lambda K: ops.min(K.p("comparer.c", cmp3(K))))
    add("min_by:key:cmp", lambda K: ops.min_by(K.p("key.k", lambda x: K.u(x) % 2), K.p("comparer.c", cmp3(K))))
    add("max_by:key:cmp", lambda K: ops.max_by(K.p("key.k", lambda x: K.u(x) % 2), K.p("comparer.c", cmp3(K))))
    add("sequence_equal:obs:cmp", lambda K: ops.sequence_equal(
        K.src("x", [(15, "N", K.A), (25, "N", K.B), (45, "C", None)]), K.p("comparer.c", lambda a, b: K.u(a) == K.u(b))))
    add("single:eqB", lambda K: ops.single(K.p("predicate.p", lambda x: K.u(x) == 2)))
    add("single_or_default:eqB", lambda K: ops.single_or_default(K.p("predicate.p", lambda x: K.u(x) == 2), K.C))
    add("first_or_default:eqB", lambda K: ops.first_or_default(K.p("predicate.p", lambda x: K.u(x) == 2), K.C))
    add("last_or_default:eqA", lambda K: ops.last_or_default(K.C, K.p("predicate.p", lambda x: K.u(x) == 1)))
    add("skip_while:T", lambda K: ops.skip_while(K.p("predicate.p", lambda x: True)))
    add("starmap_indexed", lambda K: cat_compose(ops.map(lambda x: (x, x)), ops.starmap_indexed(K.p("mapper.f", lambda a, b, i: [a, b, i]))))
    add("switch_map_indexed", lambda K: ops.switch_map_indexed(K.p("mapper.f", lambda x, i, inner=K.src("i", cat.X_two(K)): inner)))
    add("to_dict:key:elem", lambda K: ops.to_dict(K.p("key.k", lambda x: K.u(x)), K.p("mapper.e", lambda x: [x])))
    add("group_by:key:elem:subject", lambda K: ops.group_by(
        K.p("key.k", lambda x: K.u(x) % 2), K.p("mapper.e", lambda x: [x]), K.p("factory.sm", lambda: Subject())), "inner")
    add("group_by_until:key:elem:subject", lambda K: ops.group_by_until(
        K.p("key.k", lambda x: K.u(x) % 2), K.p("mapper.e", lambda x: [x]), K.p("duration.d", lambda g, K=K: K.timer("d", 15)),
        K.p("factory.sm", lambda: Subject())), "inner")
    add("publish_value:mapper", lambda K: ops.publish_value(K.C, K.p("mapper.m", lambda o: o.pipe(ops.map(lambda x: [x])))))
    add("timeout_with_mapper:nofirst", lambda K: ops.timeout_with_mapper(
        None, K.p("duration.d", lambda x, K=K: K.timer("d", 15)), K.src("x", cat.X_two(K))))
    add("expand:2", lambda K: cat_compose(ops.expand(K.p("mapper.f", lambda x, K=K, n=[0]: K.src("i%d" % cat._inc(n), [(5, "N", "leaf"), (5, "C", None)], "cold") if x != "leaf" else K.src("e%d" % cat._inc(n), cat.X_empty(K), "cold"))), ops.take(6)))
    add("reduce:seed0", lambda K: ops.reduce(K.p("accumulator.a", lambda acc, x: acc + 1), 0))
    return E


def cat_compose(*fs):
    from reactivex import compose as c

    return c(*fs)


_EXTRA: dict[str, cat.Entry] | None = None
_ROOTS: dict[str, Callable] | None = None


def extra_ops() -> dict[str, cat.Entry]:
    global _EXTRA
    if _EXTRA is None:
        _EXTRA = {e.id: e for e in build_extra_ops()}
    return _EXTRA


def roots() -> dict[str, Callable]:
    global _ROOTS
    if _ROOTS is None:
        _ROOTS = build_roots()
    return _ROOTS


def entry(sid: str) -> cat.Entry:
    e = cat.by_id().get(sid) or extra_ops().get(sid)
    if e is None:
        raise KeyError(sid)
    return e


# --------------------------------------------------------------------------- running one case

class Result:
    pass


def run(stages, source_kind: str, timeline, *, root: str | None = None, arm=None, alphabet=(1, 2, 3), unrename=None,
        sub: float = vt.SUB, horizon_rel: float = 1800, budget: int = 20000) -> Result:
    """One execution on a fresh Env: main source of `source_kind` (hot | subj | cold) playing `timeline` (relative
    to the subscription instant `sub`), optional root entry, then the operator stages left to right; a single outer
    recorder subscribed at `sub`; every observable handed to it is subscribed at once by an inner recorder."""
    from reactivex import Observable

    env = vt.Env(budget=budget, arm=arm)
    R = Result()
    R.env, R.kits, R.inner = env, [], []
    main = make_source(env, source_kind, "main", timeline, sub)
    R.main = main
    obs = main
    si = 0
    if root is not None:
        K = Kit(env, source_kind, alphabet, unrename, si, sub, timeline)
        R.kits.append(K)
        obs = roots()[root](K, main)
        si += 1
    for sid in stages:
        K = Kit(env, source_kind, alphabet, unrename, si, sub, timeline)
        R.kits.append(K)
        obs = entry(sid).build(K)(obs)
        si += 1
    rec = env.recorder("out")
    R.rec = rec

    def hook(value, k):
        if isinstance(value, Observable):
            ir = env.recorder(f"out.inner{len(R.inner)}")
            R.inner.append(ir)
            ir.subscription = value.subscribe(ir, scheduler=env.sched)

    rec.on_next_hook = hook

    def go():
        rec.subscription = obs.subscribe(rec, scheduler=env.sched)

    env.at(sub, go)
    R.status = env.run(sub + horizon_rel)
    return R


def emitter_catches(R) -> list:
    """(source name, time, exception) of everything that propagated into an emitter."""
    out = []
    for name, s in R.env.sources.items():
        for (t, e) in getattr(s, "caught", ()):
            out.append((name, t, e))
    return out
