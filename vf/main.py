"""./check entry point."""
from __future__ import annotations

import argparse
import importlib
import json
import os
import sys

from . import core

# per-tier wall budgets (seconds); a tier that runs out reports exhaustive=false
BUDGET = {"quick": 150.0, "thorough": 1500.0}


def main(argv=None) -> int:
    ap = argparse.ArgumentParser()
    ap.add_argument("prop")
    ap.add_argument("--tier", default=os.environ.get("VERIF_TIER", "quick"), choices=["quick", "thorough"])
    ap.add_argument("--replay")
    ap.add_argument("--workers", type=int, default=int(os.environ.get("VERIF_WORKERS", "0")) or min(16, os.cpu_count() or 1))
    ap.add_argument("--budget-s", type=float, default=None)
    a = ap.parse_args(argv)
    seed = int(os.environ.get("VERIF_SEED", "0") or 0)
    prop = a.prop.upper()
    core.bind_repo()  # before any check module (they import reactivex through vf.vt)
    mod = importlib.import_module(f"vf.checks.{prop.lower()}")
    if a.replay:
        rec = json.load(open(a.replay))
        vs = mod.replay(rec["case"])
        for v in vs:
            print("REPRODUCED signature=%s\n  what: %s\n  detail: %s" % (v["signature"], v["what"], json.dumps(v.get("detail"))[:2000]))
        if not vs:
            print("not reproduced: the recorded case passes on this tree")
        return 1 if vs else 0
    budget = a.budget_s if a.budget_s is not None else getattr(mod, "BUDGET", BUDGET)[a.tier]
    ctx = core.Ctx(prop, a.tier, seed, a.workers, budget, mod.LEVEL, mod.RULE)
    mod.run(ctx)
    return core.finish(ctx)


if __name__ == "__main__":
    sys.exit(main())
