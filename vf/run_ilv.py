"""E3 part of C41: the blocking bridge `run()` with its producer on another (controlled) thread.

Managed thread A calls `reactivex.run(source)` / `source.run()` with the default scheduler
(NewThreadScheduler -> a controlled thread emits the sequence) or with an explicit
NewThreadScheduler, and blocks on run()'s latch (a controlled Event).  Every interleaving of
the producer's notifications with the caller's wake-up up to the preemption bound, with
line-level scheduling points in reactivex/run.py.  Oracle (the statement itself): run()
returns the last element, raises the sequence's error, or raises
SequenceContainsNoElementsError for an empty sequence - in *every* schedule.

A second family drives run() from a Subject: thread A blocks in run(subject) with the
ImmediateScheduler while thread B pushes the notifications (after A is subscribed).
"""
from __future__ import annotations

from . import ilv, ilvrun


class Boom(Exception):
    pass


ERR = Boom("sequence error")

# name -> (values, terminal)
SEQS_Q = {"E": ((), "E"), "1E": ((1,), "E"), "C": ((), "C"), "1C": ((1,), "C"), "0,NoneC": ((0, None), "C")}
SEQS_T = dict(SEQS_Q, **{"1,2E": ((1, 2), "E"), "1,2,3C": ((1, 2, 3), "C"), "NoneE": ((None,), "E")})
MODES = ("default", "explicit", "method", "subject")


def expected(values, term):
    if term == "E":
        return ("raised", "Boom")
    if not values:
        return ("raised", "SequenceContainsNoElementsError")
    return ("returned", repr(values[-1]))


def make_source(values, term, real_ops=False):
    """One scheduled action that emits the whole sequence (the producer thread of the default scheduler).  With
    real_ops the library's own throw / empty / from_iterable are used where they can express the sequence."""
    import reactivex

    if real_ops and not values:
        return reactivex.throw(ERR) if term == "E" else reactivex.empty()
    if real_ops and term == "C":
        return reactivex.from_iterable(list(values))

    def subscribe(observer, scheduler=None):
        def action(_s, _st=None):
            for v in values:
                observer.on_next(v)
            observer.on_error(ERR) if term == "E" else observer.on_completed()

        return scheduler.schedule(action)

    return reactivex.create(subscribe)


class H:
    allow_thread_errors = False

    def __init__(self, mode, seqname, seq):
        self.mode, self.seqname, (self.values, self.term) = mode, seqname, seq
        self.name = f"run-blocking|{mode}|{seqname}"
        self.sig = "run-blocking"
        self.focus = ilv.focus_files("run.py")
        self.want = expected(self.values, self.term)

    def setup(self, run):
        return {"res": [], "subscribed": ilv.CEvent()}

    def bodies(self, st):
        import reactivex
        from reactivex.run import run as rx_run  # (the package attribute of the same name may be the submodule)
        from reactivex.scheduler import ImmediateScheduler, NewThreadScheduler
        from reactivex.subject import Subject

        subject = Subject()

        def call():
            if self.mode == "default":
                return rx_run(make_source(self.values, self.term))
            if self.mode == "explicit":
                return rx_run(make_source(self.values, self.term), NewThreadScheduler())
            if self.mode == "method":
                return make_source(self.values, self.term, real_ops=True).run()

            def sub(observer, scheduler=None):
                d = subject.subscribe(observer)
                st["subscribed"].set()
                return d

            return rx_run(reactivex.create(sub), ImmediateScheduler())

        def a():
            try:
                st["res"].append(("returned", repr(call())))
            except Exception as e:  # noqa: BLE001 - the outcome under test
                st["res"].append(("raised", type(e).__name__))

        def b():
            st["subscribed"].wait()
            for v in self.values:
                subject.on_next(v)
            subject.on_error(ERR) if self.term == "E" else subject.on_completed()

        return [a, b] if self.mode == "subject" else [a]

    def outcome(self, x):
        return tuple(x.state["res"])

    def nontrivial(self, x):
        return x.switches > 0

    def check(self, x):
        if x.outcome != "quiescent":
            return []
        got = tuple(x.state["res"])
        if got != (self.want,):
            return [(f"run|{self.mode}|{'error' if self.term == 'E' else 'values' if self.values else 'empty'}|wrong-outcome",
                     f"run() over {list(self.values)} then {'on_error(Boom)' if self.term == 'E' else 'on_completed'} produced on another thread: {list(got)}, expected {self.want}")]
        return []


def harnesses(tier):
    seqs = SEQS_Q if tier == "quick" else SEQS_T
    modes = [m for m in MODES if tier != "quick" or m != "explicit"]
    return [H(m, n, s) for m in modes for n, s in seqs.items()]


def PB_of(tier):
    return 2 if tier == "quick" else 3


def shard(part, shard_i, nshards, tier, seed, deadline):
    ilv.install()
    hs = harnesses(tier)
    for i, h in enumerate(hs):
        if (i + seed) % nshards == shard_i:
            ilvrun.explore_all(part, [h], 0, 1, PB_of(tier), 0, deadline, horizon=5.0)


def run_part(ctx):
    before = ctx.total.counters.get("executions", 0)
    hs = harnesses(ctx.tier)
    ctx.sharded(shard, nshards=len(hs), deadline=ctx.sub_deadline(0.5))
    ex = ctx.total.counters.get("executions", 0) - before
    ctx.cov["e3_run_blocking"] = {
        "schedules_explored": ex, "coarse_executions": ctx.total.counters.get("coarse_executions", 0),
        "schedule_points": ctx.total.counters.get("schedule_points", 0),
        "PB": PB_of(ctx.tier),
        "harnesses": [h.name for h in hs],
    }
    ctx.assumptions = list(ctx.assumptions) + [
        "E3 part (run() with the producer on a controlled thread): preemption at lock/event/thread operations and at line "
        "boundaries of reactivex/run.py; oracle = last element / the sequence's error / SequenceContainsNoElementsError in every schedule"
    ]


def replay(case):
    ilv.install()
    for tier in ("quick", "thorough"):
        for h in harnesses(tier):
            if h.name == case["harness"]:
                return ilvrun.replay_harness(h, case)
    return []
