"""E1 substrate: virtual-time execution of real reactivex pipelines.

Real operators run on `VScheduler`, a subclass of the library's own TestScheduler
that (a) counts executed actions against a budget (BaseException so that the
library's `except Exception` cannot swallow it), (b) records exceptions that
escape a scheduled action ("escaped into the scheduler") without aborting the run,
(c) provides a global step counter so order inside one virtual instant is decidable.

Sources are harness classes on top of reactivex.Observable so that the library's
own subscribe wrapper (AutoDetachObserver, trampoline) is in play.
"""
from __future__ import annotations

import itertools
from typing import Any, Callable

from reactivex import Observable, abc
from reactivex.disposable import CompositeDisposable, Disposable
from reactivex.testing import TestScheduler

SUB = 200  # default subscription instant
HORIZON = 2000  # default horizon dispose


class BudgetExceeded(BaseException):
    pass


class Injected(Exception):
    def __init__(self, slot: str, k: int):
        super().__init__(f"injected@{slot}#{k}")
        self.slot, self.k = slot, k


_SPECIAL: dict = {}


def injected_of(kind: str, slot: str, k: int) -> BaseException:
    """An injected exception of a builtin class that library code might treat specially (StopIteration, KeyError, ...):
    user callbacks can raise anything; whatever it is must reach the subscriber as on_error."""
    import builtins

    if kind not in _SPECIAL:
        base = getattr(builtins, kind)
        _SPECIAL[kind] = type(f"Injected{kind}", (base,), {})
    ex = _SPECIAL[kind](f"injected@{slot}#{k}")
    ex.slot, ex.k = slot, k
    return ex


class SrcError(Exception):
    """Error notification carried by a harness source timeline."""

    def __init__(self, tag: Any = "E"):
        super().__init__(f"src-error:{tag}")
        self.tag = tag


class VScheduler(TestScheduler):
    def __init__(self, budget: int = 20000) -> None:
        super().__init__()
        self.step = 0
        self.actions = 0
        self.budget = budget
        self.escaped: list[tuple[float, BaseException]] = []

    def tick(self) -> int:
        self.step += 1
        return self.step

    @property
    def t(self) -> float:
        return self._clock

    def schedule_absolute(self, duetime, action, state=None):  # type: ignore[override]
        sched = self

        def guarded(s, st=None):
            sched.actions += 1
            if sched.actions > sched.budget:
                raise BudgetExceeded()
            try:
                return action(s, st)
            except Exception as e:  # recorded: "escaped into the scheduler"
                sched.escaped.append((sched._clock, e))
                return None

        return super().schedule_absolute(duetime, guarded, state)


# ----------------------------------------------------------------- recorder

class Recorder:
    """Subscriber that logs (step, time, kind, value); can be armed to raise."""

    def __init__(self, sched: VScheduler, name: str = "out", fault: tuple[str, int] | None = None, env: "Env | None" = None):
        self.sched, self.name, self.fault, self.env = sched, name, fault, env
        self.log: list[tuple[int, float, str, Any]] = []
        self.counts = {"N": 0, "E": 0, "C": 0}
        self.disposed_step: int | None = None
        self.disposed_time: float | None = None
        self.subscription: abc.DisposableBase | None = None
        self.on_next_hook: Callable[[Any, int], None] | None = None
        self.on_term_hook: Callable[[str], None] | None = None  # called from inside on_error / on_completed (re-entrancy)

    def _rec(self, kind: str, value: Any) -> None:
        self.log.append((self.sched.tick(), self.sched._clock, kind, value))
        self.counts[kind] += 1
        if self.fault is not None and self.fault[0] == kind and self.fault[1] == self.counts[kind]:
            ex = Injected(f"{self.name}.{kind}", self.counts[kind])
            if self.env is not None:
                self.env.injected.append(ex)
            raise ex

    def on_next(self, value: Any) -> None:
        self._rec("N", value)
        if self.on_next_hook is not None:
            self.on_next_hook(value, self.counts["N"])

    def on_error(self, error: Exception) -> None:
        self._rec("E", error)
        if self.on_term_hook is not None:
            self.on_term_hook("E")

    def on_completed(self) -> None:
        self._rec("C", None)
        if self.on_term_hook is not None:
            self.on_term_hook("C")

    def dispose(self) -> None:
        """Dispose the recorder's own subscription and remember when dispose() returned."""
        if self.subscription is None:
            return  # no handle yet (still inside subscribe()): nothing to dispose, nothing to claim
        self.subscription.dispose()
        if self.disposed_step is None:
            self.disposed_step = self.sched.tick()
            self.disposed_time = self.sched._clock

    # views
    def events(self) -> list[tuple[float, str, Any]]:
        return [(t, k, v) for (_, t, k, v) in self.log]

    def kinds(self) -> str:
        return "".join(k for (_, _, k, _) in self.log)

    def terminal(self):
        for e in self.log:
            if e[2] in "EC":
                return e
        return None

    def grammar_violation(self) -> str | None:
        """R1: on_next* (on_error|on_completed)?, nothing after terminal, nothing after own dispose returned."""
        seen_term = False
        for (step, t, k, v) in self.log:
            if seen_term:
                return f"{self.name}: {k} at t={t} after terminal; sequence={self.kinds()}"
            if self.disposed_step is not None and step > self.disposed_step:
                return f"{self.name}: {k} at t={t} step={step} after dispose() returned at step={self.disposed_step}"
            if k in "EC":
                seen_term = True
        return None


def norm_value(v: Any) -> Any:
    """R2: values compared by type and ==; exceptions by identity tag."""
    if isinstance(v, Injected):
        return ("Injected", v.slot, v.k, id(v))
    if isinstance(v, SrcError):
        return ("SrcError", v.tag)
    if isinstance(v, BaseException):
        return ("Exc", type(v).__name__, str(v))
    if isinstance(v, (list, tuple)):
        return (type(v).__name__, tuple(norm_value(i) for i in v))
    if isinstance(v, dict):
        return ("dict", tuple((norm_value(k), norm_value(x)) for k, x in v.items()))
    if isinstance(v, (set, frozenset)):
        return (type(v).__name__, tuple(sorted((norm_value(i) for i in v), key=repr)))
    if v is None or isinstance(v, (bool, int, float, str, bytes)):
        return (type(v).__name__, v)
    return ("obj", type(v).__name__, repr(v))


def norm_events(evs, rel: float = 0.0):
    return [(t - rel, k, norm_value(v)) for (t, k, v) in evs]


# ----------------------------------------------------------------- sources

class SubLog(dict):
    pass


class _LoggedBase(Observable):
    def __init__(self, env: "Env", name: str):
        super().__init__()
        self.env, self.sched, self.name = env, env.sched, name
        self.subs: list[SubLog] = []

    def _open(self) -> SubLog:
        s = SubLog(sub_step=self.sched.tick(), sub_time=self.sched._clock, unsub_step=None, unsub_time=None, source=self.name)
        self.subs.append(s)
        self.env.sublog.append(s)
        return s

    def _close(self, s: SubLog) -> None:
        if s["unsub_step"] is None:
            s["unsub_step"] = self.sched.tick()
            s["unsub_time"] = self.sched._clock


def _deliver(observer, kind: str, value: Any) -> None:
    if kind == "N":
        observer.on_next(value)
    elif kind == "E":
        observer.on_error(value)
    else:
        observer.on_completed()


class LoggedCold(_LoggedBase):
    """Cold source: replays `timeline` [(offset, kind, value)] relative to each subscription.
    offset None = delivered synchronously inside subscribe. Honours disposal. Each
    subscription gets its own error instances only if value is a callable."""

    def __init__(self, env: "Env", name: str, timeline: list):
        super().__init__(env, name)
        self.timeline = [tuple(x) for x in timeline]
        self.errors: dict[Any, SrcError] = {}

    def _val(self, kind, value):
        if kind == "E":
            if isinstance(value, BaseException):
                return value
            return self.errors.setdefault(value, SrcError((self.name, value)))
        return value

    def _subscribe_core(self, observer, scheduler=None):
        s = self._open()
        disp = CompositeDisposable()
        state = {"done": False}

        def mk(kind, value):
            def action(_s, _st=None):
                if s["unsub_step"] is None and not state["done"]:
                    if kind in "EC":
                        state["done"] = True
                    _deliver(observer, kind, self._val(kind, value))
                return Disposable()

            return action

        for (off, kind, value) in self.timeline:
            if off is not None:
                disp.add(self.sched.schedule_relative(off, mk(kind, value)))

        def dispose():
            self._close(s)
            disp.dispose()

        d = Disposable(dispose)
        for (off, kind, value) in self.timeline:
            if off is None:
                mk(kind, value)(None)
        return d


class LoggedHot(_LoggedBase):
    """Hot source: `timeline` [(abs_time, kind, value)] scheduled at construction.
    Its emitter catches and records what observers raise (the 'whoever emitted' of C09)."""

    def __init__(self, env: "Env", name: str, timeline: list):
        super().__init__(env, name)
        self.timeline = [tuple(x) for x in timeline]
        self.observers: list[tuple[Any, SubLog]] = []
        self.caught: list[tuple[float, BaseException]] = []
        self.done = False
        self.errors: dict[Any, SrcError] = {}
        for (t, kind, value) in self.timeline:
            self.sched.schedule_absolute(t, self._mk(kind, value))

    def _mk(self, kind, value):
        def action(_s, _st=None):
            if self.done:
                return Disposable()
            if kind in "EC":
                self.done = True
            v = value
            if kind == "E" and not isinstance(value, BaseException):
                v = self.errors.setdefault(value, SrcError((self.name, value)))
            for (o, s) in self.observers[:]:
                if s["unsub_step"] is None:
                    try:
                        _deliver(o, kind, v)
                    except Exception as e:
                        self.caught.append((self.sched._clock, e))
            return Disposable()

        return action

    def emit_now(self, kind: str, value: Any = None) -> None:
        """Synchronous extra emission of a live (not yet terminated) hot source, e.g. from inside a subscriber's callback."""
        self._mk(kind, value)(None)

    def _subscribe_core(self, observer, scheduler=None):
        s = self._open()
        entry = (observer, s)
        self.observers.append(entry)

        def dispose():
            self._close(s)
            if entry in self.observers:
                self.observers.remove(entry)

        return Disposable(dispose)


class Rogue(_LoggedBase):
    """Non-conforming cold source: ignores disposal and keeps delivering whatever its
    timeline says, including notifications after a terminal and second terminals."""

    def __init__(self, env: "Env", name: str, timeline: list):
        super().__init__(env, name)
        self.timeline = [tuple(x) for x in timeline]
        self.caught: list[tuple[float, BaseException]] = []

    def _subscribe_core(self, observer, scheduler=None):
        s = self._open()

        def mk(kind, value):
            def action(_s, _st=None):
                v = SrcError((self.name, value)) if kind == "E" else value
                try:
                    _deliver(observer, kind, v)
                except Exception as e:
                    self.caught.append((self.sched._clock, e))
                return Disposable()

            return action

        for (off, kind, value) in self.timeline:
            self.sched.schedule_relative(off, mk(kind, value))
        return Disposable(lambda: self._close(s))


# ----------------------------------------------------------------- probes / env

class Env:
    """One execution's world: scheduler, sources, probes, recorders."""

    def __init__(self, budget: int = 20000, arm: tuple[str, int] | None = None, sched: VScheduler | None = None):
        self.sched = sched or VScheduler(budget)
        self.sublog: list[SubLog] = []
        self.probe_log: list[tuple[int, float, str, int]] = []
        self.probe_counts: dict[str, int] = {}
        self.arm = arm
        self.injected: list[Injected] = []
        self.recorders: list[Recorder] = []
        self.sources: dict[str, Any] = {}

    def cold(self, name: str, timeline) -> LoggedCold:
        s = LoggedCold(self, name, timeline)
        self.sources[name] = s
        return s

    def hot(self, name: str, timeline) -> LoggedHot:
        s = LoggedHot(self, name, timeline)
        self.sources[name] = s
        return s

    def rogue(self, name: str, timeline) -> Rogue:
        s = Rogue(self, name, timeline)
        self.sources[name] = s
        return s

    def recorder(self, name: str = "out", fault=None) -> Recorder:
        r = Recorder(self.sched, name, fault, self)
        self.recorders.append(r)
        return r

    def probe(self, slot: str, fn: Callable) -> Callable:
        env = self

        def probe(*a, **kw):
            k = env.probe_counts.get(slot, 0) + 1
            env.probe_counts[slot] = k
            env.probe_log.append((env.sched.tick(), env.sched._clock, slot, k))
            if env.arm is not None and env.arm[0] == slot and env.arm[1] == k:
                ex = Injected(slot, k) if len(env.arm) < 3 or not env.arm[2] else injected_of(env.arm[2], slot, k)
                env.injected.append(ex)
                raise ex
            return fn(*a, **kw)

        probe.__name__ = f"probe_{slot}"
        return probe

    # running ------------------------------------------------------------
    def at(self, t: float, fn: Callable[[], None]) -> None:
        self.sched.schedule_absolute(t, lambda s, st=None: fn())

    def subscribe_at(self, t: float, build: Callable[[], Observable], rec: Recorder, pass_scheduler: bool = True) -> None:
        def go():
            obs = build() if callable(build) and not isinstance(build, Observable) else build
            rec.subscription = obs.subscribe(rec, scheduler=self.sched if pass_scheduler else None)

        self.at(t, go)

    def run(self, horizon: float = HORIZON) -> str:
        """Run to quiescence; every recorder still subscribed is disposed at the horizon."""

        def end():
            for r in self.recorders:
                if r.disposed_step is None:
                    try:
                        r.dispose()
                    except Exception as e:  # a raising finally/dispose callback must not keep the horizon from stopping the run
                        self.sched.escaped.append((self.sched._clock, e))
            # stop only after whatever the horizon disposal scheduled for this same instant
            # (e.g. subscribe_on's ScheduledDisposable) has run
            self.at(horizon, self.sched.stop)

        self.at(horizon, end)
        try:
            self.sched.start()
        except BudgetExceeded:
            return "budget"
        return "ok"

    def open_subs(self, at_step: int | None = None) -> list[SubLog]:
        return [s for s in self.sublog if s["unsub_step"] is None or (at_step is not None and s["unsub_step"] > at_step)]


# ----------------------------------------------------------------- timelines

def timelines(N: int, values: tuple, terminals=("C", "E"), t0: int = 10, dt: int = 10, bursts: bool = False, same_instant_terminal: bool = False):
    """All timelines of <= N on_next over `values` at slots t0, t0+dt, ... followed by a terminal
    (C, E, or None = never) one slot later; optionally also burst placement (all elements
    in one instant) and the terminal in the same instant as the last element."""
    for n in range(N + 1):
        for vals in itertools.product(values, repeat=n):
            placements = [[t0 + dt * i for i in range(n)]]
            if bursts and n >= 2:
                placements.append([t0] * n)
            for times in placements:
                last = times[-1] if n else 0
                for term in terminals:
                    tl = [(times[i], "N", vals[i]) for i in range(n)]
                    if term is None:
                        yield tl
                        continue
                    yield tl + [(last + dt, term, "E" if term == "E" else None)]
                    if same_instant_terminal and n:
                        yield tl + [(last, term, "E" if term == "E" else None)]


def shift(tl, d):
    return [(t + d, k, v) for (t, k, v) in tl]


def expected_from_timeline(tl, sub: float = SUB):
    """Events a conforming subscriber of a cold source sees (absolute times)."""
    out = []
    for (t, k, v) in tl:
        out.append(((sub if t is None else sub + t), k, v))
        if k in "EC":
            break
    return out
