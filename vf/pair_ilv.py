"""E3 part of C13: zip / fork_join / combine_latest / with_latest_from / amb with every source on its own thread.

Source i emits (i, 0), (i, 1), ... and terminates, serially, from its own controlled thread.
Every interleaving up to the preemption bound with line-level scheduling points in the
operator's file.  One global event list records the start of every source call and every
downstream notification, so the value-level pairing rules of C13 can be judged per schedule:

* zip: the k-th output is the tuple of the k-th elements (schedule independent); completion
  once a completed source has no buffered element left - i.e. never later than the moment
  all sources are done, and never while the rule does not hold; an error is delivered.
* fork_join: (last_0, ..., last_n) then completion when every source completed with a value;
  only completion when one completed empty; an error is delivered.
* combine_latest: every output is a tuple of values already emitted, component indices never
  go back, the last output is the tuple of the last values when nothing failed, one output per
  element once all sources have emitted.
* with_latest_from: outputs only for primary elements, in primary order, each paired with a
  value the other source had already emitted and not an older one than before.
* amb: the output mirrors exactly one source.
"""
from __future__ import annotations

import itertools

from . import ilv, ilvrun

FOCUS = {
    "zip": ["observable/zip.py"],
    "fork_join": ["observable/forkjoin.py"],
    "combine_latest": ["observable/combinelatest.py"],
    "with_latest_from": ["observable/withlatestfrom.py"],
    "amb": ["operators/_amb.py", "observable/amb.py"],
}


class Boom(Exception):
    pass


class H:
    allow_thread_errors = False

    def __init__(self, op, seqs):
        self.op, self.seqs = op, seqs
        self.name = f"pair-threads|{op}|" + "||".join("".join(s) for s in seqs)
        self.sig = "pair-threads"
        self.focus = ilv.focus_files(*FOCUS[op], "internal/concurrency.py")

    def setup(self, run):
        import reactivex
        from reactivex import operators as ops
        from reactivex.subject import Subject

        subs = [Subject() for _ in self.seqs]
        st = {"ev": [], "subs": subs}
        ev = st["ev"]
        op = self.op
        if op == "zip":
            o = reactivex.zip(*subs)
        elif op == "fork_join":
            o = reactivex.fork_join(*subs)
        elif op == "combine_latest":
            o = reactivex.combine_latest(*subs)
        elif op == "with_latest_from":
            o = subs[0].pipe(ops.with_latest_from(*subs[1:]))
        else:
            o = reactivex.amb(*subs)
        st["d"] = o.subscribe(lambda v: ev.append(("out", "N", v)), lambda e: ev.append(("out", "E", str(e))), lambda: ev.append(("out", "C", None)))
        return st

    def bodies(self, st):
        ev = st["ev"]

        def mk(i, seq):
            def body():
                s = st["subs"][i]
                for j, k in enumerate(seq):
                    ev.append(("call", i, k, j))
                    if k == "N":
                        s.on_next((i, j))
                    elif k == "C":
                        s.on_completed()
                    else:
                        s.on_error(Boom(f"src{i}"))
                    ev.append(("ret", i, k, j))

            return body

        return [mk(i, s) for i, s in enumerate(self.seqs)]

    def outcome(self, x):
        return tuple(e[1:] for e in x.state["ev"] if e[0] == "out")

    def nontrivial(self, x):
        return x.switches > 0

    def check(self, x):
        if x.outcome != "quiescent":
            return []
        ev = x.state["ev"]
        out = [e[1:] for e in ev if e[0] == "out"]
        shown = [o[1] if o[0] == "N" else o[0] for o in out]
        op, P = self.op, []
        n = len(self.seqs)
        terms = [i for i, o in enumerate(out) if o[0] != "N"]
        if terms and terms[0] != len(out) - 1:
            P.append((f"{op}|threads|grammar", f"downstream received {shown}"))
        vals = [o[1] for o in out if o[0] == "N"]
        emitted = [[(i, j) for j, k in enumerate(s) if k == "N"] for i, s in enumerate(self.seqs)]
        any_err = any(s[-1] == "E" for s in self.seqs)
        ended = out[-1][0] if terms else None
        # which source calls had started before each downstream notification
        started = []
        seen = set()
        for e in ev:
            if e[0] == "call":
                seen.add(e[1:])
            elif e[0] == "out":
                started.append(set(seen))
        if op == "zip":
            exp = list(zip(*emitted))
            if vals != exp[: len(vals)]:
                P.append((f"{op}|threads|wrong-pairing", f"expected the tuples of k-th elements {exp}, downstream {shown}"))
            elif not any_err and vals != exp:
                P.append((f"{op}|threads|lost-tuples", f"expected {exp}, downstream {shown}"))
            if not any_err and ended != "C":
                P.append((f"{op}|threads|never-completed", f"all sources completed; downstream {shown}"))
            if ended == "C":
                # some source whose completion call had started must have had all its elements consumed
                k = len(vals)
                at = started[len(out) - 1]
                if not any((i, "C", len(s) - 1) in at and len(emitted[i]) <= k for i, s in enumerate(self.seqs)):
                    P.append((f"{op}|threads|completed-early", f"completed after {k} tuples although no completed source was drained; downstream {shown}"))
        elif op == "fork_join":
            if not any_err:
                if all(emitted):
                    exp = [tuple(e[-1] for e in emitted), "C"]
                else:
                    exp = ["C"]
                if shown != exp:
                    P.append((f"{op}|threads|wrong-result", f"expected {exp}, downstream {shown}"))
            elif vals and vals != [tuple(e[-1] for e in emitted if e)]:
                P.append((f"{op}|threads|wrong-result", f"downstream {shown}"))
        elif op == "combine_latest":
            prev = None
            for pos, v in enumerate(vals):
                ok = isinstance(v, tuple) and len(v) == n and all(v[i] in emitted[i] for i in range(n))
                if ok and prev is not None:
                    ok = all(v[i][1] >= prev[i][1] for i in range(n)) and v != prev
                if not ok:
                    P.append((f"{op}|threads|stale-or-foreign-value", f"output {v} after {prev}; downstream {shown}"))
                    break
                prev = v
            if not any_err and all(emitted):
                if not vals or vals[-1] != tuple(e[-1] for e in emitted):
                    P.append((f"{op}|threads|last-tuple-wrong", f"the last output must combine the last values {tuple(e[-1] for e in emitted)}; downstream {shown}"))
                if ended != "C":
                    P.append((f"{op}|threads|never-completed", f"all sources completed; downstream {shown}"))
        elif op == "with_latest_from":
            prim = [v[0] for v in vals if isinstance(v, tuple) and len(v) == n]
            if len(prim) != len(vals) or prim != [p for p in emitted[0] if p in prim] or len(set(prim)) != len(prim):
                P.append((f"{op}|threads|not-primary-order", f"outputs must follow the primary's elements; downstream {shown}"))
            else:
                prev = None
                for v in vals:
                    if any(v[i] not in emitted[i] for i in range(1, n)) or (prev and any(v[i][1] < prev[i][1] for i in range(1, n))):
                        P.append((f"{op}|threads|stale-or-foreign-value", f"output {v} after {prev}; downstream {shown}"))
                        break
                    prev = v
            if self.seqs[0][-1] == "C" and not any_err and ended != "C":
                P.append((f"{op}|threads|never-completed", f"the primary completed; downstream {shown}"))
        else:  # amb
            cands = []
            for i, s in enumerate(self.seqs):
                mirror = [(i, j) if k == "N" else k for j, k in enumerate(s)]
                cands.append(mirror)
            if shown not in cands:
                P.append((f"{op}|threads|not-a-mirror", f"downstream {shown} mirrors none of {cands}"))
        if any_err and op != "amb" and ended not in ("E", "C"):
            P.append((f"{op}|threads|error-not-delivered", f"a source failed; downstream {shown}"))
        return P


SEQ_Q = [("C",), ("N", "C"), ("N", "N", "C"), ("N", "E")]
SEQ_T = SEQ_Q + [("E",), ("N", "N", "E")]


def harnesses(tier):
    hs = []
    seqs = SEQ_Q if tier == "quick" else SEQ_T
    for op in FOCUS:
        sym = op != "with_latest_from"
        pairs = itertools.combinations_with_replacement(seqs, 2) if sym else itertools.product(seqs, repeat=2)
        for a, b in pairs:
            if tier == "quick" and a == ("C",) and b == ("C",):
                continue
            hs.append(H(op, (a, b)))
        if tier == "thorough" and op in ("zip", "combine_latest", "fork_join"):
            for tr in itertools.combinations_with_replacement([("C",), ("N", "C"), ("N", "N", "C")], 3):
                hs.append(H(op, tr))
    return hs


def PB_of(tier, h):
    return 1 if tier == "quick" or len(h.seqs) == 3 else 2


def shard(part, shard_i, nshards, tier, seed, deadline):
    ilv.install()
    for i, h in enumerate(harnesses(tier)):
        if (i + seed) % nshards == shard_i:
            ilvrun.explore_all(part, [h], 0, 1, PB_of(tier, h), 0, deadline, horizon=5.0, coarse_pb=2 if len(h.seqs) == 3 else None)


def run_part(ctx):
    before = ctx.total.counters.get("executions", 0)
    hs = harnesses(ctx.tier)
    ctx.sharded(shard, nshards=len(hs), deadline=ctx.sub_deadline(0.5))
    ex = ctx.total.counters.get("executions", 0) - before
    ctx.cov["e3_threads"] = {"schedules_explored": ex, "coarse_executions": ctx.total.counters.get("coarse_executions", 0), "schedule_points": ctx.total.counters.get("schedule_points", 0),
                             "PB": "1" if ctx.tier == "quick" else "2 (three sources: 1)", "harnesses": len(hs), "operators": list(FOCUS)}
    ctx.assumptions = list(ctx.assumptions) + [
        "E3 part: every source emits serially from its own controlled thread; preemption at sync operations and line boundaries of the "
        "operator's file and internal/concurrency.py; only schedule-independent consequences of the pairing rules are judged"
    ]


def replay(case):
    ilv.install()
    for tier in ("quick", "thorough"):
        for h in harnesses(tier):
            if h.name == case["harness"]:
                return ilvrun.replay_harness(h, case)
    return []
