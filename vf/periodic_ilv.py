"""E3 part of C35: schedule_periodic on real-thread schedulers under the controlled clock.

Schedulers: EventLoopScheduler (PeriodicScheduler's recursive relative scheduling),
NewThreadScheduler (its own Event-based loop), CatchScheduler over each.  A control thread
disposes at a given clock reading, or the action raises at tick k.
"""
from __future__ import annotations

from . import ilv, ilvrun

PERIOD = 1.0


class Boom(Exception):
    pass


class H:
    def __init__(self, kind, catch, dispose_at, raise_at):
        self.kind, self.catch, self.dispose_at, self.raise_at = kind, catch, dispose_at, raise_at
        self.name = f"periodic|{kind}|catch={catch}|dispose={dispose_at}|raise={raise_at}"
        self.sig = f"periodic-{kind}" + ("-catch" if catch else "")
        files = {"eventloop": ["scheduler/periodicscheduler.py"], "newthread": ["scheduler/newthreadscheduler.py"]}[kind]
        if catch:
            files = files + ["scheduler/catchscheduler.py"]
        self.focus = ilv.focus_files(*files)
        # an exception raised by the action escapes the scheduler's thread unless a CatchScheduler swallows it
        self.allow_thread_errors = raise_at is not None and catch != "true"

    def setup(self, run):
        from reactivex import scheduler as S

        st = {"run": run, "ticks": [], "handled": [], "disp": None}
        inner = S.EventLoopScheduler() if self.kind == "eventloop" else S.NewThreadScheduler()
        st["inner"] = inner
        if self.catch:
            def handler(e):
                st["handled"].append(e)
                return self.catch == "true"

            st["sch"] = S.CatchScheduler(inner, handler)
        else:
            st["sch"] = inner
        return st

    def bodies(self, st):
        run = st["run"]

        def action(state):
            me = ilv.cur()
            k = len(st["ticks"]) + 1
            st["ticks"].append({"k": k, "state": state, "clock": run.clock, "idx": len(run.events), "harness": me.harness})
            run.log("tick", k, state)
            ilv.point("in-tick", voluntary=True)
            if self.raise_at == k:
                run.log("raise", k)
                raise Boom(k)
            return state + 1

        def control():
            st["d"] = st["sch"].schedule_periodic(PERIOD, action, 0)
            if self.dispose_at is not None:
                if run.clock < self.dispose_at:
                    run.block(ilv.cur(), lambda: False, self.dispose_at, "sleep")
                st["d"].dispose()
                st["disp"] = {"clock": run.clock, "idx": len(run.events)}
                run.log("disposed")

        return [control]

    def outcome(self, x):
        return (tuple((t["k"], t["state"], t["clock"]) for t in x.state["ticks"]), len(x.state["handled"]))

    def check(self, x):
        st = x.state
        if x.outcome not in ("quiescent",):
            return []
        P = []
        sig = self.sig
        ticks = st["ticks"]
        for i, t in enumerate(ticks):
            if t["state"] != i:
                P.append((f"{sig}|state-not-threaded", f"tick {t['k']} received state {t['state']}, expected {i}"))
                break
            if t["clock"] < (i + 1) * PERIOD:
                P.append((f"{sig}|tick-before-period", f"tick {t['k']} ran at clock {t['clock']} < {(i + 1) * PERIOD}"))
            if t["harness"]:
                P.append((f"{sig}|tick-on-caller-thread", f"tick {t['k']} ran on the scheduling thread"))
        if self.raise_at is not None and len(ticks) > self.raise_at:
            P.append((f"{sig}|ticks-after-raise", f"action raised at tick {self.raise_at} but {len(ticks)} ticks ran"))
        if self.raise_at is not None and self.catch and len(ticks) >= self.raise_at and len(st["handled"]) != 1:
            P.append((f"{sig}|handler-calls", f"handler called {len(st['handled'])} times for one raising tick"))
        if st["disp"] is not None:
            after = [t for t in ticks if t["idx"] > st["disp"]["idx"]]
            if len(after) > 1:
                P.append((f"{sig}|ticks-after-dispose", f"{len(after)} ticks started after dispose() returned (at most the one already in flight is tolerated)"))
            if after and after[0]["clock"] > st["disp"]["clock"]:
                P.append((f"{sig}|tick-at-later-time-after-dispose", f"a tick started at clock {after[0]['clock']} although dispose() returned at clock {st['disp']['clock']}"))
        else:
            # keeps the period until the horizon (or the raise): no lost tick
            want = int(x.clock // PERIOD) if self.raise_at is None else self.raise_at
            want = min(want, int(x.clock // PERIOD))
            if len(ticks) < want:
                P.append((f"{sig}|ticks-missing", f"only {len(ticks)} ticks by clock {x.clock} (expected >= {want})"))
        return P[:3]


def harnesses(tier):
    hs = []
    for kind in ("eventloop", "newthread"):
        for catch in (None, "true", "false"):
            disposes = (None, 0.0, 1.0, 1.5, 2.0) if tier == "quick" else (None, 0.0, 0.5, 1.0, 1.5, 2.0, 2.5, 3.0)
            for d in disposes:
                hs.append(H(kind, catch, d, None))
            for r in ((1, 2) if tier == "quick" else (1, 2, 3)):
                hs.append(H(kind, catch, None, r))
    return hs


HORIZON = 3.5


def shard(part, shard_i, nshards, tier, seed, deadline):
    ilv.install()
    PB, TB = (1, 1) if tier == "quick" else (2, 1)
    for i, h in enumerate(harnesses(tier)):
        if (i + seed) % nshards == shard_i:
            ilvrun.explore_all(part, [h], 0, 1, PB, TB, deadline, horizon=HORIZON)


def replay(case):
    ilv.install()
    for tier in ("quick", "thorough"):
        for h in harnesses(tier):
            if h.name == case["harness"]:
                return ilvrun.replay_harness(h, case)
    return []
