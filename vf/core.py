"""Common substrate: binding to the tree under test, sharded exhaustive
enumeration, violation/finding bookkeeping, evidence and replay files.

Every check module (vf/checks/cNN.py) exposes

    PROPERTY = "Cnn"; LEVEL = "exploration" | "fault_enumeration" | "model_checking"
    RULE = "...how cases are enumerated / what is non-trivial..."
    def run(ctx): ...            # explores, feeds ctx (usually through ctx.sharded)
    def replay(case) -> list     # re-runs one recorded case, returns violations

Nothing here samples: `sharded` partitions a deterministic enumeration over
worker processes by index, and every worker enumerates the same generator.
"""
from __future__ import annotations

import hashlib
import json
import multiprocessing as mp
import os
import subprocess
import sys
import time
import traceback
from typing import Any, Callable, Iterable

VERIF = os.path.dirname(os.path.dirname(os.path.abspath(__file__)))
REPO = os.environ.get("VERIF_REPO_ROOT", "/repo")
EVIDENCE_SCHEMA = "/root/.vp/EVIDENCE.schema.json"
# mutant/scratch runs must not overwrite the committed evidence: VERIF_OUT redirects evidence/ and replay/
OUT = os.environ.get("VERIF_OUT", VERIF)


def bind_repo() -> None:
    """Put the tree under test first on sys.path and make sure it is the one used."""
    if REPO not in sys.path[:1]:
        sys.path.insert(0, REPO)
    import reactivex  # noqa

    f = os.path.realpath(reactivex.__file__)
    if not f.startswith(os.path.realpath(REPO) + os.sep):
        raise SystemExit(f"harness error: reactivex imported from {f}, not from {REPO}")


def h64(obj: Any) -> int:
    """Stable 64-bit hash of a JSON-able / repr-able object (PYTHONHASHSEED independent)."""
    if not isinstance(obj, (str, bytes)):
        obj = repr(obj)
    if isinstance(obj, str):
        obj = obj.encode()
    return int.from_bytes(hashlib.blake2b(obj, digest_size=8).digest(), "big")


def jsonable(x: Any, depth: int = 0) -> Any:
    if depth > 12:
        return repr(x)
    if x is None or isinstance(x, (bool, int, str)):
        return x
    if isinstance(x, float):
        return x if x == x and abs(x) != float("inf") else repr(x)
    if isinstance(x, (list, tuple)):
        return [jsonable(i, depth + 1) for i in x]
    if isinstance(x, dict):
        return {str(k): jsonable(v, depth + 1) for k, v in x.items()}
    if isinstance(x, (set, frozenset)):
        return sorted((jsonable(i, depth + 1) for i in x), key=repr)
    return repr(x)


class Part:
    """What one shard (or one in-process exploration) reports back."""

    def __init__(self) -> None:
        self.evals = 0
        self.nontrivial: set[int] = set()
        self.outcomes: set[int] = set()
        self.violations: list[dict] = []
        self.viol_count = 0
        self.samples: list[Any] = []
        self.complete = True
        self.counters: dict[str, int] = {}
        self.notes: list[str] = []

    # -- feeding -------------------------------------------------------------
    def case(self, key: Any, nontrivial: bool, outcome: Any = None, sample: Any = None) -> None:
        self.evals += 1
        if nontrivial:
            self.nontrivial.add(h64(key))
        if outcome is not None:
            self.outcomes.add(h64(outcome))
        if sample is not None and len(self.samples) < 2:
            self.samples.append(jsonable(sample))

    def count(self, name: str, n: int = 1) -> None:
        self.counters[name] = self.counters.get(name, 0) + n

    def violation(self, signature: str, what: str, case: Any, **detail: Any) -> None:
        self.viol_count += 1
        for v in self.violations:
            if v["signature"] == signature:
                v["occurrences"] += 1
                return
        if len(self.violations) < 200:
            self.violations.append(
                {
                    "signature": signature,
                    "what": what,
                    "case": jsonable(case),
                    "detail": jsonable(detail),
                    "occurrences": 1,
                }
            )

    def merge(self, o: "Part") -> None:
        self.evals += o.evals
        self.nontrivial |= o.nontrivial
        self.outcomes |= o.outcomes
        self.viol_count += o.viol_count
        for v in o.violations:
            for w in self.violations:
                if w["signature"] == v["signature"]:
                    w["occurrences"] += v["occurrences"]
                    # keep the smaller case as the representative
                    if len(json.dumps(v["case"])) < len(json.dumps(w["case"])):
                        w["case"], w["detail"], w["what"] = v["case"], v["detail"], v["what"]
                    break
            else:
                self.violations.append(v)
        for s in o.samples:
            if len(self.samples) < 4:
                self.samples.append(s)
        self.complete = self.complete and o.complete
        for k, n in o.counters.items():
            self.counters[k] = self.counters.get(k, 0) + n
        for n in o.notes:
            if n not in self.notes and len(self.notes) < 20:
                self.notes.append(n)


def _shard_entry(args):
    fn, shard, nshards, tier, seed, deadline, extra = args
    part = Part()
    try:
        fn(part, shard, nshards, tier, seed, deadline, *extra)
    except BaseException as e:  # a crash of the harness is a hard error, not a verdict
        part.complete = False
        part.notes.append("HARNESS-ERROR shard %d: %s" % (shard, "".join(traceback.format_exception(e))[-1500:]))
        part.counters["harness_errors"] = part.counters.get("harness_errors", 0) + 1
    return part


def shard_iter(gen: Iterable, shard: int, nshards: int):
    """Every worker walks the same deterministic enumeration; item i belongs to shard i % nshards."""
    for i, c in enumerate(gen):
        if i % nshards == shard:
            yield c


class Ctx:
    def __init__(self, prop: str, tier: str, seed: int, workers: int, budget_s: float, level: str, rule: str):
        self.prop, self.tier, self.seed, self.workers = prop, tier, seed, workers
        self.level, self.rule = level, rule
        self.t0 = time.time()
        self.deadline = self.t0 + budget_s
        self.total = Part()
        self.cov: dict[str, Any] = {}
        self.assumptions: list[str] = []
        self.bounds: dict[str, Any] = {}

    def sub_deadline(self, frac: float) -> float:
        """A deadline that leaves (1 - frac) of the remaining budget to the parts that run afterwards."""
        now = time.time()
        return now + max(0.0, self.deadline - now) * frac

    def sharded(self, fn: Callable, extra: tuple = (), nshards: int | None = None, deadline: float | None = None) -> Part:
        """Run fn(part, shard, nshards, tier, seed, deadline, *extra) for every shard."""
        w = max(1, self.workers)
        if nshards is None:
            nshards = w * 8 if w > 1 else 1
        jobs = [(fn, s, nshards, self.tier, self.seed, self.deadline if deadline is None else deadline, extra) for s in range(nshards)]
        agg = Part()
        if w == 1:
            for j in jobs:
                agg.merge(_shard_entry(j))
        else:
            ctx = mp.get_context("fork")
            with ctx.Pool(w, maxtasksperchild=None) as pool:
                for p in pool.imap_unordered(_shard_entry, jobs):
                    agg.merge(p)
        self.total.merge(agg)
        return agg

    def local(self) -> Part:
        return self.total

    def timed_out(self) -> bool:
        return time.time() > self.deadline


# ------------------------------------------------------------------ findings

def load_findings() -> list[dict]:
    out: list[dict] = []
    p = os.path.join(VERIF, "known_findings.json")
    if os.path.exists(p):
        out += json.load(open(p))["findings"]
    d = os.path.join(VERIF, "known_findings.d")
    if os.path.isdir(d):
        for f in sorted(os.listdir(d)):
            if f.endswith(".json"):
                out += json.load(open(os.path.join(d, f)))["findings"]
    return out


def finish(ctx: Ctx) -> int:
    """Classify violations, write replay artefacts and evidence, print verdict lines."""
    tot = ctx.total
    known = [f for f in load_findings() if f.get("property") == ctx.prop and f.get("kind") == "known"]
    harness_errors = tot.counters.get("harness_errors", 0)
    new, seen_known = [], []
    for v in tot.violations:
        k = next((f for f in known if f["signature"] == v["signature"]), None)
        if k is not None:
            seen_known.append((k, v))
        else:
            new.append(v)
    os.makedirs(os.path.join(OUT, "replay"), exist_ok=True)
    os.makedirs(os.path.join(OUT, "evidence"), exist_ok=True)
    for k, v in seen_known:
        print(f"KNOWN-FINDING: property={ctx.prop} {k['what']} [signature={k['signature']} occurrences={v['occurrences']}]")
    for n in tot.notes:
        print("NOTE:", n)
    for i, v in enumerate(new):
        path = os.path.join(OUT, "replay", f"{ctx.prop}-{i + 1}.json")
        with open(path, "w") as fh:
            json.dump({"property": ctx.prop, **v}, fh, indent=1)
        print(f"VIOLATION property={ctx.prop} replay={path}")
        print(f"  signature={v['signature']} occurrences={v['occurrences']}\n  what: {v['what']}")
    wall = time.time() - ctx.t0
    cov: dict[str, Any] = {
        "evaluations": tot.evals,
        "distinct_nontrivial": len(tot.nontrivial),
        "distinct_outcomes": len(tot.outcomes),
        "rule": ctx.rule,
        "samples": tot.samples or [],
        "exhaustive": bool(tot.complete),
        "bounds": ctx.bounds,
        "counters": tot.counters,
        "known_findings_seen": [k["signature"] for k, _ in seen_known],
    }
    cov.update(ctx.cov)
    ev = {
        "property_id": ctx.prop,
        "tier": ctx.tier,
        "seed": ctx.seed,
        "level": ctx.level,
        "coverage": cov,
        "assumptions": ctx.assumptions,
        "wall_s": round(wall, 3),
        "violations": len(new),
    }
    evp = os.path.join(OUT, "evidence", f"{ctx.prop}.json")
    with open(evp, "w") as fh:
        json.dump(ev, fh, indent=1, sort_keys=True)
    ok_schema = validate_evidence(evp)
    print(
        f"{ctx.prop} tier={ctx.tier} seed={ctx.seed} evaluations={tot.evals} distinct_nontrivial={len(tot.nontrivial)} "
        f"outcomes={len(tot.outcomes)} exhaustive={tot.complete} violations={len(new)} known={len(seen_known)} wall={wall:.1f}s"
    )
    if harness_errors or not ok_schema:
        print(f"HARNESS-ERROR property={ctx.prop}: harness_errors={harness_errors} schema_ok={ok_schema}")
        return 2
    return 1 if new else 0


def validate_evidence(path: str) -> bool:
    code = (
        "import json,sys,jsonschema;"
        f"jsonschema.validate(json.load(open({path!r})), json.load(open({EVIDENCE_SCHEMA!r})))"
    )
    try:
        r = subprocess.run(["python3-vt", "-c", code], capture_output=True, text=True, timeout=60)
    except Exception as e:  # tool missing: do not turn that into a verdict
        print("NOTE: evidence schema validation skipped:", e)
        return True
    if r.returncode != 0:
        print("evidence schema validation failed:\n" + r.stderr[-1500:])
        return False
    return True
