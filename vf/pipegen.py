"""Shared enumeration and run helpers of the pipeline-level generic checks C01, C02, C03.

A *base case* is (stages, source kind, structural timeline, inner policy); the check modules
derive their deviations (one fault, or one dispose point) from the zero-deviation run of the
base case, so nothing about a pipeline's behaviour is guessed.

Phases (each enumerated completely, in this order; a tier is a list of phases):
  d1      every entry of the catalogue alone                                  (|Omega| pipelines)
  d2core  Omega_core x Omega_core                                             (|core|^2)
  d2      Omega x Omega_core and Omega_core x Omega, minus d2core             (2*|Omega \\ core|*|core|)
  d3      Omega_core^3
x source kinds x timelines of catalogue.TLS (rogue timelines only with rogue sources, the
others with cold and hot) x inner policy (sub, sub1, none when the last stage hands
observables to the subscriber, i.e. has the flag 'inner'; otherwise 'sub').

VERIF_SEED only selects which integers play the alphabet a/b/c (the catalogue's callbacks see
the abstract symbol through Kit.u), never what is enumerated.
"""
from __future__ import annotations

import os
import time
from typing import Any, Iterable

from . import catalogue as cat
from . import core, vt

POLICIES = ("sub", "sub1", "none")
QUICK = ("d1", "d2core")
THOROUGH = ("d1", "d2core", "d2", "d3")
# Horizon dispose of every run.  The longest conforming behaviour of a depth-3 pipeline is repeat:2 o repeat:2 o repeat:2 over a
# 40-tick timeline (ends at 200 + 8*40 = 520); periodic operators (sample, *_with_time) tick until the horizon, so a nearer horizon
# than vt.HORIZON keeps never-ending cases cheap without cutting any terminating one short.
HORIZON = 600


def alphabet(seed: int):
    r = seed % 3
    alpha = (1 + 10 * r, 2 + 10 * r, 3 + 10 * r)
    if r == 0:
        return alpha, None
    back = {alpha[0]: 1, alpha[1]: 2, alpha[2]: 3}

    def unrename(x):
        try:
            return back.get(x, x) if isinstance(x, int) and not isinstance(x, bool) else x
        except TypeError:
            return x

    return alpha, unrename


def entries():
    """(usable entries, skipped {id: reason})"""
    use, skipped = [], {}
    for e in cat.catalogue():
        if e.needs is not None:
            skipped[e.id] = f"needs {e.needs}"
            continue
        use.append(e)
    return use, skipped


def pipelines(phase: str) -> Iterable[tuple]:
    use, _ = entries()
    om = [e.id for e in use]
    co = [e.id for e in use if "core" in e.flags]
    cos = set(co)
    if phase == "d0":
        yield ()  # the bare source: the subscriber's own subscribe() is the only library code in play
    elif phase == "d1":
        for a in om:
            yield (a,)
    elif phase == "d2core":
        for a in co:
            for b in co:
                yield (a, b)
    elif phase == "d2":
        for a in om:
            if a in cos:
                continue
            for b in co:
                yield (a, b)
        for a in co:
            for b in om:
                if b in cos:
                    continue
                yield (a, b)
    elif phase == "d3":
        for a in co:
            for b in co:
                for c in co:
                    yield (a, b, c)
    else:
        raise ValueError(phase)


def policies_for(stages: tuple) -> tuple:
    return POLICIES if stages and "inner" in cat.by_id()[stages[-1]].flags else ("sub",)


def base_cases(phase: str, kinds=("cold", "hot"), tl_names=None, tl_names_by_depth=None, include_sync=False):
    """Yield (stages, kind, tlname, policy).  tl_names restricts the conforming timelines;
    tl_names_by_depth {depth: names} overrides it per pipeline depth."""
    names = list(cat.TLS().keys())
    for st in pipelines(phase):
        allowed = tl_names
        if tl_names_by_depth and len(st) in tl_names_by_depth:
            allowed = tl_names_by_depth[len(st)]
        pols = policies_for(st)
        for kind in kinds:
            for n in names:
                if n.startswith("rogue:") != (kind == "rogue"):
                    continue
                if n.startswith("coldsync:") and not (include_sync and kind == "cold"):
                    continue
                if allowed is not None and not n.startswith("rogue:") and n not in allowed:
                    continue
                for p in pols:
                    yield (st, kind, n, p)


def run(base, seed: int, **dev):
    """Execute one run of a base case with the deviation `dev` (arm= / rec_fault= / dispose=)."""
    st, kind, tln, pol = base
    alpha, un = alphabet(seed)
    tl = cat.TLS(*alpha)[tln]
    dev = {k: (tuple(v) if isinstance(v, list) else v) for k, v in dev.items() if v is not None}
    R = cat.run_case(list(st), kind, tl, inner_policy=pol, alphabet=alpha, unrename=un, horizon=HORIZON, **dev)
    drain(R)
    return R


def drain(R) -> None:
    """Env.run stops the scheduler from inside the horizon action, so work that the horizon
    disposal itself schedules for the same instant (ScheduledDisposable of subscribe_on) never
    runs and the source would look leaked.  Let the scheduler finish what is queued: after the
    horizon every recorder is disposed, so whatever still runs is either such asynchronous
    disposal or work that escaped disposal (which the oracles then see)."""
    R.drain = "skipped"
    if R.status != "ok":
        return
    try:
        R.env.sched.start()
        R.drain = "ok"
    except vt.BudgetExceeded:
        # something periodic survived the horizon disposal and keeps the queue busy for ever (seen when an injected fault makes a
        # finally-action raise out of CompositeDisposable.dispose, so the sibling timer is never disposed).  The run itself ended
        # normally; what was logged up to here is judged as usual.
        R.drain = "budget"


def descriptor(base, seed: int, **dev) -> dict:
    st, kind, tln, pol = base
    d = {"stages": list(st), "source": kind, "timeline": tln, "inner_policy": pol, "seed": seed}
    d.update({k: v for k, v in dev.items() if v is not None})
    return d


def from_descriptor(d: dict):
    base = (tuple(d["stages"]), d["source"], d["timeline"], d["inner_policy"])
    dev = {k: d[k] for k in ("arm", "rec_fault", "dispose", "reenter") if d.get(k) is not None}
    return base, int(d.get("seed", 0)), dev


def pname(stages) -> str:
    return ">".join(stages)


def recorders(R):
    return [R.rec] + [r for r in R.inner if r is not None]


def show_rec(r) -> str:
    return f"{r.name}:" + "".join(f"{k}@{t:g}" + ("," if True else "") for (_, t, k, _) in r.log)


def show_run(R) -> dict:
    """Printable observation of a run (replay output, violation detail)."""
    return {
        "status": R.status,
        "outer": [(s, t, k, repr(v)[:60]) for (s, t, k, v) in R.rec.log],
        "outer_disposed": (R.rec.disposed_step, R.rec.disposed_time),
        "inner": [None if r is None else {"log": [(s, t, k, repr(v)[:40]) for (s, t, k, v) in r.log], "disposed": (r.disposed_step, r.disposed_time)} for r in R.inner],
        "sublog": [dict(s) for s in R.env.sublog],
        "probe_log": list(R.env.probe_log),
        "injected": [str(e) for e in R.env.injected],
        "escaped": [(t, repr(e)) for (t, e) in R.env.sched.escaped][:5],
    }


def unstaged(name: str | None) -> str:
    """'s1.mapper.f' -> 'mapper.f' (signatures must not depend on the position of the stage)"""
    if name and name[0] == "s" and "." in name and name.split(".", 1)[0][1:].isdigit():
        return name.split(".", 1)[1]
    return "-" if name is None else str(name)


def culprit(stages, name: str | None) -> str:
    """Stage owning a harness object named 's<i>.xxx' (extra source or probe slot); the whole
    pipeline when it cannot be attributed (main source, outer subscriber)."""
    if name and name[0] == "s" and "." in name:
        head = name.split(".", 1)[0][1:]
        if head.isdigit() and int(head) < len(stages):
            return stages[int(head)]
    return pname(stages)


class Clock:
    """deadline polling every few runs"""

    def __init__(self, deadline: float):
        self.deadline, self.n = deadline, 0

    def expired(self) -> bool:
        self.n += 1
        return self.n % 64 == 0 and time.time() > self.deadline


def run_phases(ctx: core.Ctx, shard_fn, phases, extra=()):
    """Run the phases one after the other (each sharded over the workers) so that, when the
    wall budget ends a tier early, the evidence says which phases were enumerated completely."""
    done = []
    if os.environ.get("VERIF_PHASES"):  # development aid: run a subset of the tier's phases (recorded in the evidence)
        phases = tuple(os.environ["VERIF_PHASES"].split(","))
    for ph in phases:
        if ctx.timed_out():
            ctx.total.complete = False
            break
        part = ctx.sharded(shard_fn, extra=(ph,) + tuple(extra))
        ctx.cov.setdefault("phase_evaluations", {})[ph] = part.evals
        if part.complete:
            done.append(ph)
        else:
            break
    ctx.cov["phases_completed"] = done
    ctx.cov["phases_requested"] = list(phases)
    return done
