"""C10 Sequential composition runs one source at a time, in order (E1, bounded-exhaustive).

Enumerated completely per tier: every listed operator form x every list of <=L cold sources
whose timelines come from a structural set (terminal C / E / never, empty, synchronous,
terminal in the instant of the last element) x every count 0..3 and the unbounded count cut
by take(k).  Oracle: `seqref.SeqModel` gives the output with its virtual instants and, per
source, the subscription intervals (next source subscribed in the very instant its
predecessor terminated in the way the operator continues on, never otherwise); in addition
the real subscription log must never show two sources running at the same global step.
"""
from __future__ import annotations

import itertools
import time

from .. import core, seq_ilv, seqref, vt

PROPERTY = "C10"
LEVEL = "exploration"
META = {
    "engine": "vtx",
    "technique": "bounded-exhaustive enumeration of (operator form, list of cold source timelines, count) on virtual time against a "
    "sequential-composition reference simulator (output instants and per-source subscription intervals); plus stateless exhaustive "
    "exploration of thread interleavings (bounded preemptions) of the source hand-over on the NewThreadScheduler",
    "text": "concat (function, operator, +, +=), concat_with_iterable (list/generator), for_in, start_with, repeat, retry, catch (function, "
    "iterable, operator with observable and with handler), on_error_resume_next (function, operator, factories), while_do and do_while "
    "are run on every list of <=L logged cold sources from a structural timeline set and every count within the bound; the recorded "
    "output and every source's subscribe/close instants must equal the reference, and no two sources may be running at the same step; "
    "exhaustive within the stated bounds",
    "note": "trusted: CPython, the harness in /verif/vf (vt.py sources, seqref.py simulator), VirtualTimeScheduler's queue discipline "
    "(checked by C28/C29); operators and sources are built fresh per execution (re-subscription of one operator object is C04/C44)",
}
META["text"] += "; thread part: concat/catch/on_error_resume_next/repeat/retry/start_with over synchronous and scheduled sources subscribed on the NewThreadScheduler, every interleaving up to the preemption bound: output = the concatenation, one source at a time"
RULE = (
    "all (operator form, parameters, source list) triples: source lists = every tuple of <=L timelines from the structural set "
    "(sync/async, empty, terminal C/E/never, terminal with last element), counts 0..3 and None cut by take(1..3), both ways of "
    "passing the scheduler in the thorough tier; non-trivial = by the reference >=2 source subscriptions are opened (a hand-over from one "
    "source to the next takes place); distinct = (operator form, parameters, timelines)"
)
BUDGET = {"quick": 300.0, "thorough": 2400.0}


# ------------------------------------------------------------------ timelines

def tl_set(a, b):
    """Structural timeline set for one source emitting a (then b)."""
    return {
        "syncC": [(None, "C", None)],
        "syncE": [(None, "E", "E")],
        "sync_a_C": [(None, "N", a), (None, "C", None)],
        "never": [],
        "a_C": [(10, "N", a), (20, "C", None)],
        "a_E": [(10, "N", a), (20, "E", "E")],
        "ab_C_same": [(10, "N", a), (20, "N", b), (20, "C", None)],
        "a_never": [(10, "N", a)],
        "C": [(10, "C", None)],
        "E": [(10, "E", "E")],
        "sync_a_E": [(None, "N", a), (10, "E", "E")],
    }


SMALL = ("sync_a_C", "a_C", "a_E", "syncE", "a_never", "C")


def single_timelines(a, b, deep):
    """Timelines for the single-source operators (repeat/retry/while_do/do_while/start_with)."""
    out = dict(tl_set(a, b))
    if deep:
        n = 0
        for tl in vt.timelines(deep, (a, b), terminals=("C", "E", None), bursts=True, same_instant_terminal=True):
            n += 1
            out[f"g{n}"] = list(tl)
            if tl:
                n += 1
                # first notification delivered synchronously inside subscribe
                out[f"g{n}"] = [(None,) + tuple(tl[0][1:])] + [x for x in tl[1:]]
    return out


def has_next(tl):
    return any(k == "N" for (_, k, _) in tl)


def term_of(tl):
    for (_, k, _) in tl:
        if k in "EC":
            return k
    return "-"


# ------------------------------------------------------------------ enumeration

MULTI_OPS = [
    # (op id, minimal list length, maximal list length or None)
    ("concat", 0, None),
    ("concat_op", 1, None),
    ("add", 2, None),
    ("iadd", 2, None),
    ("concat_with_iterable:list", 0, None),
    ("concat_with_iterable:gen", 1, None),
    ("for_in", 0, None),
    ("catch", 1, None),
    ("catch_with_iterable:gen", 1, None),
    ("catch_op", 2, None),
    ("catch_handler", 2, None),
    ("oern", 0, None),
    ("oern_op", 2, 2),
    ("oern_factory", 1, None),
]


def bounds(tier):
    if tier == "quick":
        return {"L_full": 2, "L_small": 3, "counts": [0, 1, 2, 3], "takes": [1, 2], "deep_single": 2, "ps": [True]}
    return {"L_full": 3, "L_small": 4, "counts": [0, 1, 2, 3], "takes": [1, 2, 3], "deep_single": 3, "ps": [True, False]}


def vals(seed, i):
    base = 100 * (seed % 7)
    return base + 10 * (i + 1) + 1, base + 10 * (i + 1) + 2


def all_cases(tier, seed):
    B = bounds(tier)
    sub = vt.SUB + 10 * (seed % 4)
    names_full = list(tl_set(0, 0).keys())

    def lists():
        yield ()
        for L in range(1, B["L_full"] + 1):
            yield from itertools.product(names_full, repeat=L)
        for L in range(B["L_full"] + 1, B["L_small"] + 1):
            yield from itertools.product(SMALL, repeat=L)

    for ps in B["ps"]:
        for shape in lists():
            L = len(shape)
            sources = {f"s{i}": ["cold", tl_set(*vals(seed, i))[shape[i]]] for i in range(L)}
            seq = [f"s{i}" for i in range(L)]
            for (op, lo, hi) in MULTI_OPS:
                if L < lo or (hi is not None and L > hi):
                    continue
                yield {"op": op, "params": {}, "sources": sources, "seq": seq, "shape": list(shape), "sub": sub, "take": None, "ps": ps}
        a, b = vals(seed, 0)
        for sname, tl in single_timelines(a, b, B["deep_single"]).items():
            src = {"s0": ["cold", tl]}
            base = {"sources": src, "seq": ["s0"], "shape": [sname], "sub": sub, "take": None, "ps": ps}
            for k in (0, 1, 2):
                sw = [(None, "N", 900 + j) for j in range(k)]
                yield dict(base, op="start_with", params={"k": k}, sources={"sw": ["iter", sw], "s0": ["cold", tl]}, seq=["sw", "s0"])
            for n in B["counts"]:
                yield dict(base, op="repeat", params={"n": n})
                yield dict(base, op="retry", params={"n": n}, out_free=(n == 0))
                yield dict(base, op="while_do", params={"n": n})
                yield dict(base, op="do_while", params={"n": n})
            for k in B["takes"]:
                # unbounded counts: only sources that cannot spin forever without output
                if has_next(tl) or term_of(tl) != "C":
                    yield dict(base, op="repeat", params={"n": None}, take=k)
                    yield dict(base, op="while_do", params={"n": None}, take=k)
                if has_next(tl) or term_of(tl) != "E":
                    yield dict(base, op="retry", params={"n": None}, take=k)


# ------------------------------------------------------------------ real pipeline / model

def build(env, S, case):
    import reactivex
    from reactivex import operators as ops

    op, P = case["op"], case["params"]
    L = [S[n] for n in case["seq"]]
    n = P.get("n")

    def cond_n():
        calls = [0]

        def cond(_src):
            calls[0] += 1
            return n is None or calls[0] <= n

        return cond

    if op == "concat":
        o = reactivex.concat(*L)
    elif op == "concat_op":
        o = L[0].pipe(ops.concat(*L[1:]))
    elif op == "add":
        o = L[0]
        for x in L[1:]:
            o = o + x
    elif op == "iadd":
        o = L[0]
        for x in L[1:]:
            o += x
    elif op == "concat_with_iterable:list":
        o = reactivex.concat_with_iterable(list(L))
    elif op == "concat_with_iterable:gen":
        o = reactivex.concat_with_iterable(x for x in L)
    elif op == "for_in":
        o = reactivex.for_in(list(case["seq"]), lambda name: S[name])
    elif op == "catch":
        o = reactivex.catch(*L)
    elif op == "catch_with_iterable:gen":
        o = reactivex.catch_with_iterable(x for x in L)
    elif op == "catch_op":
        o = L[0]
        for x in L[1:]:
            o = o.pipe(ops.catch(x))
    elif op == "catch_handler":
        def handler_for(rest):
            def handler(_exc, _src):
                nxt = rest[0]
                return nxt.pipe(ops.catch(handler_for(rest[1:]))) if len(rest) > 1 else nxt

            return handler

        o = L[0].pipe(ops.catch(handler_for(L[1:])))
    elif op == "oern":
        o = reactivex.on_error_resume_next(*L)
    elif op == "oern_op":
        o = L[0].pipe(ops.on_error_resume_next(L[1]))
    elif op == "oern_factory":
        o = reactivex.on_error_resume_next(*[(lambda _e, x=x: x) for x in L])
    elif op == "start_with":
        o = L[1].pipe(ops.start_with(*L[0]))
    elif op == "repeat":
        o = L[0].pipe(ops.repeat(n))
    elif op == "retry":
        o = L[0].pipe(ops.retry(n))
    elif op == "while_do":
        o = L[0].pipe(ops.while_do(cond_n()))
    elif op == "do_while":
        o = L[0].pipe(ops.do_while(cond_n()))
    else:
        raise ValueError(op)
    if case.get("take"):
        o = o.pipe(ops.take(case["take"]))
    return o


def model(case):
    op, P, seq = case["op"], case["params"], case["seq"]
    n = P.get("n")
    if op in ("concat", "concat_op", "add", "iadd", "concat_with_iterable:list", "concat_with_iterable:gen", "for_in", "start_with"):
        return seqref.SeqModel(seq, "C", "C")
    if op in ("catch", "catch_with_iterable:gen", "catch_op", "catch_handler"):
        return seqref.SeqModel(seq, "E", "lastE")
    if op in ("oern", "oern_op", "oern_factory"):
        return seqref.SeqModel(seq, "CE", "C")
    if op in ("repeat", "while_do"):
        return seqref.SeqModel(seq * (n or 0), "C", "C", cycle=(seq[0] if n is None else None))
    if op == "do_while":
        return seqref.SeqModel(seq * (n + 1), "C", "C")
    if op == "retry":
        return seqref.SeqModel(seq * (n or 0), "E", "lastE", cycle=(seq[0] if n is None else None))
    raise ValueError(op)


def no_overlap(case, ob):
    """Independent of the model: by global step, a source is subscribed only after every earlier
    one delivered its terminal or was unsubscribed."""
    m = seqref.max_live(ob.raw_subs)
    if m > 1:
        return [("overlap", f"{m} sources were running at the same step: {seqref.show_subs(ob.subs)}")]
    return []


def signature(case, cls):
    P = case["params"]
    par = ",".join(f"{k}={P[k]}" for k in sorted(P))
    if case.get("take"):
        par += ",take"
    terms = "".join(term_of(case["sources"][n][1]) for n in case["seq"] if case["sources"][n][0] != "iter")
    return f"{case['op']}|{par}|terms={terms}|{cls}"


def key_of(case):
    return (case["op"], repr(case["params"]), repr(case["shape"]), case.get("take"), case["ps"])


def run_case(case):
    return seqref.judge(case, build, model, extra=no_overlap)


def shard(part: core.Part, shard_i, nshards, tier, seed, deadline):
    for case in core.shard_iter(all_cases(tier, seed), shard_i, nshards):
        if part.evals % 128 == 0 and time.time() > deadline:
            part.complete = False
            return
        problems, ob, stats = run_case(case)
        nontrivial = len(stats["witness"].sublog) >= 2
        part.case(key_of(case), nontrivial, outcome=seqref.outcome_of(ob),
                  sample={"op": case["op"], "params": case["params"], "sources": case["sources"], "take": case.get("take"),
                          "observed": seqref.show_out(ob.out), "subscriptions": seqref.show_subs(ob.subs)})
        part.count("op:" + case["op"])
        part.count("subscriptions_opened", len(ob.subs))
        for (cls, text) in problems:
            part.violation(signature(case, cls), f"{case['op']} {case['params']} on {case['shape']}: {text}", case, problems=problems)


def run(ctx: core.Ctx):
    B = bounds(ctx.tier)
    ctx.bounds = {
        "sources_full_set": B["L_full"], "sources_small_set": B["L_small"], "timeline_set": list(tl_set(0, 0).keys()),
        "small_set": list(SMALL), "counts": B["counts"], "unbounded_cut_by_take": B["takes"],
        "single_source_timelines": f"structural set + TL({B['deep_single']},2) with terminal C/E/never, bursts, same-instant terminal, optionally synchronous first notification",
        "scheduler_passed_to_subscribe": B["ps"],
    }
    ctx.assumptions = [
        "VirtualTimeScheduler queue discipline (checked separately by C28/C29)",
        "harness cold sources are conforming and honour disposal",
        "operator objects and source iterables are built fresh per execution (re-use is C04/C44)",
    ]
    seq_ilv.run_part(ctx)  # E3: hand-over on a scheduler that runs work on other threads
    part = ctx.sharded(shard)
    ctx.cov["operators_covered"] = sorted(k[3:] for k in part.counters if k.startswith("op:"))


def replay(case):
    if isinstance(case, dict) and str(case.get("harness", "")).startswith("seq-newthread|"):
        return seq_ilv.replay(case)
    case = dict(case)
    case["sources"] = {n: [k, [tuple(x) for x in tl]] for n, (k, tl) in case["sources"].items()}
    problems, ob, stats = run_case(case)
    print("case:", case["op"], case["params"], "take=", case.get("take"), "sources=", case["sources"])
    print("observed output:", seqref.show_out(ob.out))
    print("observed subscriptions:", seqref.show_subs(ob.subs))
    can = seqref.canonical(seqref.Sim(case, model(case)).start())
    print("reference output:", seqref.show_out(can.out))
    print("reference subscriptions:", seqref.show_subs([(s[0], s[1], s[2]) for s in can.sublog]))
    return [{"signature": signature(case, cls), "what": text, "detail": problems} for (cls, text) in problems]
