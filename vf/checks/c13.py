"""C13 Multi-source combinators follow their pairing rules (E1, bounded-exhaustive).

Enumerated completely per tier: every operator of {zip, combine_latest, with_latest_from,
fork_join, amb} x {top-level factory, operator form} x every tuple of n source timelines
x every hot/cold pattern.  Oracle: a reference model of the *statement's* rule fed with the
merged list of the source events, closed over every order of simultaneous events of
different sources (R3); the implementation's observation (recorded notifications plus the
sources' subscription intervals) must be a member of that set.
"""
from __future__ import annotations

import itertools
import time

from .. import core

core.bind_repo()  # the tree under test must be first on sys.path before vt imports reactivex
from .. import pair_ilv, vt  # noqa: E402

PROPERTY = "C13"
LEVEL = "exploration"
META = {
    "engine": "vtx",
    "technique": "bounded-exhaustive enumeration of tuples of source timelines on virtual time against nondeterministic "
    "reference simulators closed over all orders of simultaneous events; plus stateless exhaustive exploration of thread interleavings "
    "(bounded preemptions) with every source emitting from its own thread, judged by the schedule-independent consequences of the pairing rules",
    "text": "zip, combine_latest, with_latest_from, fork_join and amb (factory and operator form) are run on every tuple of "
    "1..n hot/cold source timelines of the tier's timeline set (interleaved, simultaneous, empty, erroring, never-ending, "
    "hot sources that started or ended before subscription); recorded notifications (values by type and ==, instants) and "
    "source subscription intervals must equal one member of the reference set; exhaustive within the bounds",
    "note": "trusted: CPython, the harness in /verif/vf (LoggedCold/LoggedHot sources), the reference simulators in this file, "
    "VirtualTimeScheduler's queue discipline (checked by C28/C29)",
}
META["text"] += "; thread part: zip, fork_join, combine_latest, with_latest_from, amb with one thread per source, every interleaving up to the preemption bound, judged by the schedule-independent consequences of the pairing rules"
RULE = (
    "all (operator, form, hot/cold pattern, tuple of source timelines): a source timeline = <=N on_next over a 2-value "
    "alphabet at slots 10,20,.. (optionally shifted by 5; hot ones also by -15 so that a prefix precedes subscription; cold ones "
    "also delivered entirely inside subscribe()) "
    "followed (one slot later, or in the same instant as the last element) by completion, error or nothing; non-trivial = at least two sources (one for single-source "
    "tuples) notify at or after the subscription instant and the reference output is not empty; distinct = the whole case tuple"
)
BUDGET = {"quick": 300.0, "thorough": 2400.0}

SUB = vt.SUB
HORIZON = vt.HORIZON
OPS = ("zip", "combine_latest", "with_latest_from", "fork_join", "amb")
FORMS = ("factory", "operator")


# ------------------------------------------------------------------ reference models
# A model is step(state, n, i, kind, value) -> [ (state', outs, released) ... ] (alternatives: the
# statement leaves a choice open), outs = [(kind, value)], released = sources the operator lets go of.
# state None = output terminated.  The models know only the statement's rule.

TERM = "TERM"


def m_zip(state, n, i, kind, value):
    queues, done = state if state is not None else (tuple(() for _ in range(n)), (False,) * n)
    if kind == "E":
        return [(TERM, [("E", value)], ())]
    if kind == "C":
        done = done[:i] + (True,) + done[i + 1:]
        if not queues[i]:
            return [(TERM, [("C", None)], ())]
        return [((queues, done), [], ())]
    queues = queues[:i] + (queues[i] + (value,),) + queues[i + 1:]
    outs = []
    if all(queues):
        outs.append(("N", tuple(q[0] for q in queues)))
        queues = tuple(q[1:] for q in queues)
        if any(d and not q for q, d in zip(queues, done)):
            outs.append(("C", None))
            return [(TERM, outs, ())]
    return [((queues, done), outs, ())]


NOVAL = ("<no value>",)


def m_combine_latest(state, n, i, kind, value):
    vals, done = state if state is not None else ((NOVAL,) * n, (False,) * n)
    if kind == "E":
        return [(TERM, [("E", value)], ())]
    outs = []
    if kind == "C":
        done = done[:i] + (True,) + done[i + 1:]
    else:
        vals = vals[:i] + ((value,),) + vals[i + 1:]
        if all(v is not NOVAL for v in vals):
            outs.append(("N", tuple(v[0] for v in vals)))
    if all(done):
        return [(TERM, outs + [("C", None)], ())]
    alts = [((vals, done), outs, ())]
    # The statement defines the elements only.  Once a source has completed without a value no tuple
    # can ever be produced: completing from then on is admissible (left open), at the latest when all completed.
    if any(d and v is NOVAL for v, d in zip(vals, done)):
        alts.append((TERM, outs + [("C", None)], ()))
    return alts


def m_with_latest_from(state, n, i, kind, value):
    vals = state if state is not None else (NOVAL,) * (n - 1)
    if kind == "E":
        return [(TERM, [("E", value)], ())]
    if i == 0:
        if kind == "C":
            return [(TERM, [("C", None)], ())]
        if all(v is not NOVAL for v in vals):
            return [(vals, [("N", (value,) + tuple(v[0] for v in vals))], ())]
        return [(vals, [], ())]
    if kind == "N":
        vals = vals[: i - 1] + ((value,),) + vals[i:]
    return [(vals, [], ())]


def m_fork_join(state, n, i, kind, value):
    vals, done = state if state is not None else ((NOVAL,) * n, (False,) * n)
    if kind == "E":
        return [(TERM, [("E", value)], ())]
    if kind == "N":
        return [((vals[:i] + ((value,),) + vals[i + 1:], done), [], ())]
    done = done[:i] + (True,) + done[i + 1:]
    if vals[i] is NOVAL:
        return [(TERM, [("C", None)], ())]
    if all(done):
        return [(TERM, [("N", tuple(v[0] for v in vals)), ("C", None)], ())]
    return [((vals, done), [], ())]


def m_amb(state, n, i, kind, value):
    winner = state  # None until the first notification
    released = ()
    if winner is None:
        winner = ("W", i)
        released = tuple(j for j in range(n) if j != i)
    elif winner[1] != i:
        return [(winner, [], ())]
    if kind == "N":
        return [(winner, [("N", value)], released)]
    return [(TERM, [(kind, value)], released)]


MODELS = {"zip": m_zip, "combine_latest": m_combine_latest, "with_latest_from": m_with_latest_from, "fork_join": m_fork_join, "amb": m_amb}


def visible(hot, tl):
    """Events the operator can see: (abs time, kind, value-or-error-marker) of one source.  Offset None (cold only) =
    delivered synchronously inside subscribe, i.e. in the subscription instant."""
    out = []
    for (t, k, v) in tl:
        at = SUB if t is None else SUB + t
        if at > SUB or (t is None and not hot):
            out.append((at, k, v))
        if k in "EC":
            break
    return out


def admissible(op, sources):
    """Closure (R3): set of (outs, lo, hi): outs = ((t, kind, normvalue), ..), lo/hi = per-source bounds of the
    instant at which its subscription is closed."""
    model = MODELS[op]
    n = len(sources)
    evs = [visible(h, tl) for (h, tl) in sources]
    instants = sorted({e[0] for s in evs for e in s})
    # configuration: (state, outs, lo, hi); lo[i]/hi[i] None = subscription of source i still open
    start = (None, (), (None,) * n, (None,) * n)
    frontier = {start}
    for t in instants:
        pend = [[e for e in s if e[0] == t] for s in evs]
        seen = set()
        out_configs = set()
        stack = [(c, (0,) * n) for c in frontier]
        while stack:
            cfg, ptr = stack.pop()
            if (cfg, ptr) in seen:
                continue
            seen.add((cfg, ptr))
            progressed = False
            for i in range(n):
                if ptr[i] < len(pend[i]):
                    progressed = True
                    (_, kind, value) = pend[i][ptr[i]]
                    nptr = ptr[:i] + (ptr[i] + 1,) + ptr[i + 1:]
                    state, outs, lo, hi = cfg
                    if state == TERM or hi[i] is not None:
                        # not subscribed any more (output terminated or released): the event is not delivered
                        stack.append((cfg, nptr))
                        continue
                    val = ("E", i) if kind == "E" else value
                    for (st2, o2, rel) in model(state, n, i, kind, val):
                        outs2 = outs + tuple((t, k, (v if k == "E" else (vt.norm_value(v) if k == "N" else None))) for (k, v) in o2)
                        lo2, hi2 = list(lo), list(hi)
                        if kind in "EC" and lo2[i] is None:
                            lo2[i] = t  # own terminal: the subscription may be (and in this library is) closed from now on
                        for j in rel:
                            if hi2[j] is None:
                                hi2[j] = t
                                if lo2[j] is None:
                                    lo2[j] = t
                        if st2 == TERM:
                            for j in range(n):
                                if hi2[j] is None:
                                    hi2[j] = t
                                    if lo2[j] is None:
                                        lo2[j] = t
                        stack.append(((st2, outs2, tuple(lo2), tuple(hi2)), nptr))
            if not progressed:
                out_configs.add(cfg)
        frontier = out_configs
    res = set()
    for (state, outs, lo, hi) in frontier:
        lo = tuple(HORIZON if x is None else x for x in lo)
        hi = tuple(HORIZON if x is None else x for x in hi)
        res.add((outs, lo, hi))
    return res


# ------------------------------------------------------------------ running the real operator

def build(op, form, srcs):
    import reactivex
    from reactivex import operators as ops

    if form == "factory":
        return getattr(reactivex, op)(*srcs)
    if op == "amb":
        return srcs[0].pipe(*[ops.amb(s) for s in srcs[1:]])
    return srcs[0].pipe(getattr(ops, op)(*srcs[1:]))


def observe(op, form, sources):
    env = vt.Env(budget=5000)
    srcs = []
    for i, (hot, tl) in enumerate(sources):
        if hot:
            srcs.append(env.hot(f"s{i}", [(SUB + t, k, v) for (t, k, v) in tl]))
        else:
            srcs.append(env.cold(f"s{i}", tl))
    rec = env.recorder("out")
    env.subscribe_at(SUB, lambda: build(op, form, srcs), rec)
    status = env.run()
    outs = []
    for (t, k, v) in rec.events():
        if k == "N":
            outs.append((t, k, vt.norm_value(v)))
        elif k == "E":
            tag = v.tag if isinstance(v, vt.SrcError) else None
            i = int(tag[0][1:]) if isinstance(tag, tuple) and isinstance(tag[0], str) and tag[0][:1] == "s" else repr(v)
            outs.append((t, k, ("E", i)))
        else:
            outs.append((t, k, None))
    return env, srcs, rec, status, tuple(outs)


def show_outs(outs):
    def one(e):
        t, k, v = e
        if k == "N":
            return f"{t:g}:{show_val(v)}"
        if k == "E":
            return f"{t:g}:#s{v[1]}" if isinstance(v, tuple) else f"{t:g}:#{v}"
        return f"{t:g}:|"

    return "[" + " ".join(one(e) for e in outs) + "]"


def show_val(v):
    if isinstance(v, tuple) and len(v) == 2 and v[0] in ("tuple", "list"):
        return "(" + ",".join(show_val(x) for x in v[1]) + ")"
    if isinstance(v, tuple) and len(v) == 2:
        return repr(v[1])
    return repr(v)


def judge(op, form, sources):
    """-> (problems [(class, text)], nontrivial, outcome string, n members)."""
    n = len(sources)
    exp = admissible(op, sources)
    env, srcs, rec, status, outs = observe(op, form, sources)
    problems = []
    if status != "ok":
        problems.append(("budget", "run did not finish within the action budget"))
    if env.sched.escaped:
        problems.append(("escaped", f"exception escaped into the scheduler: {env.sched.escaped[0][1]!r}"))
    g = rec.grammar_violation()
    if g:
        problems.append(("grammar", g))
    # subscription log
    closes = []
    for i, s in enumerate(srcs):
        if not s.subs:
            closes.append(SUB)  # never subscribed = released from the start (only admissible if it had to be released by then)
        elif len(s.subs) != 1 or s.subs[0]["sub_time"] != SUB:
            problems.append(("subscribe", f"source {i} subscribed {[x['sub_time'] for x in s.subs]} (expected once at {SUB})"))
            closes.append(None)
        else:
            closes.append(s.subs[0]["unsub_time"])
    closes = tuple(closes)

    def interval_ok(m):
        return all(c is not None and m[1][i] <= c <= m[2][i] for i, c in enumerate(closes))

    if not any(m[0] == outs and interval_ok(m) for m in exp):
        same_n = [m for m in exp if [e for e in m[0] if e[1] == "N"] == [e for e in outs if e[1] == "N"]]
        same_out = [m for m in exp if m[0] == outs]
        exp_txt = " | ".join(sorted(show_outs(m[0]) for m in exp))
        if not same_n:
            problems.append(("elements", f"elements differ: expected one of {{{exp_txt}}} got {show_outs(outs)}"))
        elif not same_out:
            problems.append(("termination", f"termination differs: expected one of {{{exp_txt}}} got {show_outs(outs)}"))
        else:
            want = " | ".join(sorted({" ".join(f"s{i}:[{a:g},{b:g}]" for i, (a, b) in enumerate(zip(m[1], m[2]))) for m in same_out}))
            # which side is wrong: closed too late (not released) or too early
            late = any(all(c is None or c >= m[1][i] for i, c in enumerate(closes)) for m in same_out)  # None = never closed
            cls = "not-released" if late else "released-early"
            problems.append((cls, f"source subscriptions closed at {closes}, expected within {want}; output {show_outs(outs)}"))
    delivered = sum(1 for (h, tl) in sources if visible(h, tl))
    nontrivial = delivered >= min(2, n) and any(m[0] for m in exp)
    outcome = f"{show_outs(outs)} closes={closes}"
    return problems, nontrivial, outcome, len(exp)


def signature(op, problems):
    return f"{op}|{problems[0][0]}"


# ------------------------------------------------------------------ enumeration

def value_alphabets(seed):
    """Per source position: the two values that play a, b (distinct across sources)."""
    r = seed % 3
    if r == 0:
        return [(10 * i + 1, 10 * i + 2) for i in range(4)]
    if r == 1:  # falsy values, distinct by type-and-==
        return [(None, 0), (False, ""), (0.0, ()), (b"", frozenset())]
    return [(f"a{i}", f"b{i}") for i in range(4)]


def shapes(N, nvals, sit, terminals=("C", "E", None)):
    """Abstract timelines: (value indices, terminal, terminal in the same instant as the last element)."""
    for n in range(N + 1):
        for vals in itertools.product(range(nvals), repeat=n):
            for term in terminals:
                yield (vals, term, False)
                if sit and n and term is not None:
                    yield (vals, term, True)


def concrete(shape, shift, alpha):
    vals, term, sit = shape
    if shift == "sync":  # everything delivered inside subscribe()
        return [(None, "N", alpha[v]) for v in vals] + ([(None, term, "E" if term == "E" else None)] if term is not None else [])
    tl = [(10 * (k + 1) + shift, "N", alpha[v]) for k, v in enumerate(vals)]
    if term is not None:
        tl.append((10 * (len(vals) + (0 if sit else 1)) + shift, term, "E" if term == "E" else None))
    return tl


def source_menu(N, nvals, sit, pos, alphas, hot_modes, shiftpol="full"):
    """All (hot, timeline) choices for the source at position `pos`."""
    out = []
    for hot in hot_modes:
        if shiftpol == "lag":  # a source lagging behind the others' completions (backlogs build up)
            shifts = (0, 25)
        else:
            shifts = (0, 5) if shiftpol == "grid" else ((0, 5, -15) if hot else (0, 5, "sync"))
        for sh in shapes(N, nvals, sit):
            for shift in shifts:
                if shift != 0 and sh[2]:
                    continue  # same-instant terminal variants only on the base grid
                if shift in (-15, "sync") and not sh[0] and sh[1] is None:
                    continue  # identical to the unshifted silent source
                out.append((hot, concrete(sh, shift, alphas[pos])))
    return out


def plan(tier):
    """[(operators, arities, N elements, values, same-instant terminal variants, hot/cold pattern policy, shift policy)]
    shift policy: full = cold {0,+5,sync} / hot {0,+5,-15}; grid = {0,+5} only."""
    if tier == "quick":
        return [
            (OPS, (1, 2), 2, 2, True, "all", "full"),
            (OPS, (3,), 1, 1, False, "uniform", "full"),
            (("zip", "combine_latest", "fork_join"), (3,), 2, 1, False, "uniform", "lag"),
        ]
    return [
        (OPS, (1, 2), 2, 2, True, "all", "full"),
        (OPS, (3,), 2, 2, False, "uniform", "grid"),
        (OPS, (3,), 1, 2, True, "all", "full"),
        (("zip", "combine_latest"), (4,), 1, 1, False, "uniform", "full"),
        (OPS, (3,), 2, 1, False, "uniform", "lag"),
    ]


FALSY_PLAN = [(OPS, (2,), 2, 2, False, "uniform", "grid")]


def all_cases(tier, seed):
    yield from cases_for(plan(tier), value_alphabets(seed))
    if seed % 3 != 1:
        # whatever the seed chose, two-source cases over *falsy* elements are always covered (None, 0, False, "" as last / only
        # values: the "has this source produced a value" shortcut)
        yield from cases_for(FALSY_PLAN, value_alphabets(1))


def cases_for(plan_, alphas):
    for (ops_, arities, N, nvals, sit, hotpol, shiftpol) in plan_:
        for n in arities:
            menus_cold = [source_menu(N, nvals, sit, p, alphas, (False,), shiftpol) for p in range(n)]
            menus_hot = [source_menu(N, nvals, sit, p, alphas, (True,), shiftpol) for p in range(n)]
            if hotpol == "all":
                patterns = list(itertools.product((False, True), repeat=n))
            else:
                patterns = [(False,) * n, (True,) * n]
            for pat in patterns:
                menus = [menus_hot[p] if pat[p] else menus_cold[p] for p in range(n)]
                for combo in itertools.product(*menus):
                    for op in ops_:
                        for form in FORMS:
                            if form == "operator" and op == "amb" and n == 1:
                                continue
                            yield (op, form, combo)


def shard(part: core.Part, shard_i, nshards, tier, seed, deadline):
    for (op, form, sources) in core.shard_iter(all_cases(tier, seed), shard_i, nshards):
        if part.evals % 256 == 0 and time.time() > deadline:
            part.complete = False
            return
        problems, nontrivial, outcome, members = judge(op, form, sources)
        key = (op, form, repr(sources))
        smp = {"op": op, "form": form, "sources": describe(sources), "observed": outcome, "admissible_observations": members} if (nontrivial and members > 1) else None
        part.case(key, nontrivial, outcome=(op, outcome), sample=smp)
        part.count("op:" + op)
        part.count(f"arity:{len(sources)}")
        if members > 1:
            part.count("cases_with_ties(>1 admissible observation)")
        if problems:
            case = {"op": op, "form": form, "sources": [[bool(h), [list(e) for e in tl]] for (h, tl) in sources], "seed": seed, "tier": tier}
            part.violation(signature(op, problems), f"{op}/{form} on {describe(sources)}: {problems[0][1]}", case, problems=[p[1] for p in problems])


def describe(sources):
    def one(h, tl):
        return ("hot" if h else "cold") + "[" + " ".join(f"{'sync' if t is None else t}:{'|' if k == 'C' else ('#' if k == 'E' else repr(v))}" for (t, k, v) in tl) + "]"

    return ", ".join(one(h, tl) for (h, tl) in sources)


def run(ctx: core.Ctx):
    ctx.bounds = {
        "plan": [
            {"operators": list(o), "arities": list(a), "max_elements_per_source": N, "values_per_source": nv,
             "terminal_in_same_instant_as_last_element": sit, "hot_cold_patterns": hp, "shifts": sp}
            for (o, a, N, nv, sit, hp, sp) in plan(ctx.tier)
        ],
        "shift_policies": "full = cold 0,+5,sync(all inside subscribe) / hot 0,+5,-15; grid = 0,+5; lag = 0,+25 (a source lagging behind the others' completions)",
        "forms": list(FORMS),
    }
    ctx.assumptions = [
        "VirtualTimeScheduler queue discipline (checked separately by C28/C29)",
        "harness LoggedCold/LoggedHot sources are conforming",
        "combine_latest: the statement does not say when it completes; accepted: when all sources completed, or earlier once a source "
        "completed without a value; with_latest_from completes with its primary; errors of any source are forwarded at once",
    ]
    pair_ilv.run_part(ctx)  # E3: every source on its own thread
    part = ctx.sharded(shard)
    ctx.cov["operators_covered"] = sorted(k[3:] for k in part.counters if k.startswith("op:"))


def replay(case):
    if isinstance(case, dict) and str(case.get("harness", "")).startswith("pair-threads|"):
        return pair_ilv.replay(case)
    sources = tuple((bool(h), [tuple(e) for e in tl]) for (h, tl) in case["sources"])
    # JSON turned tuples inside values into lists/strings: re-create values from the seed's alphabets by position
    alphas = value_alphabets(case.get("seed", 0))
    fixed = []
    for i, (h, tl) in enumerate(sources):
        byrepr = {repr(core.jsonable(v)): v for v in alphas[i]}
        fixed.append((h, [(t, k, (byrepr.get(repr(v), v) if k == "N" else v)) for (t, k, v) in tl]))
    sources = tuple(fixed)
    problems, _, outcome, members = judge(case["op"], case["form"], sources)
    print(f"{case['op']}/{case['form']} on {describe(sources)}")
    print("observed:", outcome)
    print("admissible:", " | ".join(sorted(f"{show_outs(m[0])} closes {m[1]}..{m[2]}" for m in admissible(case["op"], sources))))
    return [{"signature": signature(case["op"], problems), "what": problems[0][1], "detail": [p[1] for p in problems]}] if problems else []
