"""C19 Grouping routes each element to exactly one live group (E1, bounded-exhaustive).

Enumerated completely per tier: every instance of the tables below (group_by / group_by_until
with key functions producing 1, 2 and N keys, element mappers, duration selectors {never,
15, 20, 25, only-the-first-key} firing by an element / by completing / as the library's own
timer; partition / partition_indexed with every predicate of the catalogue and the three
subscription policies) x every timeline of TL(N, alphabet) with bursts, same-instant terminals
and terminals {completed, error, never}.

Groups: a recorder is subscribed to every group inside its emission step; the observation
(key, open instant, elements with instants, end instant, end kind per group, in emission order)
must be admitted by the reference model of the statement under R3 (an element arriving in the
instant its group's duration fires may go to the old or to a new group).  Partition: each output
must be exactly the predicate's split of the source, followed by the source's terminal.
"""
from __future__ import annotations

import time

from .. import core, group_ilv, vt
from .. import c1819_lib as L

PROPERTY = "C19"
LEVEL = "exploration"
META = {
    "engine": "vtx",
    "technique": "bounded-exhaustive enumeration of (grouping instance, timeline) on virtual time; every emitted group is subscribed in "
    "its emission step; observation judged by membership in the set produced by a nondeterministic reference simulator "
    "(all orders of an element and a group expiry in the same instant); partition judged by the predicate's split; plus stateless exhaustive exploration of thread interleavings (bounded preemptions) of "
    "group_by_until with the durations firing on another thread than the source",
    "text": "group_by and group_by_until (1, 2, N keys incl. falsy keys; element mappers; durations never/15/20/25/per-key/derived from the group, closing by "
    "element, by completion and by reactivex.timer on the virtual scheduler) and partition/partition_indexed (all catalogue "
    "predicates, both/first-only/second-only subscribed) are executed on every timeline of the tier; each group's key, open "
    "instant, elements with instants, end instant and end kind are compared with the statement's rule; exhaustive within the bound",
    "note": "trusted: CPython, the harness in /verif/vf (vt.py, c1819_lib.py), the reference model, VirtualTimeScheduler's queue "
    "discipline (C28/C29). Not covered: durations that fire synchronously at subscription (statement silent), duration observables "
    "that fail, custom subject_mapper, groups subscribed late or never, partition outputs subscribed at different instants.",
}
META["text"] += "; thread part: group_by_until with the durations firing on another thread than the source: every element in exactly one group of its key, every group and the result terminated"
RULE = (
    "all (instance, timeline): instance from the tier's tables (operator x key function x element mapper x duration selector, or "
    "partition x predicate x subscription policy), timeline in TL(N, alphabet) with bursts and same-instant terminals, terminal in "
    "{C, E, never}; non-trivial = the source emitted >=1 element and (>=2 groups were emitted or a group expired before the source's "
    "terminal), for partition: >=1 element reached an output; distinct = (instance, timeline)"
)
BUDGET = {"quick": 300.0, "thorough": 2400.0}


# ------------------------------------------------------------------ catalogues

def key_fns(alpha):
    A = alpha[0]
    return {
        "const": lambda x: "k",          # 1 key
        "isA": lambda x: x == A,          # 2 keys (True / False)
        "id": lambda x: x,                # N keys (the alphabet; contains falsy values for some seeds)
        "pair": lambda x: (x == A, 0),    # structured keys
    }


ELEM_FNS = {"none": None, "tag": lambda x: (x, "m")}


def preds(alpha):
    A = alpha[0]
    return {"eqA": lambda x: x == A, "neA": lambda x: x != A, "T": lambda x: True, "F": lambda x: False,
            "int": lambda x: 0 if x == A else 2}  # non-bool results: partition must go by truthiness


def ipreds(alpha):
    A = alpha[0]
    return {"ieven": lambda x, i: i % 2 == 0, "i<1": lambda x, i: i < 1, "eqA-or-i=2": lambda x, i: x == A or i == 2, "i": lambda x, i: i}


def alphabet(tier, seed):
    n = 2 if tier == "quick" else 3
    k = seed % 3
    base = [(0, 1, 2), ("a", "b", "c"), (None, 7, 0)][k]
    return tuple(base[:n])


def instances(tier):
    q = tier == "quick"
    keys = ("const", "isA", "id") if q else ("const", "isA", "id", "pair")
    for k in keys:
        for e in ("none", "tag"):
            yield {"op": "group_by", "key": k, "elem": e}
    # durations: d = relative due time of the group's duration observable (None = never), ck = how it fires
    # ck "G": the duration is derived from the group itself (group.pipe(skip(99)): it never fires, and it *ends when the group
    # ends* - the common `lambda g: g.pipe(debounce(...))` shape); by the statement it behaves like a duration that never fires
    durs = [{"d": None, "ck": "N", "by": "all"}, {"d": 15, "ck": "N", "by": "all"}, {"d": 25, "ck": "C", "by": "all"},
            {"d": 20, "ck": "N", "by": "all"}, {"d": 15, "ck": "T", "by": "first"}, {"d": None, "ck": "G", "by": "all"}]
    if not q:
        durs += [{"d": 20, "ck": "C", "by": "all"}, {"d": 25, "ck": "T", "by": "all"}, {"d": 10, "ck": "N", "by": "all"},
                 {"d": 30, "ck": "N", "by": "first"}, {"d": 5, "ck": "C", "by": "all"}]
    for k in keys:
        for e in ("none", "tag"):
            for d in durs:
                yield {"op": "group_by_until", "key": k, "elem": e, "dur": d}
    # the stream of groups cut by take(n) while the groups handed out stay subscribed
    for k in ("isA", "id"):
        for n in (1, 2):
            yield {"op": "group_by", "key": k, "elem": "none", "take": n}
            yield {"op": "group_by_until", "key": k, "elem": "none", "dur": {"d": 15 if n == 1 else None, "ck": "N", "by": "all"}, "take": n}
    for pol in ("both", "first", "second"):
        for p in ("eqA", "neA", "T", "F", "int"):
            if q and pol != "both" and p not in ("eqA", "int"):
                continue
            yield {"op": "partition", "pred": p, "policy": pol}
        for p in ("ieven", "i<1", "eqA-or-i=2", "i"):
            if q and pol != "both" and p != "ieven":
                continue
            yield {"op": "partition_indexed", "pred": p, "policy": pol}


def bounds(tier):
    return {"N": 4, "alphabet_size": 2} if tier == "quick" else {"N": 5, "alphabet_size": 3}


def timelines(tier, seed):
    N = bounds(tier)["N"]
    return list(vt.timelines(N, alphabet(tier, seed), terminals=("C", "E", None), bursts=True, same_instant_terminal=True))


NONE_ALPHA = (None, 7, 0)


def all_cases(tier, seed):
    alpha = alphabet(tier, seed)
    tls = timelines(tier, seed)
    for inst in instances(tier):
        for tl in tls:
            yield inst, tl, alpha
    if None not in alpha:
        # whatever the seed, elements whose *key is None* are always covered (key = identity over an alphabet containing None)
        a2 = NONE_ALPHA[: len(alpha)]
        N = bounds(tier)["N"]
        tls2 = list(vt.timelines(N, a2, terminals=("C", "E", None), bursts=True, same_instant_terminal=True))
        for inst in instances(tier):
            if inst.get("key") == "id":
                for tl in tls2:
                    yield inst, tl, a2


# ------------------------------------------------------------------ reference model

class GroupModel(L.Model):
    """A group is created by the first element of a key that has no live group; every element goes
    to the live group of its key; a group whose duration fires completes and is no longer live."""

    def __init__(self, keyf, elemf, dur_of, outer_take=None):
        self.keyf, self.elemf, self.dur_of, self.outer_take = keyf, elemf, dur_of, outer_take

    def on_next(self, st, t, v):
        k = L.nv(self.keyf(v))
        j = st.x.get(("g", k))
        if j is None:
            if self.outer_take is not None and st.x.get("opened", 0) >= self.outer_take:
                # the stream of groups was cut by take(n): no further group reaches the subscriber, the element is dropped;
                # groups handed out before stay alive and keep receiving their elements
                return
            st.x["opened"] = st.x.get("opened", 0) + 1
            j = st.open(t, key=k)
            st.x[("g", k)] = j
            d = self.dur_of(self.keyf(v))
            st.x[("due", j)] = None if d is None else L.rt(t + d)
        st.w[j][2].append((L.rt(t), L.nv(self.elemf(v) if self.elemf else v)))

    def timers(self, st):
        return [(st.x[("due", j)], ("expire", j)) for j in st.live if st.x[("due", j)] is not None]

    def on_timer(self, st, tid, t):
        j = tid[1]
        st.close(j, t, "C")
        del st.x[("g", st.w[j][1])]


def dur_fn(inst, alpha):
    d = inst.get("dur") or {"d": None, "by": "all"}
    first_key = L.nv(key_fns(alpha)[inst["key"]](alpha[0]))

    def dur_of(key):
        if d["d"] is None:
            return None
        if d["by"] == "first" and L.nv(key) != first_key:
            return None
        return d["d"]

    return dur_of


# ------------------------------------------------------------------ real pipelines

def make_group(inst, alpha):
    import reactivex
    from reactivex import operators as ops

    keyf = key_fns(alpha)[inst["key"]]
    elemf = ELEM_FNS[inst["elem"]]
    dur_of = dur_fn(inst, alpha)

    def build(env, src):
        if inst["op"] == "group_by":
            op = ops.group_by(keyf, elemf) if elemf else ops.group_by(keyf)
        else:
            n = [0]
            ck = inst["dur"]["ck"]

            def duration(group):
                d = dur_of(group.key)
                n[0] += 1
                if ck == "G":
                    return group.pipe(ops.skip(99))
                if d is None:
                    return env.cold("dur%d" % n[0], [])
                if ck == "T":
                    return reactivex.timer(d, scheduler=env.sched)
                return env.cold("dur%d" % n[0], [(d, ck, 0 if ck == "N" else None)])

            op = ops.group_by_until(keyf, elemf, duration)
        if inst.get("take"):
            return src.pipe(op, ops.take(inst["take"]))
        return src.pipe(op)

    return build, GroupModel(keyf, elemf, dur_of, inst.get("take"))


def horizon_for(tl):
    last = max([t for (t, _k, _v) in tl] + [0])
    return L.SUB + last + 67


def judge_group(inst, tl, alpha):
    build, model = make_group(inst, alpha)
    H = horizon_for(tl)
    env, src, out, inner, status = L.observe_nested(build, tl, H)
    observed = L.segments(inner, keyed=True)
    probs = []
    if status != "ok":
        probs.append(("no-termination", "run exceeded the action budget"))
    for r in [out] + [x[3] for x in inner]:
        g = r.grammar_violation()
        if g:
            probs.append(("grammar", g))
            break
    if env.sched.escaped:
        probs.append(("exception-escaped", f"exception escaped into the scheduler: {env.sched.escaped[0][1]!r}"))
    e = L.error_identity_problem(src, [x[3] for x in inner])
    if e:
        probs.append(("error-identity", e))
    for (_t, _s, w, _r) in inner:
        if not hasattr(w, "key"):
            probs.append(("key", f"emitted group {w!r} has no key"))
            break
    src_ev = L.abs_events(tl)
    ok = L.admissible(model, src_ev, observed, L.SUB, H)
    tie = L.has_tie(model, src_ev, L.SUB, H)
    if not ok:
        exp = L.canonical(model, src_ev, L.SUB, H)
        label = L.classify(exp, observed).replace("window", "group")
        probs.append((label, f"observed {L.show_segs(observed)}; not admitted by the rule ({label}), e.g. {L.show_segs(exp)}"))
    term = next(((L.rt(t), k) for (t, k, v) in src_ev if k in "CE"), None)
    n_el = sum(1 for x in tl if x[1] == "N")
    expired = any(s[3] is not None and (term is None or s[3] < term[0]) for s in observed)
    nontrivial = n_el >= 1 and (len(observed) >= 2 or expired)
    return probs, L.show_segs(observed), nontrivial, tie


def judge_partition(inst, tl, alpha):
    from reactivex import operators as ops

    indexed = inst["op"] == "partition_indexed"
    pred = (ipreds(alpha) if indexed else preds(alpha))[inst["pred"]]
    H = horizon_for(tl)
    env = vt.Env(budget=8000)
    src = env.cold("src", tl)
    recs = [env.recorder("true"), env.recorder("false")]
    subscribed = {"both": (0, 1), "first": (0,), "second": (1,)}[inst["policy"]]

    def go():
        outs = src.pipe((ops.partition_indexed if indexed else ops.partition)(pred))
        if not (isinstance(outs, (list, tuple)) and len(outs) == 2):
            raise TypeError("partition did not return two observables")
        for i in subscribed:
            recs[i].subscription = outs[i].subscribe(recs[i], scheduler=env.sched)

    env.at(L.SUB, go)
    status = env.run(H)
    probs = []
    if status != "ok":
        probs.append(("no-termination", "run exceeded the action budget"))
    if env.sched.escaped:
        probs.append(("exception-escaped", f"exception escaped into the scheduler: {env.sched.escaped[0][1]!r}"))
    src_ev = L.abs_events(tl)
    elems = [(L.rt(t), v) for (t, k, v) in src_ev if k == "N"]
    term = next(((L.rt(t), k) for (t, k, v) in src_ev if k in "CE"), None)
    shown = []
    for i in (0, 1):
        act = [(L.rt(t), k, (L.nv(v) if k == "N" else None)) for (t, k, v) in recs[i].events()]
        shown.append(show_flat(act))
        if i not in subscribed:
            continue
        side = (i == 0)
        exp = [(t, "N", L.nv(v)) for idx, (t, v) in enumerate(elems) if bool(pred(v, idx) if indexed else pred(v)) == side]
        if term:
            exp.append((term[0], term[1], None))
        g = recs[i].grammar_violation()
        if g:
            probs.append(("grammar", g))
        if act != exp:
            en, an = [e for e in exp if e[1] == "N"], [a for a in act if a[1] == "N"]
            label = "elements" if en != an else "terminal"
            probs.append((label, f"output {i} ({'predicate true' if side else 'predicate false'}) got {show_flat(act)}, the split is {show_flat(exp)}"))
        t = recs[i].terminal()
        if t and t[2] == "E" and not any(t[3] is e for e in src.errors.values()):
            probs.append(("terminal", f"output {i} ended with {t[3]!r}, not the source's error"))
    nontrivial = any(r.counts["N"] for r in recs)
    return probs, " / ".join(shown), nontrivial, False


def show_flat(ev):
    return "[" + " ".join(f"{t:g}:{L._sv(v)}" if k == "N" else f"{t:g}:{'|' if k == 'C' else '#'}" for (t, k, v) in ev) + "]"


def judge(inst, tl, alpha):
    if inst["op"].startswith("partition"):
        return judge_partition(inst, tl, alpha)
    return judge_group(inst, tl, alpha)


def inst_id(inst):
    if inst["op"].startswith("partition"):
        return f"{inst['op']}:{inst['pred']}:{inst['policy']}"
    d = inst.get("dur")
    ds = "" if d is None else f":d={d['d']}/{d['ck']}/{d['by']}"
    return f"{inst['op']}:{inst['key']}:{inst['elem']}{ds}"


COLLAPSE = {"missing-group", "extra-group", "open-instant", "contents", "close-instant", "terminal-kind", "order", "key"}


def signature(inst, label):
    if label in COLLAPSE:
        label = "groups-differ-from-rule"
    if inst["op"].startswith("partition"):
        return f"{inst['op']}|{inst['pred']}|{label}"
    d = inst.get("dur")
    dshape = "" if d is None else ("|never" if d["d"] is None else "|expiring")
    return f"{inst['op']}|keys={inst['key']}{dshape}{'|outer-take' if inst.get('take') else ''}|{label}"


def shard(part: core.Part, shard_i, nshards, tier, seed, deadline):
    n = 0
    for (inst, tl, alpha) in core.shard_iter(all_cases(tier, seed), shard_i, nshards):
        n += 1
        if n % 128 == 0 and time.time() > deadline:
            part.complete = False
            return
        probs, shown, nontrivial, tie = judge(inst, tl, alpha)
        iid = inst_id(inst)
        part.case((iid, repr(tl)), nontrivial, outcome=(inst["op"], shown), sample={"instance": inst, "timeline": tl, "observed": shown})
        part.count("op:" + inst["op"])
        if tie:
            part.count("cases_with_same_instant_tie")
        for (label, text) in probs:
            part.violation(signature(inst, label), f"{iid} on {tl}: {text}",
                           {"instance": inst, "timeline": tl, "alphabet": list(alpha), "tier": tier, "seed": seed}, problems=probs)


def run(ctx: core.Ctx):
    b = bounds(ctx.tier)
    insts = list(instances(ctx.tier))
    ctx.bounds = dict(b, alphabet=repr(alphabet(ctx.tier, ctx.seed)), instances=len(insts), timelines=len(timelines(ctx.tier, ctx.seed)),
                      per_operator={o: sum(1 for i in insts if i["op"] == o) for o in ("group_by", "group_by_until", "partition", "partition_indexed")})
    ctx.assumptions = [
        "VirtualTimeScheduler queue discipline (checked separately by C28/C29)",
        "harness cold sources are conforming; every group is subscribed in its emission step",
        "R3: an element arriving in the instant its group's duration fires may be delivered before or after the expiry",
    ]
    group_ilv.run_part(ctx)  # E3: durations firing on another thread than the source
    part = ctx.sharded(shard)
    ctx.cov["operators_covered"] = sorted(k[3:] for k in part.counters if k.startswith("op:"))


def replay(case):
    if isinstance(case, dict) and str(case.get("harness", "")).startswith("group-threads|"):
        return group_ilv.replay(case)
    inst = case["instance"]
    tl = [tuple(x) for x in case["timeline"]]
    alpha = tuple(case["alphabet"])
    probs, shown, _nt, _tie = judge(inst, tl, alpha)
    print("observed:", shown)
    return [{"signature": signature(inst, label), "what": text, "detail": [list(x) for x in probs]} for (label, text) in probs]
