"""C09 Exceptions raised by user callbacks are delivered as on_error (E1, fault enumeration).

Enumerated completely per tier:

  programs   every instance of the shared catalogue Omega and of the C09 extra list (vf/c09_lib.py) that has at least
             one probed callback slot of the kinds the statement names (mapper, predicate, key selector, comparer,
             accumulator, duration/closing selector, factory, condition; the error handler of catch is counted as the
             factory of the continuation); plus "root" programs whose callbacks run at subscribe time or on the
             scheduler: defer, using, case, if_then, on_error_resume_next with a factory source, catch handler,
             generate, generate_with_relative_time, for_in, from_callback mapper.
             quick: each program alone.  thorough: additionally every program behind each of 26 value-preserving
             upstream stages (UPSTREAM: they change who the emitter is - a timer action, observe_on's scheduled observer,
             a subject of share/group_by, an inner source, a resubscription) and in front of each of 8 downstream stages
             that forward an error at once and unchanged (DOWNSTREAM), and depth 3 = UPSTREAM3 x program x DOWNSTREAM3.
  sources    hot test observable (LoggedHot: its emitter records what observers raise); a real Subject driven by
             harness actions (each subject.on_next/on_error/on_completed wrapped in try/except that records what
             propagates); cold (LoggedCold: the scheduler runs the emitter, so what propagates lands in the scheduler's
             escape log); and - single-stage programs only - a cold source that delivers its whole timeline
             synchronously inside subscribe()
  timelines  3 (quick) / 9 (thorough) structural timelines incl. error-terminated, never-ending, empty, burst and
             terminal in the instant of the last element
  faults     for every probed slot of those kinds of the focus program and every k <= min(invocations of the slot in
             the fault-free run of the same case, 2 quick / 4 thorough): the k-th invocation raises Injected

Oracle per faulted run (I = the injected exception instance, t/step = instant/step of the injection):
  (a) nothing propagated: no emitter caught anything, no exception escaped a scheduled action
  (b) the outer recorder's terminal is on_error(I) - identity - at virtual time t
  (c) R1 grammar on the outer and on every inner recorder; every window/group handed to the subscriber (each is
      subscribed at once by an inner recorder) has terminated by t as well ("the pipeline stops"); every source
      subscription (main, extra, inner, duration) is released at an instant <= t and none is opened after the failure
  (d) no probe of the pipeline is invoked after the failure (probe_log step > step of the subscriber's on_error)
Exceptions to (b)-(d), both forced by the statement's premise rather than chosen:
  * if the subscriber had already received its terminal when the armed invocation ran (operators keep serving
    windows/groups that are still subscribed; producers finish a step after a downstream take completed) there is no
    subscriber to notify: only (a) and the grammar are judged;
  * a source that emits synchronously inside subscribe() cannot be cancelled before subscribe() returns, so callbacks
    invoked for its remaining elements are not counted under (d) (C14's subject); releases are still required.
The fault-free run of every case must itself be clean (nothing escaped, grammar holds).
"""
from __future__ import annotations

import time

from .. import c09_lib as lib
from .. import catalogue as cat
from .. import core, vt

PROPERTY = "C09"
LEVEL = "fault_enumeration"
META = {
    "engine": "vtx",
    "technique": "bounded-exhaustive fault enumeration: every (operator instance, callback slot, k-th invocation) x source kind x "
    "timeline is executed on the real operators on virtual time with the k-th callback invocation raising; emitters and "
    "the scheduler record whatever propagates into them",
    "text": "for every catalogue instance with a user callback of the kinds the statement lists (and the subscribe-time / "
    "scheduler-time callbacks of defer, using, case, if_then, on_error_resume_next factories, catch handler, generate, "
    "generate_with_relative_time, for_in, from_callback, multicast), alone and (thorough) behind/in front of a second stage, "
    "every invocation position up to the cap, hot/Subject/cold/synchronous sources and "
    "every timeline of the tier: the injected exception instance reaches the single subscriber as on_error in the instant of "
    "the injection, nothing propagates into the emitter or the scheduler, the grammar holds on outer and inner subscribers, "
    "all source subscriptions are released in that instant and no callback runs afterwards; exhaustive within the bounds",
    "note": "trusted: CPython, the harness in /verif/vf (VScheduler escape log, LoggedHot/SubjectDriven emitters, probes, "
    "Recorder), VirtualTimeScheduler's queue discipline (C28/C29); single subscriber, at most one fault per run",
}
RULE = (
    "all (program, source kind, timeline, slot, k) tuples: program = catalogue/extra instance with >=1 callback slot of the "
    "statement's kinds or a root program (subscribe-time/scheduler-time callbacks), in thorough also with one value-preserving "
    "upstream or one error-forwarding downstream stage; slot, k range over "
    "the invocations observed in the fault-free run of the same (program, source, timeline), k capped per tier; non-trivial "
    "= the armed invocation was reached and raised while the subscriber had not yet received a terminal; distinct = the "
    "tuple; fault-free baseline runs are counted as evaluations but never as non-trivial"
)
BUDGET = {"quick": 120.0, "thorough": 1200.0}

R5_KINDS = ("mapper", "predicate", "key", "comparer", "accumulator", "duration", "closing", "factory", "condition", "handler")
SOURCE_KINDS = ("hot", "subj", "cold", "sync")


def slot_kind(slot: str) -> str:
    return slot.split(".")[1]


def slot_label(slot: str) -> str:
    # s<stage>.<kind>.<label> -> <kind>.<label> (stable across stage positions)
    return slot.split(".", 1)[1]


def bounds(tier):
    if tier == "quick":
        return {"kmax": 2, "timelines": ["aba-C", "abc-E", "burst-ab-C"], "depth2": False}
    return {"kmax": 4, "timelines": ["aba-C", "abc-E", "burst-ab-C", "C-with-last", "abc-never", "a-E", "empty-C", "empty-E", "ab-C"], "depth2": True}


def seed_params(seed):
    r = seed % 3
    off = 10 * r
    alphabet = (1 + off, 2 + off, 3 + off)
    unrename = (lambda x: x - off if type(x) is int else x) if off else None
    sub = vt.SUB + 100 * (seed % 4)
    return alphabet, unrename, sub


# second stages of the thorough tier.  Upstream of the focus: value-preserving stages (the focus' callbacks still get
# the alphabet values) - they change who the emitter is (a timer action of delay/debounce/sample, observe_on's
# scheduled observer, a subject of share/window/group_by, an inner source of flat_map/merge/concat, a resubscription
# of repeat/retry/catch).  Downstream: stages that forward an error immediately and unchanged.
UPSTREAM = (
    "as_observable", "filter:neA", "take:2", "skip:1", "distinct_until_changed", "start_with:C", "take_last:1", "merge:x",
    "concat:x", "amb:x", "catch:x", "take_until:x", "flat_map", "flat_map_latest", "delay:10", "delay:0", "debounce:15",
    "sample:15", "timeout:15:other", "share", "observe_on", "subscribe_on", "repeat:2", "retry:2",
    "window_with_count:2+merge_all", "group_by+merge_all",
)
DOWNSTREAM = ("as_observable", "map:wrap", "filter:neA", "take:2", "merge:x", "share", "observe_on", "scan:list:seed")

# depth 3 (thorough): upstream x focus x downstream over small representative subsets
UPSTREAM3 = ("share", "observe_on", "delay:10", "flat_map", "retry:2", "group_by+merge_all")
DOWNSTREAM3 = ("map:wrap", "observe_on", "merge:x")

_STATIC: dict | None = None


def static_slots() -> dict:
    """program id -> sorted slot labels of the R5 kinds, found by building each program once."""
    global _STATIC
    if _STATIC is not None:
        return _STATIC
    out = {}
    ids = [(None, e.id) for e in cat.catalogue()] + [(None, i) for i in lib.extra_ops()] + [(r, None) for r in lib.roots()]
    for (root, sid) in ids:
        env = vt.Env()
        names = []
        orig = env.probe

        def probe(slot, fn, names=names, orig=orig):
            names.append(slot)
            return orig(slot, fn)

        env.probe = probe
        K = lib.Kit(env, "cold", (1, 2, 3), None, 0, vt.SUB, [])
        if root is not None:
            lib.roots()[root](K, env.cold("main", []))
        else:
            lib.entry(sid).build(K)(env.cold("main", []))  # some entries create their probes when applied
        labs = sorted({slot_label(n) for n in names if slot_kind(n) in R5_KINDS})
        if labs:
            out[root if root is not None else sid] = labs
    _STATIC = out
    return out


def programs(tier):
    """Yield (root, stages, focus) - focus = index of the stage whose slots are armed (a root is stage 0)."""
    b = bounds(tier)
    st = static_slots()
    ids = [e.id for e in cat.catalogue() if e.id in st] + [i for i in lib.extra_ops() if i in st]
    rids = [r for r in lib.roots() if r in st]
    for sid in ids:
        yield (None, (sid,), 0)
    for rid in rids:
        yield (rid, (), 0)
    if b["depth2"]:
        for sid in ids:
            for u in UPSTREAM:
                yield (None, (u, sid), 1)
            for d in DOWNSTREAM:
                yield (None, (sid, d), 0)
            for u in UPSTREAM3:
                for d in DOWNSTREAM3:
                    yield (None, (u, sid, d), 1)
        for rid in rids:
            for d in DOWNSTREAM:
                yield (rid, (d,), 0)


def base_cases(tier, seed):
    """(root, stages, focus, source_kind, timeline name): one fault-free run each; faults derive from it."""
    b = bounds(tier)
    for (root, stages, focus) in programs(tier):
        for sk in SOURCE_KINDS:
            if sk == "sync" and len(stages) + (root is not None) > 1:
                # a synchronous source cannot be cancelled: the focus stage keeps receiving elements after it has
                # completed/failed towards a second stage, which only the final subscriber's log cannot tell apart
                continue
            if root in lib.ROOT_NO_MAIN:
                if sk != "cold":
                    continue
                yield (root, stages, focus, sk, "never")
                continue
            for tn in b["timelines"]:
                yield (root, stages, focus, sk, tn)


def execute(case, arm, seed):
    alphabet, unrename, sub = seed_params(seed)
    tl = cat.TLS(*alphabet)[case[4]]
    return lib.run(list(case[1]), case[3], tl, root=case[0], arm=arm, alphabet=alphabet, unrename=unrename, sub=sub), sub


def show(R, sub):
    def ev(rec):
        out = []
        for (_, t, k, v) in rec.log:
            if k == "E":
                v = "Injected" if isinstance(v, vt.Injected) else type(v).__name__
            elif k == "N":
                v = vt.norm_value(v)[1]
            out.append((t - sub, k, v))
        return out

    return {"out": ev(R.rec), "inner": [ev(r) for r in R.inner]}


def judge_baseline(R):
    """The fault-free run of a case must itself be clean: nothing propagates into an emitter or the scheduler
    (user callbacks are total on the alphabet, so anything that escapes was raised by the library itself)."""
    if R.status != "ok":
        return [("budget", "fault-free run did not finish within the action budget")]
    problems = []
    esc, c = R.env.sched.escaped, lib.emitter_catches(R)
    if esc or c:
        where = []
        if c:
            where.append(f"{c[0][2]!r} propagated into the emitter of source {c[0][0]} at t={c[0][1]}")
        if esc:
            where.append(f"{esc[0][1]!r} escaped a scheduled action (into the scheduler) at t={esc[0][0]}")
        problems.append(("escapes", "fault-free run: " + "; ".join(where)))
    for r in [R.rec] + R.inner:
        g = r.grammar_violation()
        if g:
            problems.append(("grammar", g))
            break
    return problems


def judge_fault(R, slot, k):
    """Return list of (problem kind, text).  Empty = holds.  None = the armed invocation was not reached."""
    env = R.env
    if not env.injected:
        return None
    inj = env.injected[0]
    # step/time of the injection = the probe_log entry of (slot, k)
    istep, itime = next((s, t) for (s, t, sl, kk) in env.probe_log if sl == slot and kk == k)
    if R.status != "ok":
        return [("budget", "run did not finish within the action budget")]
    # (a) nothing propagates.  When the exception escaped, the missing on_error / unreleased subscriptions are
    # consequences of the same defect: one signature.
    c = lib.emitter_catches(R)
    esc = env.sched.escaped
    if c or esc:
        where = []
        if c:
            where.append(f"{c[0][2]!r} propagated into the emitter of source {c[0][0]} at t={c[0][1]}")
        if esc:
            where.append(f"{esc[0][1]!r} escaped a scheduled action (into the scheduler) at t={esc[0][0]}")
        term = R.rec.terminal()
        got = "nothing" if term is None else ("on_completed" if term[2] == "C" else ("on_error(injected)" if term[3] is inj else f"on_error({term[3]!r})"))
        return [("escapes", "; ".join(where) + f"; subscriber's terminal: {got}")]
    problems = []
    term = R.rec.terminal()
    if term is not None and term[0] < istep:
        # The subscriber had already got its terminal when the callback ran (the operator keeps serving windows/groups
        # that are still subscribed, or a producer finishes its step after a downstream take completed): there is no
        # subscriber left to notify.  Only (a) and the grammar are judged.
        for r in [R.rec] + R.inner:
            g = r.grammar_violation()
            if g:
                problems.append(("grammar", g))
                break
        R.post_terminal = True
        return problems
    # (b) on_error with the injected instance, in the instant of the injection
    if term is None:
        problems.append(("no-on_error", f"subscriber got no terminal (saw {R.rec.kinds()!r}) after the callback raised at t={itime}"))
    elif term[2] != "E":
        problems.append(("completed-instead", f"subscriber's terminal is on_completed at t={term[1]}, not on_error(injected)"))
    elif term[3] is not inj or term[0] < istep:
        problems.append(("other-error", f"subscriber got on_error({term[3]!r}) at t={term[1]}, not the injected instance"))
    elif term[1] != itime:
        problems.append(("late-on_error", f"on_error(injected) delivered at t={term[1]}, injection at t={itime}"))
    # (c) grammar; inner observables handed to the subscriber stop as well; releases
    for r in [R.rec] + R.inner:
        g = r.grammar_violation()
        if g:
            problems.append(("grammar", g))
            break
    t_end = itime  # C02's T': later of the outer terminal and the last inner termination
    for r in R.inner:
        t = r.terminal()
        if t is None or t[1] > itime:
            problems.append(("inner-outlives-failure", f"{r.name} (window/group handed to the subscriber) saw {r.kinds()!r} "
                             f"(terminal at t={t[1] if t else None}): it was not terminated when the pipeline failed at t={itime}"))
            break
    for r in R.inner:
        t = r.terminal()
        t_end = max(t_end, t[1] if t is not None else (r.disposed_time if r.disposed_time is not None else float("inf")))
    fail_step = term[0] if (term is not None and term[0] >= istep) else istep
    inner_alive = t_end > itime
    # A source that emits synchronously inside subscribe() cannot be cancelled before subscribe() returns (there is no
    # disposable yet): the operator goes on receiving its remaining elements after it failed.  That is C14's subject,
    # not C09's; for such a source "stops" is judged at the end of the instant (everything released), not per step.
    sync = isinstance(R.main, lib.SyncCold)
    if not inner_alive and not sync:
        for s in env.sublog:
            if s["sub_step"] > fail_step:
                problems.append(("subscribes-after-failure", f"source {s['source']} subscribed at t={s['sub_time']} after the failure at t={itime}"))
                break
    for s in env.sublog:
        if (s["sub_step"] > fail_step and not sync) or inner_alive:  # (an inner that outlives the failure is reported above, once)
            continue
        if s["unsub_time"] is None or s["unsub_time"] > itime:
            problems.append(("not-released", f"subscription to source {s['source']} (opened t={s['sub_time']}) released at t={s['unsub_time']}, failure at t={itime}"))
            break
    # (d) no user callback of the pipeline after the failure (single subscriber; inner recorders are terminated)
    if not inner_alive and not sync:
        later = [(s, t, sl, kk) for (s, t, sl, kk) in env.probe_log if s > fail_step]
        if later:
            s, t, sl, kk = later[0]
            problems.append(("callback-after-failure", f"probe {sl}#{kk} invoked at t={t} after the failure at t={itime}"))
    return problems


def prog_name(case):
    pid = case[0] if case[0] is not None else case[1][case[2]]
    if pid.startswith("x:"):
        pid = pid[2:]
    return pid.split(":")[0]


def signature(case, slot, kind):
    return f"{prog_name(case)}|{slot_label(slot)}|{kind}"


def armable(case, R):
    """Slots of the R5 kinds belonging to the focus program, with their fault-free invocation counts."""
    root, stages, focus = case[0], case[1], case[2]
    out = []
    for slot, n in sorted(R.env.probe_counts.items()):
        st = int(slot.split(".")[0][1:])
        if slot_kind(slot) not in R5_KINDS:
            continue
        # with a root the root is stage 0 and operator stages follow
        fstage = 0 if root is not None else focus
        if st != fstage:
            continue
        out.append((slot, n))
    return out


EXC_KINDS = ("StopIteration", "KeyError", "IndexError", "TypeError", "ValueError", "AttributeError", "AssertionError", "RuntimeError")


def explore_case(case, tier, seed):
    """Run baseline + every fault of one base case.  Yields records
    (kind='base'|'fault', slot, k, R, sub, problems|None)."""
    kmax = bounds(tier)["kmax"]
    R0, sub = execute(case, None, seed)
    yield ("base", None, 0, R0, sub, judge_baseline(R0))
    for slot, n in armable(case, R0):
        for k in range(1, min(n, kmax) + 1):
            R, sub = execute(case, (slot, k), seed)
            yield ("fault", slot, k, R, sub, judge_fault(R, slot, k))
        # exception classes that library code may treat specially (iterator protocol, dict/list access, call-form probing)
        if case[4] in (bounds(tier)["timelines"][0], "never") and len(case[1]) + (case[0] is not None) <= 1:
            for exc in EXC_KINDS:
                R, sub = execute(case, (slot, 1, exc), seed)
                yield ("fault:" + exc, slot, 1, R, sub, judge_fault(R, slot, 1))


def shard(part: core.Part, shard_i, nshards, tier, seed, deadline):
    for case in core.shard_iter(base_cases(tier, seed), shard_i, nshards):
        if time.time() > deadline:
            part.complete = False
            return
        prog = prog_name(case)
        pid = case[0] if case[0] is not None else case[1][case[2]]
        for (kind, slot, k, R, sub, problems) in explore_case(case, tier, seed):
            obs = show(R, sub)
            cj = {"root": case[0], "stages": list(case[1]), "focus": case[2], "source": case[3], "timeline": case[4],
                  "slot": slot, "k": k, "tier": tier, "seed": seed}
            if kind == "base":
                part.case(("base",) + tuple(case), False, outcome=("base", repr(obs)))
                part.count("baseline_runs")
                if not lib_has_slots(R, case):
                    part.count("baseline_without_reached_slot")
                for (pk, text) in problems:
                    part.violation(f"{prog}|baseline|{pk}", f"{prog} on {case[3]} source, timeline {case[4]}: {text}", cj, observed=obs)
                continue
            if problems is None:
                # the callback sequence changed between baseline and faulted run: deterministic harness => must not happen
                part.count("armed_not_reached")
                part.violation(f"{prog}|{slot_label(slot)}|harness-nondeterminism", f"armed invocation {slot}#{k} not reached although the fault-free run had it", cj)
                continue
            lab = slot_label(slot)
            exc = kind.split(":", 1)[1] if ":" in kind else None
            if exc:
                cj["exc"] = exc
                part.count("exception_class:" + exc)
            part.case((case, slot, k, exc), not getattr(R, "post_terminal", False), outcome=(repr(obs), tuple(p[0] for p in problems)),
                      sample={"program": [case[0]] + list(case[1]), "source": case[3], "timeline": case[4], "armed": [slot, k], "observed": obs})
            part.count("slot:" + pid + "|" + lab)
            part.count("kind:" + slot_kind(slot))
            part.count("src:" + case[3])
            if getattr(R, "post_terminal", False):
                part.count("injection_after_subscriber_terminal")
            for (pk, text) in problems:
                part.violation(signature(case, slot, pk) + (f"|raising-{exc}" if exc else ""), f"{prog} [{'+'.join(([case[0]] if case[0] else []) + list(case[1]))}] {case[3]} source, timeline {case[4]}, "
                               f"{lab} raising at invocation {k}: {text}", cj, observed=obs, problems=[p[1] for p in problems])


def lib_has_slots(R, case):
    return bool(armable(case, R))


def all_slots():
    return {p + "|" + l for p, labs in static_slots().items() for l in labs}


def run(ctx: core.Ctx):
    b = bounds(ctx.tier)
    nprog = len(list(programs(ctx.tier)))
    ctx.bounds = {"k_max": b["kmax"], "timelines": b["timelines"], "source_kinds": list(SOURCE_KINDS), "programs": nprog,
                  "depth": 3 if b["depth2"] else 1, "depth3_upstream": list(UPSTREAM3) if b["depth2"] else [],
                  "depth3_downstream": list(DOWNSTREAM3) if b["depth2"] else [], "callback_kinds": list(R5_KINDS),
                  "upstream_stages": list(UPSTREAM) if b["depth2"] else [], "downstream_stages": list(DOWNSTREAM) if b["depth2"] else []}
    ctx.assumptions = [
        "VirtualTimeScheduler queue discipline (checked separately by C28/C29)",
        "single subscriber per run, at most one injected fault per run",
        "side-effect callbacks of do/finally (slot kind 'action') are C40's, not C09's",
    ]
    if ctx.tier == "quick":
        # ~3.5 k runs of ~0.3 ms: one process is faster than forking a pool on a shared machine
        part = ctx.local()
        try:
            shard(part, 0, 1, ctx.tier, ctx.seed, ctx.deadline)
        except BaseException as e:  # a crash of the harness is a hard error, not a verdict
            import traceback

            part.complete = False
            part.notes.append("HARNESS-ERROR: " + "".join(traceback.format_exception(e))[-1500:])
            part.counters["harness_errors"] = part.counters.get("harness_errors", 0) + 1
    else:
        part = ctx.sharded(shard)
    reached = sorted(k[5:] for k in part.counters if k.startswith("slot:"))
    static = all_slots()
    ctx.cov["slots_faulted"] = len(reached)
    ctx.cov["slots_existing"] = len(static)
    missing = sorted(static - set(reached))
    ctx.cov["slots_never_reached"] = missing
    if missing and part.complete:
        # vacuity guard: a callback slot that no case of the tier ever invokes would be silently unchecked
        ctx.total.notes.append("callback slots never invoked in any fault-free run of this tier: " + ", ".join(missing))


def replay(case):
    c = (case["root"], tuple(case["stages"]), case["focus"], case["source"], case["timeline"])
    seed = case["seed"]
    prog = prog_name(c)
    if case["slot"] is None:
        R, sub = execute(c, None, seed)
        problems = judge_baseline(R)
        print("observed (fault-free):", show(R, sub))
        return [{"signature": f"{prog}|baseline|{pk}", "what": text, "detail": [p[1] for p in problems]} for (pk, text) in problems]
    R, sub = execute(c, (case["slot"], case["k"]) + ((case["exc"],) if case.get("exc") else ()), seed)
    problems = judge_fault(R, case["slot"], case["k"])
    print("program:", [c[0]] + list(c[1]), "source:", c[3], "timeline:", cat.TLS(*seed_params(seed)[0])[c[4]], "armed:", case["slot"], case["k"])
    print("observed:", show(R, sub))
    print("emitter caught:", [(n, t, repr(e)) for (n, t, e) in lib.emitter_catches(R)])
    print("escaped into scheduler:", [(t, repr(e)) for (t, e) in R.env.sched.escaped])
    print("subscriptions:", [(s["source"], s["sub_time"], s["unsub_time"]) for s in R.env.sublog])
    if problems is None:
        print("armed invocation not reached")
        return []
    return [{"signature": signature(c, case["slot"], pk), "what": text, "detail": [p[1] for p in problems]} for (pk, text) in problems]
