"""C32 observe_on delivers every notification once, in order, serially.

E3: a producer thread emits every sequence of <= 3 notifications (+ terminal) through the
real observe_on operator (ObserveOnObserver / ScheduledObserver) targeting a real
EventLoopScheduler whose thread is controlled; the downstream observer is a monitor with a
scheduling point between enter and exit, optionally raising at delivery j.  All
interleavings up to the preemption bound with line-level points in scheduledobserver.py and
observeonobserver.py.  Second harness family: ReplaySubject's per-subscriber
ScheduledObserver (subscribe racing on_next).
"""
from __future__ import annotations

import itertools
import time

from .. import core, ilv, ilvrun, tlabind

PROPERTY = "C32"
LEVEL = "model_checking"
META = {
    "engine": "ilv",
    "technique": "preemption-bounded exhaustive interleaving exploration of the real observe_on / ScheduledObserver hand-off between a producer thread and an event-loop thread",
    "text": "for every notification sequence (<=3 + terminal), every fault position and every interleaving of producer and loop thread (<=PB preemptions, line-level points in "
    "scheduledobserver.py/observeonobserver.py): deliveries are exactly the received notifications, in order, once each, never overlapping, on the scheduler's thread; nothing "
    "received stays undelivered at quiescence; nothing is delivered after a delivery raised",
    "note": "trusted: CPython, controlled primitives of vf/ilv.py; list.append/pop treated as atomic (as the library assumes under the GIL); preemption at sync operations and line boundaries of the focus files",
}
RULE = (
    "all sequences N^k (k<=2 quick / 3 thorough) followed by {none, completed, error} x raise position {none, 1..k+1} x source {direct observer, observe_on operator over a Subject}; "
    "plus ReplaySubject(scheduler=eventloop) with subscribe racing on_next; each explored over all schedules with <= PB preemptions; non-trivial = >=1 switch between producer and loop thread"
)
BUDGET = {"quick": 300.0, "thorough": 3000.0}


class Boom(Exception):
    pass


class H:
    def __init__(self, seq, raise_at, via):
        self.seq, self.raise_at, self.via = seq, raise_at, via
        self.name = f"observe_on|{via}|{''.join(seq)}|raise={raise_at}"
        self.sig = "observe_on"
        self.focus = ilv.focus_files("observer/scheduledobserver.py", "observer/observeonobserver.py")
        self.allow_thread_errors = raise_at is not None and not via.endswith("+catch")
        self.sync_log = not via.endswith("+catch")  # lock acquisitions per function, for the trace-inclusion binding to SchedObs.tla

    def setup(self, run):
        from reactivex import operators as ops
        from reactivex.observer import ObserveOnObserver
        from reactivex.scheduler import EventLoopScheduler
        from reactivex.subject import Subject

        st = {"run": run, "deliv": [], "n": 0}
        sch = EventLoopScheduler()
        if self.via.endswith("+catch"):
            # a scheduler that survives a raising delivery: the loop thread keeps serving whatever is scheduled afterwards
            from reactivex.scheduler import CatchScheduler

            sch = CatchScheduler(sch, lambda e: True)
        st["sch"] = sch
        h = self

        class Down:
            def _d(self_, kind, v):
                me = ilv.cur()
                st["n"] += 1
                k = st["n"]
                st["deliv"].append({"kind": kind, "v": v, "enter": len(run.events), "thread": me.tid, "tname": me.name, "harness": me.harness})
                run.log("enter", kind, v)
                if run.sync_log is not None:
                    run.sync_log.append((me.tid, "deliver", 0, "harness"))
                ilv.point("in-delivery", voluntary=True)
                if h.raise_at == k:
                    run.log("raise", k)
                    st["raised_at"] = len(run.events)
                    raise Boom(k)
                run.log("exit", kind, v)
                st["deliv"][-1]["exit"] = len(run.events)

            def on_next(self_, v):
                self_._d("N", v)

            def on_error(self_, e):
                self_._d("E", None)

            def on_completed(self_):
                self_._d("C", None)

        if self.via.startswith("observer"):
            st["target"] = ObserveOnObserver(sch, Down())
        else:
            subj = Subject()
            st["sub"] = subj.pipe(ops.observe_on(sch)).subscribe(Down())
            st["target"] = subj
        return st

    def bodies(self, st):
        def producer():
            t = st["target"]
            for i, k in enumerate(self.seq):
                if k == "N":
                    t.on_next(i)
                elif k == "C":
                    t.on_completed()
                else:
                    t.on_error(Boom("src"))

        return [producer]

    def outcome(self, x):
        return tuple((d["kind"], d["v"], "exit" in d) for d in x.state["deliv"])

    def check(self, x):
        st = x.state
        if x.outcome != "quiescent":
            return []
        if getattr(self, "part", None) is not None and not getattr(x, "_bound", False):
            x._bound = True
            bind(self.part, x)
        P = []
        exp = [(k, i if k == "N" else None) for i, k in enumerate(self.seq)]
        got = [(d["kind"], d["v"]) for d in st["deliv"]]
        if got != exp[: len(got)]:
            P.append(("observe_on|wrong-order-or-duplicate", f"delivered {got}, received {exp}"))
        for d1, d2 in zip(st["deliv"], st["deliv"][1:]):
            if d2["enter"] < d1.get("exit", d1["enter"] if self.raise_at else 10**9):
                P.append(("observe_on|overlapping-deliveries", f"delivery {d2['kind']}{d2['v']} entered before {d1['kind']}{d1['v']} exited"))
        if any(d["harness"] for d in st["deliv"]):
            P.append(("observe_on|delivered-on-producer-thread", f"{[d['tname'] for d in st['deliv']]}"))
        if len({d["thread"] for d in st["deliv"]}) > 1:
            P.append(("observe_on|more-than-one-delivery-thread", f"{[d['tname'] for d in st['deliv']]}"))
        if self.raise_at is None or self.raise_at > len(exp):
            if len(got) < len(exp):
                P.append(("observe_on|undelivered-at-quiescence", f"received {exp} but only {got} delivered and the scheduler is idle"))
        else:
            if len(got) > self.raise_at:
                P.append(("observe_on|delivery-after-raise", f"delivery {self.raise_at} raised but {got[self.raise_at:]} were delivered afterwards"))
            if len(got) < self.raise_at:
                P.append(("observe_on|undelivered-at-quiescence", f"received {exp} but only {got} delivered before any raise"))
        return P[:3]


GRAPH = None
MODEL_LABEL = {"ELock": "E", "Assign": "E", "Sched": "S", "Resched": "RS", "RLock": "R", "Fault": "R", "Work": "W", "WorkFault": "W"}
TAU = ("QAppend", "NextItem", "Take")


def relabel(lab):
    name = lab.split("(")[0]
    return MODEL_LABEL.get(name, name)


def project(x):
    """Implementation trace -> model labels: lock acquisitions in ensure_active / run / the scheduler's schedule, and deliveries."""
    harness = {t.tid for t in x.threads if t.harness}
    out = []
    for (tid, kind, _o, where) in x.sync_log or ():
        prod = tid in harness
        if kind == "deliver":
            out.append("W")
        elif kind != "acq":
            continue
        elif where == "ScheduledObserver.ensure_active":
            out.append("E")
        elif where == "ScheduledObserver.run":
            out.append("R")
        elif where == "EventLoopScheduler.schedule_absolute":
            out.append("S" if prod else "RS")
    return out


def bind(part, x):
    if GRAPH is None:
        return
    labels = project(x)
    ok, at = GRAPH.accepts(labels, lambda l: l in TAU)
    part.count("tla_traces_accepted" if ok else "tla_traces_rejected")
    if not ok and len(part.notes) < 3:
        part.notes.append(f"SchedObs.tla rejects implementation trace {labels} at position {at} (model/code structure mismatch; verdict rests on the direct oracle)")


class HReplay:
    """ReplaySubject with a scheduler: each subscriber gets a ScheduledObserver; a subscribe
    racing on_next must still see every value exactly once, in order."""

    allow_thread_errors = False

    def __init__(self, pre, during):
        self.pre, self.during = pre, during
        self.name = f"replay|pre={pre}|during={during}"
        self.sig = "replay-scheduled"
        self.focus = ilv.focus_files("observer/scheduledobserver.py", "subject/replaysubject.py")

    def setup(self, run):
        from reactivex.scheduler import EventLoopScheduler
        from reactivex.subject import ReplaySubject

        st = {"run": run, "got": [], "threads": set(), "open": 0, "overlap": False}
        st["sch"] = EventLoopScheduler()
        st["rs"] = ReplaySubject(scheduler=st["sch"])
        for i in range(self.pre):
            st["rs"].on_next(i)
        return st

    def bodies(self, st):
        run = st["run"]

        def producer():
            for i in range(self.pre, self.pre + self.during):
                st["rs"].on_next(i)
            st["rs"].on_completed()

        def subscriber():
            def on_next(v):
                me = ilv.cur()
                if st["open"]:
                    st["overlap"] = True
                st["open"] += 1
                st["threads"].add((me.name, me.harness))
                run.log("enter", v)
                ilv.point("in-delivery", voluntary=True)
                st["got"].append(v)
                st["open"] -= 1

            st["rs"].subscribe(on_next, lambda e: st["got"].append("E"), lambda: st["got"].append("C"))

        return [producer, subscriber]

    def outcome(self, x):
        return tuple(x.state["got"])

    def check(self, x):
        st = x.state
        if x.outcome != "quiescent":
            return []
        exp = list(range(self.pre + self.during)) + ["C"]
        P = []
        if st["got"] != exp:
            P.append(("replay-scheduled|wrong-sequence", f"late subscriber of ReplaySubject(scheduler) got {st['got']}, expected {exp}"))
        if st["overlap"]:
            P.append(("replay-scheduled|overlapping-deliveries", "two deliveries to the same subscriber overlapped"))
        return P


def harnesses(tier):
    hs = []
    kmax = 2 if tier == "quick" else 3
    for k in range(0, kmax + 1):
        for term in ("", "C", "E"):
            seq = ("N",) * k + ((term,) if term else ())
            if not seq:
                continue
            for via in (("observer", "operator") if (tier == "thorough" or k <= 1) else ("observer",)):
                hs.append(H(seq, None, via))
                for j in range(1, len(seq) + 1):
                    hs.append(H(seq, j, via))
            for j in range(1, len(seq)):  # a raise that is not at the last delivery, on a scheduler that survives it
                if tier == "thorough" or len(seq) <= 3:
                    hs.append(H(seq, j, "observer+catch"))
    for pre in (0, 1):
        for during in ((1,) if tier == "quick" else (1, 2)):
            hs.append(HReplay(pre, during))
    return hs


def bounds(tier):
    # PB 2 in both tiers (the thorough tier has longer sequences, both subscription paths and more replay histories);
    # PB 3 over 3 notifications did not complete within any reasonable budget
    return 2


def shard(part, shard_i, nshards, tier, seed, deadline, dot_path=None):
    global GRAPH
    ilv.install()
    if dot_path and GRAPH is None:
        GRAPH = tlabind.Graph(open(dot_path).read(), relabel)
    hs = harnesses(tier)
    for i, h in enumerate(hs):
        if (i + seed) % nshards == shard_i:
            pb = bounds(tier) if not isinstance(h, HReplay) else max(1, bounds(tier) - 1)
            if isinstance(h, H) and h.sync_log:
                h.part = part
            ilvrun.explore_all(part, [h], 0, 1, pb, 0, deadline, horizon=5.0)
    if GRAPH is not None:
        for e in GRAPH.used:
            part.counters["tla_edge:%x" % core.h64(e)] = 1
        GRAPH.used = set()


def run(ctx):
    ctx.bounds = {"PB": bounds(ctx.tier), "harnesses": len(harnesses(ctx.tier))}
    ctx.assumptions = ["list.append / list.pop(0) atomic (GIL), as the library's own comment assumes", "preemption at sync operations and line boundaries of the focus files"]
    import os
    import tempfile

    Pn, Nn = (2, 3) if ctx.tier == "quick" else (2, 4)
    cfg = tempfile.NamedTemporaryFile("w", suffix=".cfg", dir=tlabind.TLA_DIR, delete=False)
    cfg.write(f"CONSTANTS P = {Pn}\n          N = {Nn}\n          F = 1\nINIT Init\nNEXT Next\nINVARIANTS InOrderOnce NoDeliveryAfterFault NothingStranded NoPendingRunCancelled\n")
    cfg.close()
    try:
        ver = tlabind.tlc_run("SchedObs.tla", os.path.basename(cfg.name), workers=max(1, min(16, ctx.workers)), timeout=2400)
        bnd = tlabind.tlc_run("SchedObs.tla", "SchedObs_bind.cfg", dump=True)
    finally:
        os.unlink(cfg.name)
    dot_file, model_edges = None, 0
    if bnd["dot"]:
        model_edges = tlabind.Graph(bnd["dot"]).nedges
        f = tempfile.NamedTemporaryFile("w", suffix=".dot", delete=False)
        f.write(bnd["dot"])
        f.close()
        dot_file = f.name
    if not ver["ok"]:
        ctx.total.violation("tla|SchedObs.tla-invariant-violated", "TLC reports an invariant violation in SchedObs.tla (the abstract model, not the code): " + ver["tail"][-600:], {"mode": "tla"})
    try:
        ctx.sharded(shard, extra=(dot_file,), nshards=len(harnesses(ctx.tier)))
    finally:
        if dot_file:
            os.unlink(dot_file)
    ilvrun.finish_cov(ctx, ctx.total, ver["distinct"], ver["states_generated"])
    edges = [k for k in ctx.total.counters if k.startswith("tla_edge:")]
    acc, rej = ctx.total.counters.get("tla_traces_accepted", 0), ctx.total.counters.get("tla_traces_rejected", 0)
    ctx.cov["tla"] = {
        "model": "vf/tla/SchedObs.tla", "tlc_config": f"P={Pn} producers x N={Nn} items, any delivery may raise, all interleavings", "tlc_ok": ver["ok"],
        "tlc_distinct_states": ver["distinct"], "tlc_states_generated": ver["states_generated"], "tlc_depth": ver["depth"],
        "binding_config": "P=1, N=4, any delivery may raise", "binding_graph_states": bnd["distinct"], "binding_graph_edges": model_edges,
        "impl_traces_accepted": acc, "impl_traces_rejected": rej, "model_edges_exercised_by_impl_traces": len(edges), "model_bound": bool(acc and not rej),
        "not_bound": "the ReplaySubject harnesses (two threads calling ensure_active) are judged by the direct oracle only",
    }
    for k in edges:
        del ctx.total.counters[k]


def replay(case):
    ilv.install()
    for tier in ("quick", "thorough"):
        for h in harnesses(tier):
            if h.name == case["harness"]:
                return ilvrun.replay_harness(h, case)
    return []
