"""C14 Early termination cancels synchronous infinite sources (E1 without a clock, bounded-exhaustive).

Enumerated completely per tier: every (never-ending synchronous source, pipeline shape, early-terminating
consumer with parameter k, scheduler configuration).  Each run is a plain synchronous `subscribe()` of the
real pipeline.  The source is metered: every element it produces (and, where the source pulls from user
code, every pull) is counted *at the producer*, before any auto-detach observer can drop it, and the
(B+1)-th pull raises a BaseException-derived BudgetExceeded so that a run that does not stop is aborted.
Oracle: subscribe() returns normally, the consumer's reference output was delivered, the number of elements
produced is at most what the reference needs plus a small slack, nothing is produced after subscribe()
returned and the current-thread trampoline is idle again.
"""
from __future__ import annotations

import itertools
import signal
import sys
import time

from .. import core

core.bind_repo()  # the tree under test must be first on sys.path before vt imports reactivex
from .. import vt  # noqa: E402

PROPERTY = "C14"
LEVEL = "exploration"
META = {
    "engine": "vtx",
    "technique": "bounded-exhaustive enumeration of synchronous pipelines (source x shape x consumer x scheduler configuration) "
    "run for real with a metered producer and a BaseException work budget, judged by a lazy list reference",
    "text": "for each of the five never-ending synchronous sources, each listed pipeline shape, each early-terminating consumer "
    "and each scheduler configuration the real subscribe() is executed; it must return, deliver exactly the reference "
    "output, and the producer must have produced no more than the reference needs (+slack) and nothing after the return; "
    "runs that do not stop are cut by the budget and reported; exhaustive within the bounds",
    "note": "trusted: CPython, the metering wrapper (it calls the source's own _subscribe_core with a counting observer, so the "
    "library's producer code is unchanged), the lazy reference in this file",
}
RULE = (
    "all (source, shape, consumer(k), configuration): sources from_iterable(counter), range(s, 10**12), repeat_value(v), "
    "generate(always true), of(a,b)|repeat(); non-trivial = the reference needs at least one element of the infinite source "
    "and terminates while the source could still produce; distinct = the whole case tuple"
)
BUDGET = {"quick": 150.0, "thorough": 1500.0}

B = 2000  # pulls allowed per run
SLACK = 4  # elements a producer may produce beyond what the reference needs, per source instance
HANG_GUARD_S = 60  # harness guard only: a run that neither pulls nor returns is cut and reported as such


class BudgetExceeded(BaseException):
    pass


class HangGuard(BaseException):
    pass


class Meter:
    def __init__(self, budget=B):
        self.budget = budget
        self.produced = 0  # elements handed to the first observer by the producer(s)
        self.pulled = 0  # calls into user code the source pulls from (iterator / iterate function)
        self.returned = False
        self.after = 0
        self.instances = 0

    def produce(self):
        self.produced += 1
        if self.returned:
            self.after += 1
        if self.produced > self.budget:
            raise BudgetExceeded()

    def pull(self):
        self.pulled += 1
        if self.returned:
            self.after += 1
        if self.pulled > self.budget + 1:
            raise BudgetExceeded()


def _classes():
    from reactivex import Observable

    class CountingObserver:
        def __init__(self, meter, observer):
            self.meter, self.observer = meter, observer

        def on_next(self, x):
            self.meter.produce()
            self.observer.on_next(x)

        def on_error(self, e):
            self.observer.on_error(e)

        def on_completed(self):
            self.observer.on_completed()

    class Metered(Observable):
        """Counts at the producer: hands the inner observable's own subscribe function a counting observer
        (no auto-detach observer in between, so elements produced after disposal are still counted)."""

        def __init__(self, inner, meter):
            super().__init__()
            self.inner, self.meter = inner, meter

        def _subscribe_core(self, observer, scheduler=None):
            self.meter.instances += 1
            return self.inner._subscribe_core(CountingObserver(self.meter, observer), scheduler)

    return Metered


class CountingIterator:
    def __init__(self, meter, start):
        self.meter, self.i = meter, start - 1

    def __iter__(self):
        return self

    def __next__(self):
        self.meter.pull()
        self.i += 1
        return self.i


# ------------------------------------------------------------------ sources

def seed_values(seed):
    r = seed % 3
    return {"start": (0, 5, -3)[r], "v": (7, None, "v")[r], "a": (1, 0, "a")[r], "b": (2, None, "b")[r]}


SOURCES = ("from_iterable", "range", "repeat_value", "generate", "of_repeat")
FACTORY_SCHED = ("from_iterable", "range")  # factories that accept a scheduler


def source_elements(name, sv):
    """The source's element sequence (python generator)."""
    if name in ("from_iterable", "range", "generate"):
        return itertools.count(sv["start"])
    if name == "repeat_value":
        return itertools.repeat(sv["v"])
    return itertools.cycle((sv["a"], sv["b"]))


def make_source(name, meter, fs, sv):
    """-> zero-argument builder of a fresh metered observable (each call = one more instance on the same meter)."""
    import reactivex
    from reactivex import operators as ops

    Metered = _classes()
    kw = {"scheduler": fs} if fs is not None else {}
    if name == "from_iterable":
        return lambda: Metered(reactivex.from_iterable(CountingIterator(meter, sv["start"]), **kw), meter)
    if name == "range":
        return lambda: Metered(reactivex.range(sv["start"], 10**12, **kw), meter)
    if name == "repeat_value":
        return lambda: Metered(reactivex.repeat_value(sv["v"]), meter)
    if name == "generate":
        def iterate(x):
            meter.pull()
            return x + 1

        return lambda: Metered(reactivex.generate(sv["start"], lambda x: True, iterate), meter)
    if name == "of_repeat":
        return lambda: Metered(reactivex.of(sv["a"], sv["b"]), meter).pipe(ops.repeat())
    raise KeyError(name)


# ------------------------------------------------------------------ consumers
# (name, needs k, mk(k, nominal) -> (list of operators, ref(iterator) -> output values), value-based)

def consumers(tier):
    from reactivex import operators as ops
    from reactivex.subject import Subject

    def counter():
        c = itertools.count()
        return lambda: next(c)

    def idx_ge(k):
        n = counter()
        return lambda x: n() >= k

    def idx_lt(k):
        n = counter()
        return lambda x: n() < k

    def take_n(it, n):
        return [next(it) for _ in range(n)]

    def upto(it, k):  # consume k+1 elements, return them
        return take_n(it, k + 1)

    out = []
    out.append(("take", True, lambda k: ([ops.take(k)], lambda it: take_n(it, k))))
    out.append(("first", False, lambda k: ([ops.first()], lambda it: take_n(it, 1))))
    out.append(("first_pred", True, lambda k: ([ops.first(idx_ge(k))], lambda it: upto(it, k)[-1:])))
    out.append(("take_while", True, lambda k: ([ops.take_while(idx_lt(k))], lambda it: upto(it, k)[:-1])))
    out.append(("element_at", True, lambda k: ([ops.element_at(k)], lambda it: upto(it, k)[-1:])))

    def take_until(k):
        trig = Subject()
        n = counter()

        def fire(x):
            if n() + 1 == k:
                trig.on_next("stop")

        return [ops.do_action(fire), ops.take_until(trig)], (lambda it: take_n(it, k)[:-1])

    out.append(("take_until", True, take_until))
    out.append(("find", True, lambda k: ([ops.find(lambda x, i, s: i >= k)], lambda it: upto(it, k)[-1:])))
    out.append(("some", True, lambda k: ([ops.some(idx_ge(k))], lambda it: (upto(it, k), [True])[1])))
    out.append(("all", True, lambda k: ([ops.all(idx_lt(k))], lambda it: (upto(it, k), [False])[1])))
    out.append(("is_empty", False, lambda k: ([ops.is_empty()], lambda it: (take_n(it, 1), [False])[1])))
    out.append(("first_or_default", True, lambda k: ([ops.first_or_default(idx_ge(k), "dflt")], lambda it: upto(it, k)[-1:])))
    if tier == "thorough":
        out.append(("take_while_inclusive", True, lambda k: ([ops.take_while(idx_lt(k), inclusive=True)], lambda it: upto(it, k))))
        out.append(("take_while_indexed", True, lambda k: ([ops.take_while_indexed(lambda x, i: i < k)], lambda it: upto(it, k)[:-1])))
        out.append(("element_at_or_default", True, lambda k: ([ops.element_at_or_default(k, "dflt")], lambda it: upto(it, k)[-1:])))
        out.append(("find_index", True, lambda k: ([ops.find_index(lambda x, i, s: i >= k)], lambda it: (upto(it, k), [k])[1])))
        out.append(("skip_take", True, lambda k: ([ops.skip(1), ops.take(k)], lambda it: upto(it, k)[1:])))
        out.append(("take_last_of_take", True, lambda k: ([ops.take(k), ops.take_last(1)], lambda it: take_n(it, k)[-1:])))
        out.append(("take_to_list", True, lambda k: ([ops.take(k), ops.to_list()], lambda it: [take_n(it, k)])))
    return out


def contains_consumer(target):
    """contains(v): value-based; only used where the stream's values are fixed by the statement."""
    from reactivex import operators as ops

    def ref(it):
        for x in it:
            if type(x) is type(target) and x == target:
                return [True]
        raise AssertionError("unreachable")

    return [ops.contains(target, lambda a, b: type(a) is type(b) and a == b)], ref


# ------------------------------------------------------------------ shapes
# (name, tiers, build(S) -> observable, stream(src_iter) -> iterator | None, exact, fairness)
#  S() builds a fresh instance of the infinite source.  stream maps the source's element iterator to what the
#  consumer sees.  exact=True: the statement fixes the consumer's stream -> outputs compared exactly.  exact=False: the
#  order in which elements of different sources reach the consumer is not fixed by the statement -> only the
#  kinds/count of outputs (and boolean results) are compared and `stream` is the worst case for the number of source
#  elements needed.  exact=None: even the number of outputs is open (a finite primary may be exhausted before the
#  infinite secondary had a turn) -> only termination and the amount of work are judged.  fairness=True: termination
#  needs another synchronous source to get a turn while the infinite one is running.

def shapes(tier):
    import reactivex
    from reactivex import operators as ops

    def scan_stream(it):
        acc = 0
        for _ in it:
            acc += 1
            yield acc

    def every_other(it):
        for i, x in enumerate(it):
            if i % 2 == 1:
                yield x

    def odd_filter():
        c = itertools.count()
        return lambda x: next(c) % 2 == 1

    Q, T = ("quick", "thorough"), ("thorough",)
    L = []
    L.append(("direct", Q, lambda S: S(), lambda it: it, True, False))
    L.append(("elementwise", Q,
              lambda S: S().pipe(ops.map(lambda x: (x, "m")), ops.filter(odd_filter()), ops.scan(lambda a, x: a + 1, 0)),
              lambda it: scan_stream(every_other(it)), True, False))
    L.append(("map", T, lambda S: S().pipe(ops.map(lambda x: (x, "m"))), lambda it: ((x, "m") for x in it), True, False))
    L.append(("filter", T, lambda S: S().pipe(ops.filter(odd_filter())), every_other, True, False))
    L.append(("scan", T, lambda S: S().pipe(ops.scan(lambda a, x: a + 1, 0)), scan_stream, True, False))
    L.append(("merge-never", Q, lambda S: S().pipe(ops.merge(reactivex.never())), lambda it: it, True, False))
    L.append(("never-merge", T, lambda S: reactivex.never().pipe(ops.merge(S())), lambda it: it, True, False))
    L.append(("merge-factory-never", T, lambda S: reactivex.merge(reactivex.never(), S()), lambda it: it, True, False))
    L.append(("merge-finite", Q, lambda S: S().pipe(ops.merge(reactivex.of(100, 101))), lambda it: it, False, False))
    L.append(("finite-merge", T, lambda S: reactivex.of(100, 101).pipe(ops.merge(S())), lambda it: it, False, False))
    L.append(("flat_map-inner", Q, lambda S: reactivex.of("o").pipe(ops.flat_map(lambda _: S())), lambda it: it, True, False))
    L.append(("flat_map-inner2", T, lambda S: reactivex.of("o", "p").pipe(ops.flat_map(lambda _: S())), lambda it: it, False, False))
    L.append(("flat_map-outer", Q, lambda S: S().pipe(ops.flat_map(lambda x: reactivex.of(x))), lambda it: it, True, True))
    L.append(("concat", Q, lambda S: reactivex.of(70, 80).pipe(ops.concat(S())), lambda it: itertools.chain((70, 80), it), True, False))
    L.append(("concat-factory", T, lambda S: reactivex.concat(reactivex.of(70, 80), S()), lambda it: itertools.chain((70, 80), it), True, False))
    # ordered concatenation through merge(max_concurrent=1): the infinite inner waits in the queue and is subscribed only when
    # the finite one completes (statement: "merge/flat_map, concat")
    L.append(("merge-mc1-queued", Q, lambda S: reactivex.of("f", "i").pipe(ops.map(lambda k: reactivex.of(70, 80) if k == "f" else S()), ops.merge(max_concurrent=1)),
              lambda it: itertools.chain((70, 80), it), True, False))
    if hasattr(ops, "concat_map"):
        L.append(("concat_map-queued", T, lambda S: reactivex.of("f", "i").pipe(ops.concat_map(lambda k: reactivex.of(70, 80) if k == "f" else S())),
                  lambda it: itertools.chain((70, 80), it), True, False))
    L.append(("switch_map", Q, lambda S: reactivex.of("o").pipe(ops.switch_map(lambda _: S())), lambda it: it, True, False))
    L.append(("switch_map2", T, lambda S: reactivex.of("o", "p").pipe(ops.switch_map(lambda _: S())), lambda it: it, False, False))
    L.append(("share", Q, lambda S: S().pipe(ops.share()), lambda it: it, True, False))
    L.append(("amb-never", Q, lambda S: S().pipe(ops.amb(reactivex.never())), lambda it: it, True, False))
    L.append(("never-amb", T, lambda S: reactivex.never().pipe(ops.amb(S())), lambda it: it, True, False))
    L.append(("amb-factory-never", T, lambda S: reactivex.amb(reactivex.never(), S()), lambda it: it, True, False))
    L.append(("with_latest_from", Q, lambda S: S().pipe(ops.with_latest_from(reactivex.of(9))), lambda it: ((x, 9) for x in it), False, False))
    L.append(("with_latest_from-secondary", Q, lambda S: reactivex.of(1, 2, 3, 4, 5).pipe(ops.with_latest_from(S())), lambda it: it, None, True))
    L.append(("combine_latest", Q, lambda S: reactivex.combine_latest(reactivex.of(9), S()), lambda it: ((9, x) for x in it), False, False))
    L.append(("combine_latest-op", T, lambda S: reactivex.of(9).pipe(ops.combine_latest(S())), lambda it: ((9, x) for x in it), False, False))
    L.append(("combine_latest-first", Q, lambda S: reactivex.combine_latest(S(), reactivex.of(9)), lambda it: ((x, 9) for x in it), False, True))
    return [s for s in L if tier in s[1]]


# ------------------------------------------------------------------ configurations

CONFIGS = {
    # name: (subscribe scheduler, factory scheduler)
    "default": (None, None),
    "subscribe-CurrentThreadScheduler.singleton": ("singleton", None),
    "subscribe-ImmediateScheduler": ("immediate", None),
    "subscribe-fresh-CurrentThreadScheduler": ("fresh", None),
    "factory-CurrentThreadScheduler.singleton": (None, "singleton"),
    "factory-ImmediateScheduler": (None, "immediate"),
    "factory-fresh-CurrentThreadScheduler": (None, "fresh"),
}
TRAMPOLINED = ("default", "subscribe-CurrentThreadScheduler.singleton", "factory-CurrentThreadScheduler.singleton")


def make_sched(kind):
    from reactivex.scheduler import CurrentThreadScheduler, ImmediateScheduler

    if kind is None:
        return None
    if kind == "singleton":
        return CurrentThreadScheduler.singleton()
    if kind == "immediate":
        return ImmediateScheduler()
    return CurrentThreadScheduler()


# ------------------------------------------------------------------ one run

class CountingIter:
    """Counts how many elements the reference consumed from the infinite source."""

    def __init__(self, it):
        self.it, self.n = it, 0

    def __iter__(self):
        return self

    def __next__(self):
        self.n += 1
        return next(self.it)


def _alarm(signum, frame):
    raise HangGuard()


def execute(case, sv):
    """Run one case; -> dict(status, outs, produced, pulled, after, idle, expected, needed, ...)."""
    from reactivex.scheduler import CurrentThreadScheduler

    source, shape_name, cons_name, k, config, tier = case
    shape = next(s for s in shapes(tier) if s[0] == shape_name)
    (_, _, build, stream, exact, fairness) = shape
    sub_kind, fac_kind = CONFIGS[config]
    meter = Meter()
    S0 = make_source(source, meter, make_sched(fac_kind), sv)
    built = [0]

    def S():
        built[0] += 1
        return S0()

    if cons_name == "contains":
        # target = the element of the consumer's stream with index k (first occurrence decides)
        nominal = list(itertools.islice(stream(source_elements(source, sv)), k + 1))
        operators, ref = contains_consumer(nominal[k])
    else:
        mk = next(c for c in consumers(tier) if c[0] == cons_name)[2]
        operators, ref = mk(k)
    # reference
    cit = CountingIter(source_elements(source, sv))
    expected = [("N", vt.norm_value(v)) for v in ref(stream(cit))] + [("C", None)]
    needed = cit.n
    # real run
    outs = []
    obs = build(S).pipe(*operators)
    tramp = CurrentThreadScheduler.singleton().get_trampoline()
    pre_idle = tramp.idle()
    status = "returned"
    old = signal.signal(signal.SIGALRM, _alarm)
    signal.alarm(HANG_GUARD_S)
    try:
        try:
            obs.subscribe(
                lambda x: outs.append(("N", vt.norm_value(x))),
                lambda e: outs.append(("E", type(e).__name__)),
                lambda: outs.append(("C", None)),
                scheduler=make_sched(sub_kind),
            )
        finally:
            signal.alarm(0)
            signal.signal(signal.SIGALRM, old)
    except BudgetExceeded:
        status = "budget"
    except HangGuard:
        status = "hang"
    except RecursionError:
        status = "recursion-error"
    except Exception as e:  # noqa: BLE001
        status = "raised:" + type(e).__name__
    produced_at_return, pulled_at_return = meter.produced, meter.pulled
    meter.returned = True
    idle = tramp.idle()
    if status == "returned" and idle:
        # anything the run left queued on the current-thread trampoline would run with the next subscribe(): flush it
        try:
            import reactivex

            reactivex.empty().subscribe()
        except BudgetExceeded:
            pass
    return {
        "status": status, "outs": outs, "expected": expected, "needed": needed, "produced": produced_at_return,
        "pulled": pulled_at_return, "after": meter.after, "idle": idle, "pre_idle": pre_idle, "instances": built[0],
        "exact": exact, "fairness": fairness,
    }


def judge(case, sv):
    r = execute(case, sv)
    source, shape_name, cons_name, k, config, tier = case
    problems = []
    slack = SLACK * max(1, r["instances"])
    over = max(r["produced"], r["pulled"] - 1) - r["needed"]
    if not r["pre_idle"]:
        problems.append(("harness", "current-thread trampoline was not idle before the run"))
    if r["status"] == "hang":
        problems.append(("hang", f"subscribe() neither returned nor pulled for {HANG_GUARD_S}s (harness guard)"))
    elif over > slack:
        how = {"budget": f"stopped only by the budget of {B}", "returned": "subscribe() returned only after the excess (an exception was swallowed on the way)"}.get(
            r["status"], f"ended by {r['status']}")
        problems.append(("not-cancelled", f"source produced {r['produced']} elements ({r['pulled']} pulls) where {r['needed']} are needed; {how}"))
    elif r["status"] != "returned":
        problems.append(("subscribe-raised", f"subscribe() ended by {r['status']} after {r['produced']} elements"))
    elif source == "from_iterable" and r["pulled"] > r["needed"]:
        # from_iterable pulls its (user-supplied) iterator one element at a time and checks for disposal before each pull:
        # once the consumer has terminated it must not advance the iterator again (the pull is user code running after the
        # subscription ended).  On the unchanged tree pulls == needed in every terminating configuration.
        problems.append(("pulled-after-cancellation", f"the iterable was advanced {r['pulled']} times where {r['needed']} elements are needed: {r['pulled'] - r['needed']} pull(s) after the consumer terminated"))
    if r["exact"] is None:
        kinds = "".join(kd for (kd, _) in r["outs"])
        if r["status"] == "returned" and (not kinds or kinds[-1] not in "CE" or "C" in kinds[:-1] or "E" in kinds[:-1]):
            problems.append(("wrong-output", f"delivered {show(r['outs'])}: not a terminated sequence"))
    elif r["exact"]:
        if r["outs"] != r["expected"]:
            problems.append(("wrong-output", f"delivered {show(r['outs'])}, expected {show(r['expected'])}"))
    else:
        boolean = cons_name in ("some", "all", "is_empty", "contains", "find_index")
        got = [(kd, v if boolean else None) for (kd, v) in r["outs"]]
        want = [(kd, v if boolean else None) for (kd, v) in r["expected"]]
        if cons_name == "take_to_list":
            got = [(kd, len(v[1]) if kd == "N" and isinstance(v, tuple) else None) for (kd, v) in r["outs"]]
            want = [(kd, len(v[1]) if kd == "N" and isinstance(v, tuple) else None) for (kd, v) in r["expected"]]
        if got != want:
            problems.append(("wrong-output", f"delivered {show(r['outs'])}, expected the shape of {show(r['expected'])}"))
    if r["after"]:
        problems.append(("pull-after-return", f"{r['after']} pulls after subscribe() returned"))
    if not r["idle"]:
        problems.append(("work-left-queued", "current-thread trampoline not idle after subscribe() returned"))
    nontrivial = r["needed"] >= 1
    outcome = f"{r['status']} over={min(over, 99) if over <= slack else 'many'} out={show(r['outs'])}"
    return problems, nontrivial, outcome, r


def show(outs):
    def val(v):
        if isinstance(v, tuple) and len(v) == 2 and v[0] in ("tuple", "list"):
            return "(" + ",".join(val(x) for x in v[1]) + ")"
        if isinstance(v, tuple) and len(v) == 2:
            return repr(v[1])
        return repr(v)

    items = [(val(v) if kd == "N" else ("|" if kd == "C" else f"#{v}")) for (kd, v) in outs]
    if len(items) > 10:
        items = items[:8] + [f"...({len(items) - 9} more)...", items[-1]]
    return "[" + " ".join(items) + "]"


def signature(case, problems):
    source, shape_name, cons_name, k, config, tier = case
    cls = problems[0][0]
    if config in TRAMPOLINED:
        return f"{source}|{config}|{shape_name}|{cls}"
    return f"{source}|{config}|{cls}"


# ------------------------------------------------------------------ enumeration

QUICK_EXPLICIT_CONSUMERS = ("take", "first", "take_until", "some")  # quick tier, non-trampolined configurations


def ks(tier):
    return (2,) if tier == "quick" else (1, 2, 3)


def all_cases(tier, seed):
    sv = seed_values(seed)
    for config, (sub_kind, fac_kind) in CONFIGS.items():
        for source in SOURCES:
            if fac_kind is not None and source not in FACTORY_SCHED:
                continue
            for sh in shapes(tier):
                for (cname, uses_k, _) in consumers(tier):
                    if tier == "quick" and config not in TRAMPOLINED and cname not in QUICK_EXPLICIT_CONSUMERS:
                        continue
                    for k in (ks(tier) if uses_k else (1,)):
                        yield (source, sh[0], cname, k, config, tier)
                if sh[4] is True and (tier != "quick" or config in TRAMPOLINED):  # exact stream: value-based consumer too
                    for k in ks(tier):
                        yield (source, sh[0], "contains", k, config, tier)


def shard(part: core.Part, shard_i, nshards, tier, seed, deadline):
    sv = seed_values(seed)
    for case in core.shard_iter(all_cases(tier, seed), shard_i, nshards):
        if part.evals % 64 == 0 and time.time() > deadline:
            part.complete = False
            return
        problems, nontrivial, outcome, r = judge(case, sv)
        source, shape_name, cons_name, k, config, _ = case
        smp = {"case": list(case), "status": r["status"], "produced": r["produced"], "needed": r["needed"], "delivered": show(r["outs"])}
        part.case(case, nontrivial, outcome=(source, shape_name, cons_name, outcome), sample=smp if nontrivial and shape_name != "direct" else None)
        part.count("source:" + source)
        part.count("shape:" + shape_name)
        part.count("config:" + config)
        part.count("status:" + r["status"])
        if problems:
            part.violation(signature(case, problems), f"{describe(case)}: {problems[0][1]}", {"case": list(case), "seed": seed}, problems=[p[1] for p in problems],
                           produced=r["produced"], needed=r["needed"], status=r["status"])


def describe(case):
    source, shape_name, cons_name, k, config, tier = case
    return f"{source} -> {shape_name} -> {cons_name}({k}) [{config}]"


def run(ctx: core.Ctx):
    ctx.bounds = {
        "sources": list(SOURCES), "shapes": [s[0] for s in shapes(ctx.tier)], "consumers": [c[0] for c in consumers(ctx.tier)] + ["contains"],
        "k": list(ks(ctx.tier)), "configurations": list(CONFIGS), "pull_budget": B, "slack_per_source_instance": SLACK,
    }
    ctx.assumptions = [
        "a run that produces more than needed+slack elements is 'not stopped' (the budget of 2000 pulls stands for 'unbounded')",
        "shapes whose interleaving of two synchronous sources is not fixed by the statement are judged on output kinds/count only",
    ]
    part = ctx.sharded(shard)
    ctx.cov["statuses"] = {k[7:]: v for k, v in part.counters.items() if k.startswith("status:")}


def replay(case):
    c = case["case"]
    c = (c[0], c[1], c[2], int(c[3]), c[4], c[5])
    sv = seed_values(case.get("seed", 0))
    problems, _, outcome, r = judge(c, sv)
    print(describe(c))
    print(f"status={r['status']} produced={r['produced']} pulled={r['pulled']} needed={r['needed']} instances={r['instances']}")
    print("delivered:", show(r["outs"]), " expected:", show(r["expected"]), {True: "(exact)", False: "(kinds only)", None: "(open)"}[r["exact"]])
    return [{"signature": signature(c, problems), "what": problems[0][1], "detail": [p[1] for p in problems]}] if problems else []
