"""C08 Falsy values are ordinary elements (E1, metamorphic, bounded-exhaustive).

Every pipeline is run once on three opaque ordinary elements <A>,<B>,<C> (truthy, hashable, compared
by identity) and once per renaming s of (A,B,C) into the falsy domain {None, 0, 0.0, False, '', (),
[], {}}.  Oracle: run(s(xs)) == s(run(xs)) under R2 at equal instants, where s is applied
structurally to the ordinary run's outputs (through tuples, lists, dicts, sets, notifications,
dataclasses).  Operator arguments that are values (default values, seeds, start_with items,
initial values) are renamed too; user callbacks see elements through s^-1.  Subjects are driven
directly with all short call histories, ordinary vs renamed.
"""
from __future__ import annotations

import itertools
import time

from .. import c0444_lib as L
from .. import catalogue, core, vt
from ..c0444_lib import Sym

PROPERTY = "C08"
LEVEL = "exploration"
META = {
    "engine": "vtx",
    "technique": "bounded-exhaustive metamorphic testing on virtual time: run(rename(xs)) == rename(run(xs)) for renamings of the "
    "element alphabet into the falsy domain; subjects by exhaustive short call histories",
    "text": "every catalogue instance whose callbacks are value-agnostic modulo the renaming (all but numeric/stringifying ones), depth 1 "
    "(thorough: depth 2 with a core second stage, cold and hot sources), over 11 structural timelines, is executed on ordinary opaque "
    "elements and on 8 covering triples of falsy values (every falsy value plays the first role once and most play all three; ==-distinct "
    "triples for equality-based operators, hashable ones where values are hashed); all four subject classes (+ buffer sizes) are driven "
    "through every call history up to length k over subscribe/on_next/on_completed/on_error/unsubscribe/value",
    "note": "trusted: CPython, harness, the structural renaming function; no hand-written expectation per operator",
}
RULE = (
    "all (pipeline, source kind, timeline, renaming): pipelines = instances without flags numeric/stringify/connectable (quick depth 1, thorough "
    "+ instance x core); timelines = TLS non-rogue; renamings = 8 triples built from a seed-chosen cyclic order of the falsy domain (restricted "
    "to ==-distinct / hashable values where an operator compares / hashes elements); plus all subject histories of length <=k; "
    "non-trivial = the source emitted >=1 element and the subscriber received >=1 notification (subjects: >=1 on_next delivered or replayed); "
    "distinct = (pipeline, kind, timeline, renaming) or (subject variant, history, renaming); outcome = the renamed run's log"
)
BUDGET = {"quick": 150.0, "thorough": 1500.0}

SA, SB, SC = Sym(1), Sym(2), Sym(3)
ORD = (SA, SB, SC)


def falsy_domain():
    return [None, 0, 0.0, False, "", (), [], {}]


def order(seed):
    F = falsy_domain()
    stride = (1, 3, 5, 7)[seed % 4]
    return [F[(stride * i) % 8] for i in range(8)]


def same(a, b):
    """identity of abstract values: type and == (containers of the alphabet: identity first)"""
    return a is b or (type(a) is type(b) and a == b)


def triples(seed, eq_distinct=False, hashable=False):
    """8 (or fewer) injective triples: the i-th starts at the i-th domain value and takes the next admissible ones cyclically."""
    dom = order(seed)
    if hashable:
        dom = [f for f in dom if not isinstance(f, (list, dict))]
    n = len(dom)
    out = []
    for i in range(n):
        t = [dom[i]]
        j = i
        while len(t) < 3:
            j += 1
            c = dom[j % n]
            if any(same(c, x) for x in t):
                continue
            if (eq_distinct or hashable) and any(c == x for x in t):
                continue
            t.append(c)
        out.append(tuple(t))
    return out


def unrename_for(alpha, seen=None):
    """s^-1 as seen by the catalogue's callbacks.  `seen` collects the arguments that are no alphabet value: incidental
    values of an earlier stage (a count, a bool, a default None) that reach a callback of a later stage."""

    def u(x):
        for n, f in enumerate(alpha, 1):
            if x is f:
                return n
        if seen is not None and not isinstance(x, Sym) and len(seen) < 64:
            seen.append(x)
        for n, f in enumerate(alpha, 1):
            if isinstance(f, Sym):
                continue
            if type(x) is type(f) and not isinstance(f, (list, dict)) and x == f:
                return n
        return x

    return u


def leaf_for(alpha):
    m = {1: alpha[0], 2: alpha[1], 3: alpha[2]}

    def leaf(x):
        if isinstance(x, Sym):
            return m[x.n]
        return x

    return leaf


# entries that compare elements with == themselves (beyond the catalogue's 'eq' flag)
EQ_IDS = {"sequence_equal:obs", "contains:B"}
SKIP_FLAGS = {"numeric", "stringify", "connectable"}


def usable():
    return [e for e in L.entries().values() if not (e.flags & SKIP_FLAGS)]


def needs(es):
    eq = any(("eq" in e.flags) or e.id in EQ_IDS for e in es)
    hs = any("hash" in e.flags for e in es)
    return eq, hs


def pipelines(tier):
    us = usable()
    for e in us:
        yield (e.id,)
    if tier == "thorough":
        core_ = [e for e in us if "core" in e.flags]
        for e in us:
            for c in core_:
                yield (e.id, c.id)


def kinds(tier):
    return ("cold",) if tier == "quick" else ("cold", "hot")


def tls():
    return {k: v for k, v in catalogue.TLS(SA, SB, SC).items() if not k.startswith("rogue")}


def rename_tl(tl, alpha):
    lf = leaf_for(alpha)
    return [(t, k, lf(v)) for (t, k, v) in tl]


def pipeline_cases(tier, seed):
    T = tls()
    for stages in pipelines(tier):
        for kind in kinds(tier):
            for tn, tl in T.items():
                if kind == "hot" and any(t is None for (t, _, _) in tl):
                    continue  # "emits inside subscribe" timelines exist for cold sources only
                yield ("P", stages, kind, tn, tl)


def run_one(stages, kind, tl, alpha):
    ents = L.entries()
    es = [ents[s] for s in stages]
    seen = []
    R = L.run_pipeline(es, rename_tl(tl, alpha), (200.0,), alphabet=alpha, unrename=unrename_for(alpha, seen if alpha is ORD else None), horizon=700.0, source_kind=kind)
    R.seen = seen
    return R


NONVERDICT = {"harness", "collision"}


def collides(seen, alpha):
    """An incidental value that a callback inspected in the ordinary run is indistinguishable (type and ==) from a renamed
    element: the callback would legitimately treat it as that element, so the metamorphic relation does not apply."""
    return any(type(x) is type(f) and x == f for x in seen for f in alpha)


def compare(stages, kind, tl, alpha, ordinary=None):
    """-> (problem | None, renamed view, ordinary run, nontrivial)"""
    if ordinary is None:
        ordinary = run_one(stages, kind, tl, ORD)
    if collides(ordinary.seen, alpha):
        return ("collision", "incidental value equals a renamed element"), None, ordinary, False
    Rf = run_one(stages, kind, tl, alpha)
    exp = ordinary.subs[0].view(leaf=leaf_for(alpha))
    act = Rf.subs[0].view()
    nontrivial = any(k == "N" for (_, k, _) in tl) and bool(act[0])
    if ordinary.status != "ok" or Rf.status != "ok":
        return ("harness", "action budget exceeded"), act, ordinary, nontrivial
    if exp == act:
        return None, act, ordinary, nontrivial
    o0, o1 = exp[0], act[0]
    if o0 == o1:
        cls = "inner-observables-differ"
    elif [(t, k) for (t, k, _) in o0] == [(t, k) for (t, k, _) in o1]:
        cls = "values-differ"
    else:
        cls = "notifications-differ"
    return (cls, f"renamed run {L.show(act)} != renaming of the ordinary run {L.show(exp)}"), act, ordinary, nontrivial


_culprit: dict = {}


def culprits(stages, kind, tl, alpha):
    """Which single falsy values make this pipeline deviate when only ONE symbol is renamed (memo per pipeline)."""
    key = stages
    if key in _culprit:
        return _culprit[key]
    eq, hs = needs([L.entries()[s] for s in stages])
    dom = [f for f in falsy_domain() if not (hs and isinstance(f, (list, dict)))]
    bad = []
    for f in dom:
        hit = False
        for tl2 in [tl] + [t for t in tls().values() if t is not tl]:  # any timeline: the class must not depend on the failing case
            for pos in range(3):
                a = list(ORD)
                a[pos] = f
                p, _, _, _ = compare(stages, kind, tl2, tuple(a))
                if p is not None and p[0] not in NONVERDICT:
                    hit = True
                    break
            if hit:
                break
        if hit:
            bad.append(f)
    if not bad:
        res = "only-in-combination"
    elif len(bad) == len(dom):
        res = "any-falsy"
    else:
        res = ",".join(repr(x) for x in bad)
    _culprit[key] = res
    return res


_alone: dict = {}


def fails_alone(sid, seed):
    if sid not in _alone:
        sig = None
        e = L.entries()[sid]
        eq, hs = needs([e])
        for tn, tl in tls().items():
            ordinary = None
            for alpha in triples(seed, eq, hs):
                p, _, ordinary, _ = compare((sid,), "cold", tl, alpha, ordinary)
                if p is not None and p[0] not in NONVERDICT:
                    sig = f"{sid}|{culprits((sid,), 'cold', tl, alpha)}|{p[0]}"
                    break
            if sig:
                break
        _alone[sid] = sig
    return _alone[sid]


def signature(stages, kind, tl, alpha, cls, seed):
    if len(stages) > 1:
        for s in stages:
            a = fails_alone(s, seed)
            if a:
                return a
    return f"{'+'.join(stages)}|{culprits(stages, kind, tl, alpha)}|{cls}"


# ------------------------------------------------------------------------------- subjects

def subject_variants():
    from reactivex.subject import AsyncSubject, BehaviorSubject, ReplaySubject, Subject

    return {
        "Subject": lambda a: Subject(),
        "BehaviorSubject:C": lambda a: BehaviorSubject(a[2]),
        "ReplaySubject:1": lambda a: ReplaySubject(1),
        "ReplaySubject:2": lambda a: ReplaySubject(2),
        "ReplaySubject:all": lambda a: ReplaySubject(),
        "AsyncSubject": lambda a: AsyncSubject(),
    }


SUBJ_EVENTS = [("S",), ("N", 1), ("N", 2), ("N", 3), ("C",), ("E",), ("U",), ("V",)]


def histories(k):
    """All call histories of length 1..k; after a terminal call only late subscriptions and value reads follow."""

    def ext(h, done):
        if h:
            yield h
        if len(h) == k:
            return
        for ev in SUBJ_EVENTS:
            if done and ev[0] not in "SV":
                continue
            if ev[0] == "U" and sum(1 for e in h if e[0] == "S") <= sum(1 for e in h if e[0] == "U"):
                continue
            yield from ext(h + (ev,), done or ev[0] in "CE")

    yield from ext((), False)


ERR = vt.SrcError("subject")


def drive(variant, hist, alpha):
    """Replay one history on a fresh real subject; -> list of observations (seq, who, kind, value)."""
    subj = subject_variants()[variant](alpha)
    log = []
    live = []
    nobs = 0

    class Obs:
        def __init__(self, i):
            self.i = i

        def on_next(self, v):
            log.append((self.i, "N", v))

        def on_error(self, e):
            log.append((self.i, "E", e))

        def on_completed(self):
            log.append((self.i, "C", None))

    for ev in hist:
        try:
            if ev[0] == "S":
                o = Obs(nobs)
                nobs += 1
                log.append((o.i, "sub", None))
                live.append(subj.subscribe(o))
            elif ev[0] == "N":
                subj.on_next(alpha[ev[1] - 1])
            elif ev[0] == "C":
                subj.on_completed()
            elif ev[0] == "E":
                subj.on_error(ERR)
            elif ev[0] == "U":
                live.pop(0).dispose()
                log.append((-1, "unsub", None))
            elif ev[0] == "V":
                if hasattr(subj, "value"):
                    log.append((-1, "value", subj.value))
                else:
                    log.append((-1, "value", "n/a"))
        except Exception as e:  # the subject raised to its caller: part of the observation
            log.append((-1, "raised", e))
    return log


def norm_log(log, leaf=None):
    return [(i, k, L.nv(v, leaf)) for (i, k, v) in log]


def subject_cases(tier):
    k = 4 if tier == "quick" else 6
    for variant in subject_variants():
        for h in histories(k):
            yield ("S", variant, h)


def subject_sig(variant, hist, alpha, cls):
    dom = falsy_domain()
    bad = []
    for f in dom:
        for pos in range(3):
            a = list(ORD)
            a[pos] = f
            if norm_log(drive(variant, hist, ORD), leaf_for(tuple(a))) != norm_log(drive(variant, hist, tuple(a))):
                bad.append(f)
                break
    who = "any-falsy" if len(bad) == len(dom) else (",".join(repr(x) for x in bad) or "only-in-combination")
    return f"{variant}|{who}|{cls}"


# ------------------------------------------------------------------------------- exploration

def all_cases(tier, seed):
    yield from pipeline_cases(tier, seed)
    yield from subject_cases(tier)


def shard(part: core.Part, shard_i, nshards, tier, seed, deadline):
    n = 0
    for c in core.shard_iter(all_cases(tier, seed), shard_i, nshards):
        n += 1
        if n % 64 == 0 and time.time() > deadline:
            part.complete = False
            return
        if c[0] == "P":
            _, stages, kind, tn, tl = c
            eq, hs = needs([L.entries()[s] for s in stages])
            ordinary = None
            for alpha in triples(seed, eq, hs):
                p, act, ordinary, nontrivial = compare(stages, kind, tl, alpha, ordinary)
                if p is not None and p[0] == "collision":
                    part.count("skipped_incidental_value_equals_renamed_element")
                    continue
                part.case((stages, kind, tn, repr(alpha)), nontrivial, outcome=repr(act),
                          sample={"stages": list(stages), "kind": kind, "timeline": tn, "renaming": repr(alpha), "observed": L.show(act)})
                if p is None:
                    continue
                if p[0] == "harness":
                    part.count("budget_hits")
                    continue
                case = {"type": "pipeline", "stages": list(stages), "kind": kind, "timeline_name": tn, "renaming": repr(alpha), "seed": seed, "tier": tier}
                part.violation(signature(stages, kind, tl, alpha, p[0], seed), f"{'+'.join(stages)} [{kind}] on {tn} with (A,B,C)->{alpha!r}: {p[1]}", case)
            part.count("pipelines")
        else:
            _, variant, hist = c
            base = drive(variant, hist, ORD)
            for alpha in triples(seed):
                act = norm_log(drive(variant, hist, alpha))
                exp = norm_log(base, leaf_for(alpha))
                nontrivial = any(k == "N" for (_, k, _) in act)
                part.case((variant, hist, repr(alpha)), nontrivial, outcome=repr(act),
                          sample={"subject": variant, "history": hist, "renaming": repr(alpha), "observed": L.show(act)})
                if exp != act:
                    cls = "values-differ" if [(i, k) for (i, k, _) in exp] == [(i, k) for (i, k, _) in act] else "notifications-differ"
                    case = {"type": "subject", "variant": variant, "history": [list(e) for e in hist], "renaming": repr(alpha), "seed": seed}
                    part.violation(subject_sig(variant, hist, alpha, cls), f"{variant} history {hist} with (A,B,C)->{alpha!r}: observed {L.show(act)} "
                                   f"!= renaming of the ordinary run {L.show(exp)}", case)
            part.count("subject_histories")


def run(ctx: core.Ctx):
    ctx.bounds = {
        "depth": 1 if ctx.tier == "quick" else 2,
        "instances": len(usable()),
        "source_kinds": list(kinds(ctx.tier)),
        "timelines": len(tls()),
        "renamings": [repr(t) for t in triples(ctx.seed)],
        "renamings_eq_distinct": [repr(t) for t in triples(ctx.seed, True)],
        "renamings_hashable": [repr(t) for t in triples(ctx.seed, True, True)],
        "subject_history_length": 4 if ctx.tier == "quick" else 6,
        "subject_variants": list(subject_variants()),
    }
    ctx.assumptions = [
        "VirtualTimeScheduler queue discipline (checked separately by C28/C29)",
        "ordinary elements are opaque truthy objects; callbacks of the catalogue look at elements only through the inverse renaming",
        "depth 2: a (timeline, renaming) is not judged when, in the ordinary run, a callback of the later stage inspected an incidental value "
        "of the earlier stage (a count, a bool, a default None) that equals a renamed element by type and == - the callback then "
        "legitimately treats it as that element (counter skipped_incidental_value_equals_renamed_element)",
        "numeric (sum/min of raw elements) and stringifying (to_marbles) instances are outside the metamorphic relation and not run",
        "ReplaySubject is driven with its default scheduler; no window, so no clock reading takes part in a decision",
    ]
    ctx.cov["skipped_instances"] = sorted(e.id for e in L.entries().values() if e.flags & SKIP_FLAGS)
    ctx.sharded(shard)


def _parse_alpha(s, seed):
    for eqd in (False, True):
        for hs in (False, True):
            for t in triples(seed, eqd, hs):
                if repr(t) == s:
                    return t
    # single substitutions etc.
    import ast

    return ast.literal_eval(s)  # falsy literals only


def replay(case):
    seed = case.get("seed", 0)
    alpha = _parse_alpha(case["renaming"], seed)
    if case["type"] == "pipeline":
        stages = tuple(case["stages"])
        tl = tls()[case["timeline_name"]]
        p, act, ordinary, _ = compare(stages, case["kind"], tl, alpha)
        print("ordinary run :", L.show(ordinary.subs[0].view(), 1500))
        print("renamed run  :", L.show(act, 1500) if act is not None else None)
        if p is None or p[0] in NONVERDICT:
            print("no verdict:", p)
            return []
        return [{"signature": signature(stages, case["kind"], tl, alpha, p[0], seed), "what": p[1], "detail": None}]
    hist = tuple(tuple(e) for e in case["history"])
    base = drive(case["variant"], hist, ORD)
    act = norm_log(drive(case["variant"], hist, alpha))
    exp = norm_log(base, leaf_for(alpha))
    print("ordinary run renamed:", exp)
    print("renamed run         :", act)
    if exp == act:
        return []
    cls = "values-differ" if [(i, k) for (i, k, _) in exp] == [(i, k) for (i, k, _) in act] else "notifications-differ"
    return [{"signature": subject_sig(case["variant"], hist, alpha, cls), "what": f"observed {act} != expected {exp}", "detail": None}]
