"""C20 A Subject broadcasts to exactly the observers subscribed at the time (E2, model checking).

BFS over call histories of a fresh real `Subject` with 3 observers (plain or scripted:
on their first on_next they unsubscribe themselves / another observer / subscribe a new
observer), one BFS instance per script configuration.  Oracle after every event:
per-observer logs and exceptions raised to the caller equal the list model's
(vf/subjref.py).
"""
from __future__ import annotations

from .. import core, subjref, subj_ilv
from ..subjref import P, US

PROPERTY = "C20"
LEVEL = "model_checking"
META = {
    "engine": "hbfs",
    "technique": "explicit-state BFS over call histories of a real Subject with heap-canonical state de-duplication, judged by a plain-list reference model; plus stateless exhaustive exploration of thread interleavings (bounded preemptions) of subscribe() / dispose() racing the emitting thread, judged against the sequential placements on the same real class",
    "text": "every history over sub(i)/unsub(i)/next(a|b)/error/complete/dispose (+ callback-only subscribe after dispose) up to the "
    "depth bound, for every listed configuration of plain and scripted (re-entrant: unsubscribe self/other, subscribe new, from inside "
    "on_next) observers, is replayed on a fresh real Subject; after every event the per-observer logs and the exceptions raised to the "
    "caller must equal the model's. The log-free state space is finite; where BFS closes it before the depth bound the verdict "
    "covers histories of any length over the menu (instances_closed_before_depth_bound)",
    "note": "trusted: CPython, vf/hbfs.py canonicaliser, vf/subjref.py (reference model, scripted observers), Observable.subscribe's "
    "AutoDetachObserver wrapping (every observer is subscribed through the public subscribe())",
}
META["text"] += "; thread part: subscribe() and dispose() racing the emitting thread, judged against the sequential placements on the same class; no exception escapes"
RULE = (
    "one BFS per configuration (which of the 3 observers is scripted and how; error object plain or falsy); events = sub(i), unsub(i), "
    "next(a), next(b), error, complete, dispose, subbare (after dispose); a case = one transition (history replayed from scratch on fresh "
    "objects); non-trivial = the last event delivered >=1 notification to an observer or raised to the caller; distinct = (configuration, history)"
)
BUDGET = {"quick": 300.0, "thorough": 1200.0}


def script_sets(tier: str) -> list:
    quick = [
        [P, P, P],
        [US(0), P, P],                      # unsubscribes itself
        [["unsub", 1], P, P],               # unsubscribes another observer
        [["sub", 2], P, P],                 # subscribes a new observer
        [["unsub", 1], ["unsub", 0], P],    # two observers unsubscribing each other
        [["sub", 2], P, US(2)],             # the observer subscribed from a callback unsubscribes itself
        [["sub", 2], P, ["unsub", 0]],      # ... or unsubscribes the one that subscribed it
        [US(0), US(1), US(2)],
    ]
    if tier == "quick":
        return quick
    out = []
    for s0 in (P, US(0), ["unsub", 1], ["sub", 2]):
        for s1 in (P, US(1), ["unsub", 0], ["sub", 2], ["unsub", 2]):
            for s2 in (P, US(2), ["unsub", 0], ["sub", 1]):
                out.append([s0, s1, s2])
    return out


def configs(tier: str, seed: int):
    vals = subjref.alphabet(seed)
    cfgs = [{"kind": "subject", "scripts": s, "values": vals, "err": "plain"} for s in script_sets(tier)]
    cfgs.append({"kind": "subject", "scripts": [P, P, P], "values": vals, "err": "falsy"})
    depth = 7 if tier == "quick" else 30
    depths = [depth] * len(cfgs)
    # self-check of the state key (subjref.audit_merges): every merge re-validated by extending both histories
    audits = [[["unsub", 1], ["unsub", 0], P]] if tier == "quick" else [[P, P, P], [["unsub", 1], ["unsub", 0], P], [["sub", 2], P, US(2)]]
    for s in audits:
        cfgs.append({"kind": "subject", "scripts": s, "values": vals, "err": "plain", "audit": 4 if tier == "quick" else 5})
        depths.append(0)
    return cfgs, depths


def run(ctx: core.Ctx):
    cfgs, depths = configs(ctx.tier, ctx.seed)
    ctx.bounds = {"depth": max(depths), "observers": 3, "configurations": [subjref.cfg_tag(c) for c in cfgs if not c.get("audit")], "values": repr(cfgs[0]["values"])}
    ctx.assumptions = [
        "observers subscribe through the public Observable.subscribe (AutoDetachObserver in front of every observer)",
        "single thread: every lock is free between events (concurrency is C43/E3's subject)",
        "cross-observer delivery order = subscription order (DESIGN section 5: recipients minus those whose unsubscription returned before their turn)",
    ]
    subjref.run_configs(ctx, cfgs, depths)
    subj_ilv.run_part(ctx, "Subject")  # E3: subscribe() racing the emitting thread


def replay(case):
    if isinstance(case, dict) and str(case.get("harness", "")).startswith("subject-race|"):
        return subj_ilv.replay("Subject", case)
    return subjref.replay_case(case)
