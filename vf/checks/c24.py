"""C24 Multicasting shares one source subscription per connection (E2 over virtual time).

One BFS per *world configuration* = (multicast kind, source type, source timeline).  A world
holds the real connectable / ref_count / auto_connect / multicast-with-mapper observable
built by a FRESH operator object over a LoggedCold or LoggedHot source, up to `nslots`
recording subscribers, a VScheduler, and a boring reference model (connected flag,
subscriber count, what the shared subject has received).

Event menu (history letters):
  ("sub", i)      a new recorder subscribes in the lowest free slot i (slots are symmetric)
  ("unsub", i)    the recorder in slot i disposes its subscription
  ("connect",)    connectable.connect(scheduler)            (plain connectable kinds only)
  ("disconnect",) dispose the disposable of the last connect()
  ("tick",)       settle, then advance virtual time by 10 running everything due (so the
                  following events happen AFTER the source notifications of the new instant)
  ("adv",)        settle, then move the clock by 10 WITHOUT running what is due (so the next
                  event happens BEFORE the source notifications of that instant; they run
                  when that event settles).  Enabled only when the model has something due.
After every sub/unsub/connect/disconnect the scheduler is run to the quiescence of the
current instant ("settle"), so several events land in one instant, on either side of the
source's notifications of that instant.

Oracle after every event (every prefix is judged):
  * source subscription log (times) == the model's connection intervals: one per connect()
    while disconnected, none while disconnected, closed at disconnect or at the source's
    terminal (auto-detach), ref_count/share open on 0->1 and close on ->0, auto_connect(n)
    opens once the n-th subscriber arrived, reconnect re-subscribes; with a mapper one
    interval per subscriber subscription, however often the mapper uses the connectable;
  * intervals of one connectable never overlap (step order);
  * every recorder's log == what the model's subject delivered from its subscription on
    (+ replayed values / current value / the terminal of an already terminated subject);
  * R1 grammar per recorder, nothing escaped into the scheduler, nothing raised to a caller.
"""
from __future__ import annotations

import time

from .. import core, hbfs, refcount_ilv, vt

PROPERTY = "C24"
LEVEL = "model_checking"
META = {
    "engine": "hbfs",
    "technique": "explicit-state BFS over subscribe/unsubscribe/connect/disconnect/time histories of real connectable observables "
    "on virtual time, heap-canonical de-duplication, judged after every event by a reference model of connection intervals and "
    "subject deliveries; plus stateless exhaustive exploration of thread interleavings (bounded preemptions) of subscribers coming and going on two threads of one share()d observable",
    "text": "for every multicast kind (publish, multicast(subject), replay(n) with and without scheduler, publish_value, share, "
    "ref_count over publish/replay/publish_value, auto_connect(0..N), multicast/publish/replay/publish_value with factory+mapper "
    "using the connectable once or twice) x {cold, hot} source x timeline, ALL histories up to the depth bound over the event menu "
    "are executed on the real code; after every event the source subscription intervals and every subscriber's notifications must "
    "equal the model's; exhaustive within depth / slots / timelines",
    "note": "trusted: CPython, the harness (vf/vt.py sources and recorders, vf/hbfs.py), the reference model in this file, "
    "VirtualTimeScheduler's queue discipline (C28/C29); state de-duplication drops only object addresses and pure logging counters "
    "(step stamps, action counters, queue insertion numbers renumbered order-preservingly)",
}
META["text"] += "; thread part: subscribers coming and going on two threads of one share()d / publish().ref_count() observable: never two source subscriptions, connected iff a subscriber is left"
RULE = (
    "one BFS per (kind, source type, timeline); states = canonical heaps (SUT + scheduler queue + model + logs without step stamps) "
    "reached by histories over {sub(lowest free slot), unsub(i), connect, disconnect, tick, adv}; every transition is one execution "
    "of a history on fresh real objects judged against the model (= traces_validated_against_impl); non-trivial = the history opened "
    ">=1 source subscription and delivered >=1 notification to a subscriber; distinct = (configuration, history)"
)
BUDGET = {"quick": 300.0, "thorough": 2400.0}

BASES = (0, 100, 1000)
INIT = False  # publish_value's initial value: falsy on purpose, distinct from None and 0 under R2


# --------------------------------------------------------------------------- configurations

def timelines(tier, vals, src="hot"):
    """Offsets relative to the subscription (cold) / to the base instant (hot).  Offset None (cold only) =
    delivered synchronously inside subscribe, i.e. inside connect()."""
    a, b, c = vals
    tls = {
        "abC": [(10, "N", a), (20, "N", b), (30, "C", None)],
        "aE": [(10, "N", a), (20, "E", "E")],
    }
    if src == "cold":
        tls["sa,bC"] = [(None, "N", a), (10, "N", b), (20, "C", None)]
        tls["saC"] = [(None, "N", a), (None, "C", None)]
    if tier == "thorough":
        tls["abc-"] = [(10, "N", a), (20, "N", b), (30, "N", c)]
        tls["C"] = [(10, "C", None)]
    return tls


def kinds(tier):
    ks = [
        ["publish"],
        ["multicast"],
        ["replay", 1, False],
        ["replay", 2, True],
        ["replay", 0, False],
        ["publish_value"],
        ["share"],
        ["ref_count", "publish"],
        ["ref_count", "replay", 1, False],
        ["auto_connect", 0],
        ["auto_connect", 1],
        ["auto_connect", 2],
        ["mapper", "multicast", "id"],
        ["mapper", "multicast", "zip2"],
        ["mapper", "publish", "zip2"],
        ["mapper", "replay", "id"],
        ["mapper", "publish_value", "id"],
    ]
    if tier == "thorough":
        ks += [
            ["replay", None, False],
            ["replay", 1, True],
            ["ref_count", "publish_value"],
            ["ref_count", "replay", 2, True],
            ["auto_connect", 3],
            ["mapper", "publish", "id"],
            ["mapper", "replay", "zip2"],
            ["mapper", "publish_value", "zip2"],
        ]
    return ks


def bounds(tier):
    if tier == "quick":
        return {"depth": 6, "nslots": 2, "maxticks": 4}
    return {"depth": 8, "nslots": 3, "maxticks": 5}


def values(seed):
    return (1 + 10 * (seed % 3), None, 0)


# quick tier: kinds whose code path is shared with another kind of the list get one timeline per source type
QUICK_SECONDARY = {"multicast", "replay(2,True)", "ref_count(publish)", "auto_connect(0)", "mapper(multicast,id)",
                   "mapper(publish,zip2)", "mapper(replay,id)", "mapper(publish_value,id)"}


def all_configs(tier, seed):
    b = bounds(tier)
    for kind in kinds(tier):
        for st in ("cold", "hot"):
            for tname in timelines(tier, values(seed), st):
                if tier == "quick" and kind_id(kind) in QUICK_SECONDARY and tname != ("sa,bC" if st == "cold" else "abC"):
                    continue
                yield {"kind": kind, "src": st, "tl": tname, "depth": b["depth"], "nslots": b["nslots"], "maxticks": b["maxticks"]}


def kind_id(kind):
    return kind[0] + ("(" + ",".join(str(x) for x in kind[1:]) + ")" if len(kind) > 1 else "")


def cfg_id(cfg):
    return f"{kind_id(cfg['kind'])}/{cfg['src']}/{cfg['tl']}"


# --------------------------------------------------------------------------- reference model

class Pipe:
    """One shared subject with its source attachment and its current listeners."""

    def __init__(self, m, skind, n, xf):
        self.m, self.skind, self.n, self.xf = m, skind, n, xf
        self.buf = []
        self.cur = INIT
        self.stopped = False
        self.term = None
        self.listeners = []
        self.attached = False
        self.pending = []
        self.interval = None

    def attach(self):
        m = self.m
        self.attached = True
        m.intervals.append([m.now, None, False])
        self.interval = len(m.intervals) - 1
        if m.src_type == "cold":
            self.pending = [(m.now + t, k, v) for (t, k, v) in m.tl if t is not None]
            for (t, k, v) in m.tl:
                if t is None and self.attached:  # delivered inside subscribe
                    m._emit(self, k, v)

    def detach(self):
        if self.attached:
            self.attached = False
            self.m.intervals[self.interval][1] = self.m.now
            self.pending = []

    def subject_subscribe(self, rid):
        m = self.m
        ev = m.exp[rid]
        if self.skind == "replay":
            rep = self.buf if self.n is None else self.buf[len(self.buf) - min(self.n, len(self.buf)):]
            for v in rep:
                ev.append((m.now, "N", self.xf(v)))
        if self.stopped:
            ev.append((m.now,) + self.term)
            return False
        if self.skind == "behavior":
            ev.append((m.now, "N", self.xf(self.cur)))
        self.listeners.append(rid)
        return True

    def receive(self, k, v):
        m = self.m
        if self.stopped:
            return []
        if k == "N":
            self.buf.append(v)
            self.cur = v
            for rid in self.listeners:
                m.exp[rid].append((m.now, "N", self.xf(v)))
            return []
        self.stopped = True
        self.term = (k, v)
        done, self.listeners = self.listeners, []
        for rid in done:
            m.exp[rid].append((m.now, k, v))
        return done


def _subject_kind(kind):
    k = kind[0]
    if k in ("ref_count", "mapper"):
        k = kind[1]
    if k == "replay":
        return "replay"
    if k == "publish_value":
        return "behavior"
    return "plain"


def _replay_n(kind):
    if kind[0] == "replay":
        return kind[1]
    if kind[0] == "ref_count" and kind[1] == "replay":
        return kind[2]
    return None  # mapper/replay uses an unbounded buffer on a fresh subject: nothing to replay


class Model:
    def __init__(self, cfg, base, vals):
        kind = cfg["kind"]
        self.now = base
        self.mode = {"share": "refcount", "ref_count": "refcount", "auto_connect": "auto", "mapper": "mapper"}.get(kind[0], "manual")
        self.auto_n = kind[1] if self.mode == "auto" else None
        self.src_type = cfg["src"]
        self.tl = timelines("thorough", vals, "cold")[cfg["tl"]]
        self.hot = [(base + t, k, v) for (t, k, v) in self.tl] if self.src_type == "hot" else []
        self.hot_i = 0
        self.hot_done = False
        self.intervals = []
        self.exp = {}
        self.slots = [None] * cfg["nslots"]
        self.rid_pipe = {}
        self.pipes = []
        self.connected = False
        self.arrivals = 0
        self.next_rid = 0
        self.skind = _subject_kind(kind)
        self.n = _replay_n(kind)
        self.zip2 = self.mode == "mapper" and kind[2] == "zip2"
        if self.mode != "mapper":
            self.pipe = Pipe(self, self.skind, self.n, self._xf)
            self.pipes = [self.pipe]
            if self.mode == "auto" and self.auto_n == 0:
                self.connect()

    def _xf(self, v):
        return (v, v) if self.zip2 else v

    def count(self):
        return sum(1 for r in self.slots if r is not None)

    # -- connection
    def connect(self):
        if not self.connected:
            self.connected = True
            self.pipe.attach()

    def disconnect(self):
        if self.connected:
            self.connected = False
            self.pipe.detach()

    # -- time
    def due_next(self):
        t = self.now + 10
        if not self.hot_done and any(e[0] == t for e in self.hot[self.hot_i:]):
            return True
        return any(p.attached and any(e[0] == t for e in p.pending) for p in self.pipes)

    def _emit(self, p, k, v):
        done = p.receive(k, v)
        if k in "EC":
            p.detach()  # the subject's auto-detach observer releases the source subscription
            for rid in done:
                self.slots[self.slots.index(rid)] = None
            if self.mode == "refcount" and done:
                self.connected = False
            if self.mode == "mapper" and p in self.pipes:
                self.pipes.remove(p)

    def settle(self):
        while self.hot_i < len(self.hot) and self.hot[self.hot_i][0] <= self.now:
            (_, k, v) = self.hot[self.hot_i]
            self.hot_i += 1
            if self.hot_done:
                continue
            if k in "EC":
                self.hot_done = True
            for p in list(self.pipes):
                if p.attached:
                    self._emit(p, k, v)
        for p in list(self.pipes):
            while p.attached and p.pending and p.pending[0][0] <= self.now:
                (_, k, v) = p.pending.pop(0)
                self._emit(p, k, v)

    def adv(self):
        self.settle()
        self.now += 10

    def tick(self):
        self.settle()
        self.now += 10
        self.settle()

    # -- subscribers
    def sub(self, slot, observed_opened):
        rid = self.next_rid
        self.next_rid += 1
        self.exp[rid] = []
        if self.mode == "mapper":
            p = Pipe(self, self.skind, None, self._xf)
            self.pipes.append(p)
            p.subject_subscribe(rid)
            self.slots[slot] = rid
            self.rid_pipe[rid] = p
            p.attach()
            return rid
        before = self.count()
        act = self.pipe.subject_subscribe(rid)
        if act:
            self.slots[slot] = rid
        if self.mode == "refcount":
            if before == 0:
                if act:
                    self.connect()
                else:
                    # the subscriber arrived (0->1) and was terminated at once by the stopped subject (->0):
                    # a zero-length connection is what the statement literally describes; none at all is accepted too
                    self.intervals.append([self.now, self.now, True])
        elif self.mode == "auto":
            self.arrivals += 1
            if not self.connected:
                if before + 1 >= self.auto_n:
                    self.connect()  # n subscribers are subscribed at once: every reading of "arrived" demands it
                elif self.arrivals >= self.auto_n and observed_opened:
                    # the n-th arrival came after an earlier one left: "arrived" may be read cumulatively; either is accepted
                    self.connect()
        return rid

    def unsub(self, slot):
        rid = self.slots[slot]
        self.slots[slot] = None
        p = self.rid_pipe.get(rid) if self.mode == "mapper" else self.pipe
        if rid in p.listeners:
            p.listeners.remove(rid)
        if self.mode == "mapper":
            p.detach()
            if p in self.pipes:
                self.pipes.remove(p)
        elif self.mode == "refcount" and self.count() == 0:
            self.disconnect()


# --------------------------------------------------------------------------- world (real objects)

def settle(sched):
    """Run everything due at the current instant (advance_to(now) is a no-op in the library)."""
    q = sched._queue
    while len(q):
        item = q.peek()
        if item.duetime > sched.now:
            break
        q.dequeue()
        if not item.is_cancelled():
            item.invoke()


class World:
    def __init__(self, cfg, seed):
        from reactivex import operators as ops
        from reactivex.subject import Subject

        self.cfg = cfg
        self.seed = seed
        self.env = vt.Env(budget=4000)
        self.sched = sched = self.env.sched
        base = BASES[seed % 3]
        vals = values(seed)
        sched.sleep(base)
        self.model = Model(cfg, base, vals)
        tl = self.model.tl
        if cfg["src"] == "cold":
            self.src = self.env.cold("src", tl)
        else:
            self.src = self.env.hot("src", [(base + t, k, v) for (t, k, v) in tl])
        self.conn = None
        self.handle = None
        self.slot_rec = [None] * cfg["nslots"]
        self.recs = {}
        self.raised = []
        self.budget_hit = False
        self.trace = []
        kind = cfg["kind"]

        def connectable(k):
            if k[0] == "publish":
                return self.src.pipe(ops.publish())
            if k[0] == "multicast":
                return self.src.pipe(ops.multicast(subject=Subject()))
            if k[0] == "replay":
                return self.src.pipe(ops.replay(buffer_size=k[1], scheduler=sched if k[2] else None))
            if k[0] == "publish_value":
                return self.src.pipe(ops.publish_value(INIT))
            raise ValueError(k)

        def mapper(c):
            if kind[2] == "zip2":
                return c.pipe(ops.zip(c))
            return c

        k0 = kind[0]
        if k0 in ("publish", "multicast", "replay", "publish_value"):
            self.conn = connectable(kind)
            self.subscribable = self.conn
        elif k0 == "share":
            self.subscribable = self.src.pipe(ops.share())
        elif k0 == "ref_count":
            self.conn = connectable(kind[1:])
            self.subscribable = self.conn.pipe(ops.ref_count())
        elif k0 == "auto_connect":
            self.conn = self.src.pipe(ops.publish())
            self.subscribable = self.conn.auto_connect(kind[1])
        elif k0 == "mapper":
            via = kind[1]
            if via == "multicast":
                op = ops.multicast(subject_factory=lambda s: Subject(), mapper=mapper)
            elif via == "publish":
                op = ops.publish(mapper)
            elif via == "replay":
                op = ops.replay(mapper=mapper)
            else:
                op = ops.publish_value(INIT, mapper)
            self.subscribable = self.src.pipe(op)
        else:
            raise ValueError(kind)

    # -- events
    def apply(self, ev):
        """Perform the event on the real objects (exceptions raised to the caller are observations), then on
        the model (an exception there is a harness error and propagates)."""
        m, sched = self.model, self.sched
        if ev[0] not in ("sub", "unsub", "connect", "disconnect", "tick", "adv"):
            raise ValueError(ev)
        self.trace.append(ev)
        opened = False
        try:
            if ev[0] == "sub":
                i = ev[1]
                n0 = len(self.src.subs)
                rec = self.env.recorder(f"r{m.next_rid}")
                self.slot_rec[i] = rec
                self.recs[m.next_rid] = rec
                try:
                    rec.subscription = self.subscribable.subscribe(rec, scheduler=sched)
                    settle(sched)
                finally:
                    opened = len(self.src.subs) > n0
            elif ev[0] == "unsub":
                self.slot_rec[ev[1]].dispose()
                settle(sched)
            elif ev[0] == "connect":
                self.handle = self.conn.connect(sched)
                settle(sched)
            elif ev[0] == "disconnect":
                self.handle.dispose()
                settle(sched)
            elif ev[0] == "tick":
                settle(sched)
                sched.advance_by(10)
            elif ev[0] == "adv":
                settle(sched)
                sched.sleep(10)
        except vt.BudgetExceeded:
            self.budget_hit = True
        except Exception as e:  # raised to the caller of subscribe/dispose/connect/advance
            self.raised.append((tuple(ev), e))
        if ev[0] == "sub":
            m.sub(ev[1], opened)
            m.settle()
        elif ev[0] == "unsub":
            m.unsub(ev[1])
            m.settle()
        elif ev[0] == "connect":
            m.connect()
            m.settle()
        elif ev[0] == "disconnect":
            m.disconnect()
            m.settle()
        elif ev[0] == "tick":
            m.tick()
        elif ev[0] == "adv":
            m.adv()

    # -- observation
    def obs_intervals(self):
        return [(s["sub_time"], s["unsub_time"]) for s in self.src.subs]

    def obs_log(self, rid):
        return [(t, k, vt.norm_value(v)) for (t, k, v) in self.recs[rid].events()]

    def exp_log(self, rid):
        out = []
        for (t, k, v) in self.model.exp[rid]:
            if k == "E":
                v = vt.norm_value(self.src.errors.get(v, v))
            elif k == "N":
                v = vt.norm_value(v)
            else:
                v = vt.norm_value(None)
            out.append((float(t), k, v))
        return out


def build(cfg, seed, history):
    w = World(cfg, seed)
    for ev in history:
        w.apply(tuple(ev))
    return w


def _match_intervals(obs, exp):
    """exp entries [open, close, optional]; optional ones may be absent from obs."""
    def rec(i, j):
        if j == len(exp):
            return i == len(obs)
        o, c, opt = exp[j]
        if i < len(obs) and obs[i][0] == o and obs[i][1] == c and rec(i + 1, j + 1):
            return True
        return opt and rec(i, j + 1)

    return rec(0, 0)


def judge(w: World):
    """-> list of (class, text)."""
    m = w.model
    out = []
    if w.budget_hit:
        out.append(("budget", "the run exceeded the scheduler action budget"))
    if w.raised:
        ev, e = w.raised[0]
        out.append((f"raised-to-caller:{ev[0]}", f"{ev} raised {e!r} to its caller"))
    if w.sched.escaped:
        out.append(("escaped", f"exception escaped into the scheduler: {w.sched.escaped[0][1]!r}"))
    if getattr(w.src, "caught", None):
        out.append(("raised-into-source", f"an observer raised into the hot source: {w.src.caught[0][1]!r}"))
    obs = w.obs_intervals()
    exp = [[float(o), None if c is None else float(c), opt] for (o, c, opt) in m.intervals]
    if not _match_intervals(obs, exp):
        n_obs, n_exp = len(obs), len([e for e in exp if not e[2]])
        cls = "extra-source-subscription" if n_obs > len(exp) else ("missing-source-subscription" if n_obs < n_exp else "source-interval-differs")
        out.append((cls, f"source subscription intervals {obs} but connection intervals {[(o, c) + (('optional',) if opt else ()) for o, c, opt in exp]}"))
    if m.mode != "mapper":
        subs = w.src.subs
        for a, b in zip(subs, subs[1:]):
            if a["unsub_step"] is None or a["unsub_step"] > b["sub_step"]:
                out.append(("overlapping-source-subscriptions", f"two source subscriptions of one connectable overlap: {obs}"))
                break
    for rid, rec in w.recs.items():
        o, e = w.obs_log(rid), w.exp_log(rid)
        if o != e:
            if len(o) > len(e) and o[: len(e)] == e:
                cls = "subscriber-extra-notification"
            elif len(o) < len(e) and e[: len(o)] == o:
                cls = "subscriber-missing-notification"
            else:
                cls = "subscriber-log-differs"
            out.append((cls, f"subscriber r{rid} observed {show(o)} but the shared subject delivered {show(e)} from its subscription on"))
            break
    for rid, rec in w.recs.items():
        g = rec.grammar_violation()
        if g:
            out.append(("grammar", g))
            break
    return out


def show(evs):
    def one(e):
        t, k, v = e
        if k == "N":
            return f"{t:g}:{v[1]!r}" if v[0] != "tuple" else f"{t:g}:({','.join(repr(x[1]) for x in v[1])})"
        return f"{t:g}:#" if k == "E" else f"{t:g}:|"

    return "[" + " ".join(one(e) for e in evs) + "]"


def signature(cfg, cls):
    return f"{kind_id(cfg['kind'])}|{cfg['src']}|{cls}"


def enabled(cfg, history, w: World):
    m = w.model
    evs = []
    free = [i for i, r in enumerate(m.slots) if r is None]
    if free:
        evs.append(("sub", free[0]))
    for i, r in enumerate(m.slots):
        if r is not None:
            evs.append(("unsub", i))
    if m.mode == "manual":
        evs.append(("connect",))
        if m.connected and w.handle is not None:
            evs.append(("disconnect",))
    if sum(1 for e in history if e[0] in ("tick", "adv")) < cfg["maxticks"]:
        evs.append(("tick",))
        if m.due_next():
            evs.append(("adv",))
    return evs


def roots(w: World):
    """Canonical digest of SUT + scheduler + model + logs.  Pure logging counters are neutralised first
    (step stamps, action counter, queue insertion numbers renumbered in queue order); the world is not used
    for execution afterwards."""
    sched = w.sched
    sched.step = 0
    sched.actions = 0
    q = sched._queue
    items = sorted(q.items)
    q.items = [(it, i) for i, (it, _) in enumerate(items)]
    q.count = len(items)
    for s in w.env.sublog:
        s["sub_step"] = 0
        if s["unsub_step"] is not None:
            s["unsub_step"] = 0
    for r in w.env.recorders:
        r.log = [(0, t, k, v) for (_, t, k, v) in r.log]
        if r.disposed_step is not None:
            r.disposed_step = 0
    return hbfs.canon([w.env, w.conn, w.subscribable, w.handle, w.slot_rec, w.model, [(repr(e), type(e).__name__) for (_, e) in w.raised]])


def outcome_of(w: World):
    m = w.model
    base = BASES[w.seed % 3]
    return (
        cfg_id(w.cfg),
        tuple((o - base, None if c is None else c - base) for (o, c) in w.obs_intervals()),
        tuple(tuple((t - base, k) for (t, k, _) in w.obs_log(rid)) for rid in w.recs),
    )


def explore(part: core.Part, cfg, seed, deadline):
    cid = cfg_id(cfg)

    def b(history):
        return build(cfg, seed, history)

    def check(w, history):
        ps = judge(w)
        m = w.model
        nontrivial = bool(m.intervals) and any(m.exp.values())
        oc = outcome_of(w)
        part.case((cid, tuple(history)), nontrivial, outcome=oc,
                  sample={"config": cid, "history": [list(e) for e in history], "source_intervals": w.obs_intervals(),
                          "subscribers": {f"r{rid}": show(w.obs_log(rid)) for rid in w.recs}} if (nontrivial and len(history) >= 4) else None)
        if ps:
            case = {"config": cfg, "history": [list(e) for e in history], "seed": seed}
            for (cls, text) in ps[:1]:
                part.violation(signature(cfg, cls), f"{cid} after {[tuple(e) for e in history]}: {text}", case, problems=[t for _, t in ps])
            return ps[0][1]
        return None

    res = hbfs.bfs(b, lambda h, w: enabled(cfg, h, w), check, roots, cfg["depth"], deadline=deadline)
    part.count("states", res.states)
    part.count("transitions", res.transitions)
    part.count("merges", res.merges)
    part.count("configs", 1)
    part.count("kind:" + kind_id(cfg["kind"]), res.transitions)
    part.count(f"depth_reached:{res.max_depth}")
    if not res.complete:
        part.complete = False


def shard(part: core.Part, shard_i, nshards, tier, seed, deadline):
    for cfg in core.shard_iter(order_configs(tier, seed), shard_i, nshards):
        if time.time() > deadline:
            part.complete = False
            return
        explore(part, cfg, seed, deadline)


def _weight(cfg):
    k = cfg["kind"]
    w = {"replay": 6, "publish_value": 4, "publish": 3, "multicast": 3, "ref_count": 2, "mapper": 2, "share": 1, "auto_connect": 1}[k[0]]
    if k[0] == "replay" and not k[2]:
        w += 4
    return w * (2 if cfg["src"] == "hot" else 1) * (2 if cfg["tl"] in ("abC", "abc-", "sa,bC") else 1)


def order_configs(tier, seed):
    """One job per configuration; the heaviest state spaces are started first (visiting order only)."""
    cfgs = list(all_configs(tier, seed))
    r = seed % max(1, len(cfgs))
    cfgs = cfgs[r:] + cfgs[:r]
    return sorted(cfgs, key=lambda c: -_weight(c))


def run(ctx: core.Ctx):
    b = bounds(ctx.tier)
    cfgs = list(all_configs(ctx.tier, ctx.seed))
    ctx.bounds = {
        "depth": b["depth"], "subscriber_slots": b["nslots"], "max_time_steps": b["maxticks"],
        "kinds": [kind_id(k) for k in kinds(ctx.tier)], "sources": ["cold", "hot"],
        "timelines": {"cold": list(timelines(ctx.tier, values(ctx.seed), "cold")), "hot": list(timelines(ctx.tier, values(ctx.seed), "hot"))},
        "configurations": len(cfgs),
    }
    ctx.assumptions = [
        "VirtualTimeScheduler queue discipline (checked separately by C28/C29)",
        "harness LoggedCold/LoggedHot sources are conforming",
        "a fresh operator object per world (operator re-use is C44)",
        "auto_connect(n): 'the n-th subscriber arrived' is accepted both as n concurrent and as n cumulative arrivals where they differ",
    ]
    part = ctx.sharded(shard, nshards=len(cfgs))
    ctx.cov["states"] = part.counters.get("states", 0)
    ctx.cov["transitions"] = part.counters.get("transitions", 0)
    ctx.cov["traces_validated_against_impl"] = part.counters.get("transitions", 0)
    ctx.cov["merged_transitions"] = part.counters.get("merges", 0)
    ctx.cov["max_depth"] = max([int(k.split(":")[1]) for k in part.counters if k.startswith("depth_reached:")] or [0])
    refcount_ilv.run_part(ctx)  # E3: subscribers coming and going on two threads
    ex = ctx.cov["e3_threads"]["schedules_explored"]
    ctx.cov["states"] += ex
    ctx.cov["transitions"] += ctx.cov["e3_threads"]["schedule_points"]
    ctx.cov["traces_validated_against_impl"] += ex


def replay(case):
    if isinstance(case, dict) and str(case.get("harness", "")).startswith("refcount-threads|"):
        return refcount_ilv.replay(case)
    cfg = case["config"]
    cfg["kind"] = list(cfg["kind"])
    hist = [tuple(e) for e in case["history"]]
    w = build(cfg, case.get("seed", 0), hist)
    print("config:", cfg_id(cfg), "history:", hist)
    print("source subscription intervals:", w.obs_intervals())
    print("model connection intervals:   ", [tuple(i) for i in w.model.intervals])
    for rid in w.recs:
        print(f"subscriber r{rid}: observed {show(w.obs_log(rid))} expected {show(w.exp_log(rid))}")
    ps = judge(w)
    return [{"signature": signature(cfg, cls), "what": text, "detail": [t for _, t in ps]} for (cls, text) in ps[:1]]
