"""C29 Virtual-time runs always finish (bounded configuration enumeration under a process watchdog).

Every configuration (clock type x number of actions in one instant x shape x run call) is
executed on the real scheduler in a forked child process.  The parent waits for the child's
report; a child that is blocked (sleeping, no CPU progress) or still running at the hard cap
is diagnosed (Python stack via faulthandler), killed and reported as a violation: a hang can
never hang the check.
"""
from __future__ import annotations

import faulthandler
import json
import os
import select
import signal
import tempfile
import time
from datetime import datetime, timedelta, timezone

from .. import core

PROPERTY = "C29"
LEVEL = "exploration"
META = {
    "engine": "hbfs",
    "technique": "bounded-exhaustive enumeration of run configurations of the real virtual-time schedulers, each executed in "
    "a forked child under a watchdog (blocked-process detection + hard cap), judged by an exactly-once count",
    "text": "for every clock type (float, datetime), every count n of actions due in one instant from the set around the "
    "spin threshold MAX_SPINNING=100 and its multiples, every shape (plain at now, plain at a later instant, one action "
    "re-scheduling itself at the current time, every action re-scheduling itself once) and both run calls (start, "
    "advance_to), the call must return and every action must have run exactly once; then the same load is scheduled on the "
    "drained scheduler and start() must again return having run everything",
    "note": "level 'exploration' rather than model_checking: the space is a finite grid of configurations, there is no state "
    "graph and the reference is a counter; exhaustive over n is pointless (the only n-dependent code path is the spin "
    "counter), so n is taken from {0,1,99,100,101,102,150,300,..}. Trusted: CPython, os.fork/pipe, /proc/<pid>/stat for the "
    "blocked-child diagnosis (a child that sleeps without CPU progress for 1.5 s while single-threaded and doing no I/O is "
    "waiting on a lock nobody can release).",
}
RULE = (
    "cases = clock type x n x shape x run call (x restart), all enumerated; distinct = that tuple; non-trivial = more than "
    "MAX_SPINNING (100) actions ran in one virtual instant, i.e. the spin-counter path of start() was reached or the same load "
    "went through advance_to; outcome = (status of first run, status of restart, clock drift after each run)"
)
BUDGET = {"quick": 150.0, "thorough": 1500.0}

UTC = timezone.utc
HARD_CAP_S = 20.0
BLOCKED_S = 1.5
SHAPES_Q = ("plain-now", "plain-later", "chain", "mixed")
SHAPES_T = SHAPES_Q + ("two-instants",)
NS_Q = (0, 1, 99, 100, 101, 102, 150, 300)
NS_T = (0, 1, 2, 50, 99, 100, 101, 102, 103, 150, 200, 201, 202, 203, 204, 300, 1000)
CLOCKS_Q = ("float:VirtualTimeScheduler", "datetime:HistoricalScheduler")
CLOCKS_T = CLOCKS_Q + ("float:TestScheduler", "datetime:VirtualTimeScheduler")
CALLS = ("start", "advance_to")


def all_cases(tier, seed):
    ns, shapes, clocks = (NS_Q, SHAPES_Q, CLOCKS_Q) if tier == "quick" else (NS_T, SHAPES_T, CLOCKS_T)
    for clock in clocks:
        for n in ns:
            for shape in shapes:
                for call in CALLS:
                    yield {"clock": clock, "n": n, "shape": shape, "call": call, "seed": seed}


# ------------------------------------------------------------------ the scenario (runs in the child)

def make_scheduler(clock: str, seed: int):
    from reactivex.scheduler import HistoricalScheduler, VirtualTimeScheduler
    from reactivex.testing import TestScheduler

    base_f = (0.0, 100.0, 12345.0)[seed % 3]
    base_d = (None, datetime(2000, 1, 1, tzinfo=UTC), datetime(2024, 2, 29, 23, 59, 59, tzinfo=UTC))[seed % 3]
    typ, cls = clock.split(":")
    if cls == "VirtualTimeScheduler":
        return VirtualTimeScheduler(base_f) if typ == "float" else VirtualTimeScheduler(base_d or datetime(1970, 1, 2, tzinfo=UTC))
    if cls == "TestScheduler":
        return TestScheduler()
    return HistoricalScheduler(base_d)


def expected_invocations(n: int, shape: str) -> tuple[int, int]:
    """(total invocations, largest number of invocations in one instant)"""
    if shape in ("plain-now", "plain-later", "chain"):
        return n, n
    if shape == "mixed":
        return 2 * n, 2 * n
    return 2 * n, n  # two-instants


def load(sched, n: int, shape: str, counts: list, is_datetime: bool):
    """Schedule the load; every scheduled unit of work gets its own slot in counts."""
    one = timedelta(seconds=1) if is_datetime else 1.0

    def plain(i):
        def action(s, state=None):
            counts[i] += 1

        return action

    if shape in ("plain-now", "plain-later", "two-instants"):
        base = len(counts)
        counts.extend([0] * n)
        for i in range(n):
            if shape == "plain-now" or shape == "two-instants":
                sched.schedule(plain(base + i))
            else:
                sched.schedule_relative(one, plain(base + i))
        if shape == "two-instants":
            base = len(counts)
            counts.extend([0] * n)
            for i in range(n):
                sched.schedule_relative(one, plain(base + i))
    elif shape == "chain":
        # one action that re-schedules itself at the current time until it has run n times
        base = len(counts)
        counts.extend([0] * n)

        def link(s, state):
            counts[base + state] += 1
            if state + 1 < n:
                s.schedule(link, state + 1)

        if n:
            sched.schedule(link, 0)
    elif shape == "mixed":
        # n actions, each re-scheduling a follow-up at the current time once
        base = len(counts)
        counts.extend([0] * (2 * n))

        def first(s, state):
            counts[base + state] += 1
            s.schedule(second, state)

        def second(s, state):
            counts[base + n + state] += 1

        for i in range(n):
            sched.schedule(first, i)
    else:
        raise ValueError(shape)


def scenario(case, report):
    """Runs in the child.  report(obj) sends one JSON line to the parent."""
    from reactivex.scheduler import VirtualTimeScheduler

    is_dt = case["clock"].startswith("datetime")
    sched = make_scheduler(case["clock"], case["seed"])
    counts: list[int] = []

    def off(a, b):
        d = b - a
        return d.total_seconds() if isinstance(d, timedelta) else float(d)

    def summary(phase, call, c0):
        bad = [(i, c) for i, c in enumerate(counts) if c != 1]
        return {
            "phase": phase,
            "call": call,
            "returned": True,
            "scheduled": len(counts),
            "invocations": sum(counts),
            "not_once": bad[:5],
            "n_not_once": len(bad),
            "clock_moved": off(c0, sched.clock),
        }

    for phase, call in ((1, case["call"]), (2, "start")):
        load(sched, case["n"], case["shape"], counts, is_dt)
        c0 = sched.clock
        report({"phase": phase, "call": call, "entering": True})
        try:
            if call == "start":
                VirtualTimeScheduler.start(sched)  # TestScheduler.start adds its own create/subscribe/dispose actions
            else:
                sched.advance_to(VirtualTimeScheduler.add(sched.now, timedelta(seconds=2)))
        except Exception as e:
            r = summary(phase, call, c0)
            r["raised"] = repr(e)
            report(r)
            return
        report(summary(phase, call, c0))


# ------------------------------------------------------------------ watchdog (parent side)

def _proc_stat(pid):
    try:
        with open(f"/proc/{pid}/stat") as fh:
            s = fh.read()
        rest = s[s.rindex(")") + 2 :].split()
        return rest[0], int(rest[11]) + int(rest[12])  # state, utime+stime
    except Exception:
        return None, None


def preload():
    """Import everything the child needs before forking (the child must only run the scenario)."""
    import reactivex.scheduler  # noqa: F401
    import reactivex.testing  # noqa: F401


def run_in_children(cases, hard_cap=HARD_CAP_S, blocked_s=BLOCKED_S):
    """Run the scenarios in forked children; yields (case, reports, verdict, diagnosis) per case,
    verdict in {'exited', 'blocked', 'timeout'}.  One child works through the cases in order (fresh
    scheduler per case); a child that hangs in a case is diagnosed and killed, and a new child
    continues with the next case, so every verdict comes from a process that was alive and
    responsive when the case began."""
    preload()
    i = 0
    while i < len(cases):
        rfd, wfd = os.pipe()
        tb = tempfile.NamedTemporaryFile(prefix="vf_c29_tb_", suffix=".txt", delete=False)
        tb.close()
        pid = os.fork()
        if pid == 0:  # ---- child
            code = 0
            try:
                os.close(rfd)
                signal.signal(signal.SIGALRM, signal.SIG_DFL)
                signal.setitimer(signal.ITIMER_REAL, 0.0)
                fh = open(tb.name, "w")
                faulthandler.register(signal.SIGUSR1, file=fh, all_threads=True)
                for j in range(i, len(cases)):
                    def report(obj, j=j):
                        obj["case"] = j
                        os.write(wfd, (json.dumps(obj) + "\n").encode())

                    report({"begin": True})
                    scenario(cases[j], report)
                    report({"end": True})
            except BaseException as e:  # harness problem in the child
                try:
                    os.write(wfd, (json.dumps({"harness_error": repr(e)}) + "\n").encode())
                except Exception:
                    pass
                code = 3
            finally:
                os._exit(code)
        # ---- parent
        os.close(wfd)
        buf = b""
        cur = None  # index of the case in progress
        reports: list = []
        t_case = time.time()
        verdict = None
        last_cpu, last_change = None, t_case
        finished_upto = i
        while True:
            r, _, _ = select.select([rfd], [], [], 0.25)
            if r:
                chunk = os.read(rfd, 65536)
                if not chunk:
                    verdict = "exited"
                    break
                buf += chunk
                last_change = time.time()
                while b"\n" in buf:
                    line, buf = buf.split(b"\n", 1)
                    obj = json.loads(line)
                    if "harness_error" in obj:
                        raise RuntimeError("child harness error: " + obj["harness_error"])
                    if obj.get("begin"):
                        cur, reports, t_case = obj["case"], [], time.time()
                    elif obj.get("end"):
                        try:
                            yield cases[cur], reports, "exited", ""
                        except GeneratorExit:  # consumer stopped (deadline): never leave a child behind
                            try:
                                os.kill(pid, signal.SIGKILL)
                                os.waitpid(pid, 0)
                            except (ProcessLookupError, ChildProcessError):
                                pass
                            os.close(rfd)
                            try:
                                os.unlink(tb.name)
                            except OSError:
                                pass
                            raise
                        finished_upto = cur + 1
                        cur = None
                    else:
                        reports.append(obj)
                continue
            now = time.time()
            state, cpu = _proc_stat(pid)
            if state is None or state in ("Z", "X"):
                continue  # exiting: EOF follows
            if cpu != last_cpu or state != "S":
                last_cpu, last_change = cpu, now
            elif now - last_change >= blocked_s:
                verdict = "blocked"
                break
            if now - t_case >= hard_cap:
                verdict = "timeout"
                break
        diagnosis = ""
        if verdict in ("blocked", "timeout"):
            try:
                os.kill(pid, signal.SIGUSR1)  # faulthandler dumps the Python stack of the stuck child
                time.sleep(0.2)
                with open(tb.name) as fh:
                    diagnosis = fh.read()[-3000:]
            except Exception as e:
                diagnosis = f"(no stack: {e!r})"
            try:
                os.kill(pid, signal.SIGKILL)
            except ProcessLookupError:
                pass
        os.close(rfd)
        status = 0
        try:
            _, status = os.waitpid(pid, 0)
        except ChildProcessError:
            pass
        try:
            os.unlink(tb.name)
        except OSError:
            pass
        if verdict == "exited":
            if status != 0 or finished_upto != len(cases):
                raise RuntimeError(f"child died (status {status}) after case {finished_upto}")
            return
        if cur is None:
            raise RuntimeError("child stuck outside a case: " + diagnosis)
        yield cases[cur], reports, verdict, diagnosis
        i = cur + 1


def run_in_child(case):
    return next((r, v, d) for (_, r, v, d) in run_in_children([case]))


# ------------------------------------------------------------------ oracle

def judge(case, reports, verdict, diagnosis):
    """Returns (problems [(signature, what, detail)], outcome)."""
    clock_t = case["clock"].split(":")[0] + "-clock"
    total, per_instant = expected_invocations(case["n"], case["shape"])
    scale = ">100" if per_instant > 100 else "<=100"
    problems = []
    outcome = []
    for r in reports:
        if "harness_error" in r:
            raise RuntimeError("child harness error: " + r["harness_error"])
    done = [r for r in reports if r.get("returned")]
    entering = [r for r in reports if r.get("entering")]
    for r in done:
        # phase 2 is called 'restart' only when phase 1 already went through the same call at the same scale
        name = r["call"] if (r["phase"] == 1 or case["call"] != "start") else "restart"
        exp = total * r["phase"]
        shown = "the second start() on the drained scheduler" if name == "restart" else name + "()"
        if r.get("raised"):
            problems.append((f"{clock_t}|same-instant{scale}|{name}-raises", f"{shown} raised {r['raised']}", r))
        elif r["n_not_once"]:
            less = any(c == 0 for _, c in r["not_once"])
            what = "skipped-actions" if less else "ran-twice"
            problems.append(
                (
                    f"{clock_t}|same-instant{scale}|{name}-{what}",
                    f"{case['clock']}, {case['shape']} n={case['n']}: {shown} returned but {r['n_not_once']} of {r['scheduled']} actions did not run exactly once (e.g. {r['not_once'][:3]})",
                    r,
                )
            )
        elif r["invocations"] != exp or r["scheduled"] != exp:
            raise RuntimeError(f"harness: scheduled {r['scheduled']} / ran {r['invocations']}, expected {exp}")
        outcome.append((r["phase"], "ok" if not (r.get("raised") or r["n_not_once"]) else "bad", r["clock_moved"]))
    if verdict in ("blocked", "timeout"):
        stuck = entering[-1] if entering else {"phase": 0, "call": "setup"}
        name = stuck["call"] if (stuck["phase"] == 1 or case["call"] != "start") else "restart"
        how = "is blocked forever (sleeping on a lock, no CPU progress)" if verdict == "blocked" else f"was still running after {HARD_CAP_S:.0f} s"
        shown = "the second start() on the drained scheduler" if name == "restart" else name + "()"
        inner = [l.strip() for l in diagnosis.splitlines() if l.strip().startswith("File")][:4]
        problems.append(
            (
                f"{clock_t}|same-instant{scale}|{name}-hangs",
                f"{case['clock']} with {per_instant} actions in one instant ({case['shape']}): {shown} never returns, child {how}",
                {"verdict": verdict, "stuck_in": stuck, "python_stack_innermost_first": inner},
            )
        )
        outcome.append((stuck["phase"], "hang"))
    elif len(done) != 2 and not any(r.get("raised") for r in done):
        raise RuntimeError(f"harness: child exited with {len(done)} phase reports")
    return problems, tuple(outcome)


def shard(part: core.Part, shard_i, nshards, tier, seed, deadline):
    mine = list(core.shard_iter(all_cases(tier, seed), shard_i, nshards))
    for case, reports, verdict, diagnosis in run_in_children(mine):
        if time.time() > deadline:
            part.complete = False
            return
        problems, outcome = judge(case, reports, verdict, diagnosis)
        total, per_instant = expected_invocations(case["n"], case["shape"])
        key = (case["clock"], case["n"], case["shape"], case["call"])
        part.case(key, per_instant > 100, outcome=outcome, sample={"case": case, "reports": [r for r in reports if r.get("returned")], "verdict": verdict})
        part.count("children")
        part.count("actions_run", max([r["invocations"] for r in reports if r.get("returned")] or [0]))
        if verdict in ("blocked", "timeout"):
            part.count("hangs_" + verdict)
        for (sg, what, detail) in problems:
            part.violation(sg, what, dict(case, tier=tier), detail=detail)


def run(ctx: core.Ctx):
    ns, shapes, clocks = (NS_Q, SHAPES_Q, CLOCKS_Q) if ctx.tier == "quick" else (NS_T, SHAPES_T, CLOCKS_T)
    ctx.bounds = {"n": list(ns), "shapes": list(shapes), "clocks": list(clocks), "calls": list(CALLS), "restart": "same load, start()", "hard_cap_s": HARD_CAP_S, "blocked_detection_s": BLOCKED_S}
    ctx.assumptions = [
        "single-threaded child: a main thread that sleeps without CPU progress for 1.5 s and performs no I/O is deadlocked",
        "n is taken from the listed set around MAX_SPINNING and its multiples, not from all integers",
    ]
    ctx.sharded(shard)


def replay(case):
    case = {k: case[k] for k in ("clock", "n", "shape", "call", "seed")}
    reports, verdict, diagnosis = run_in_child(case)
    for r in reports:
        print("child:", r)
    print("verdict:", verdict)
    if diagnosis:
        print(diagnosis)
    problems, _ = judge(case, reports, verdict, diagnosis)
    return [{"signature": s, "what": w, "detail": d} for (s, w, d) in problems]
