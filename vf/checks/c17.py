"""C17 Time-window operators respect their window boundaries (E1, bounded-exhaustive + differential).

Enumerated completely per tier: every operator instance of `instances()` x every timeline of
`timeref.gap_timelines` (<=N elements, gaps and first gap from {0,5,10,15}: elements before,
at and after every boundary, alone or together with other elements of the same instant;
completion/error/no terminal at every gap incl. the instant of the last element).

Oracles
* take/skip_with_time, take/skip_until_with_time, timeout, timeout_with_mapper: the statement's
  rule as a nondeterministic reference simulator; exact away from the boundary, either way for
  a source event in the very instant of the boundary (R3).  For timeout the instant at which
  the fallback is subscribed is part of the observation (never after the source's terminal).
* take_last_with_time / skip_last_with_time ("lastpair" cases, one per (duration, timeline)):
  per-run membership (age < duration in take_last, age > duration in skip_last, age = duration
  either way but uniformly within the run), then the two demands the statement makes about the
  boundary: (a) differential -- the same timeline plus one unrelated extra element in the
  instant at which an earlier element's age equals the duration must not change that earlier
  element's membership; (b) partition -- on the same completed timeline take_last and skip_last
  together deliver every element exactly once.
"""
from __future__ import annotations

import time

from .. import core, timed_ilv, timeref, vt
from ..timeref import src_err

PROPERTY = "C17"
LEVEL = "exploration"
META = {
    "engine": "vtx",
    "technique": "bounded-exhaustive enumeration of (time-window operator instance, gap-re-timed timeline) on virtual time against nondeterministic "
    "reference simulators (closure over same-instant orders), plus differential/partition runs for take_last/skip_last_with_time; plus stateless exhaustive exploration of thread interleavings (bounded preemptions) of the operator on a real-time scheduler with the source on its own thread, timer and source notification due in the same instant",
    "text": "take/skip_with_time, take/skip_until_with_time (relative, timedelta, absolute datetime), timeout (relative, absolute, with and without "
    "fallback) and timeout_with_mapper are executed on the real code for every timeline of <=N elements placed before, at and after each boundary, "
    "alone and together with other same-instant arrivals; the observed (instant, notification) list and the fallback's subscription instants must be "
    "a member of the reference set.  take_last/skip_last_with_time: membership away from the boundary exactly, at the boundary by the differential "
    "run (unrelated extra arrival in the boundary instant) and by the partition take_last + skip_last = input; exhaustive within N",
    "note": "trusted: CPython, the harness in /verif/vf (vt.py, timeref.py), the reference simulators, VirtualTimeScheduler's queue discipline (C28/C29)",
}
META["text"] += "; thread part: timeout (with and without fallback), timeout_with_mapper, take_with_time, skip_with_time on TimeoutScheduler/EventLoopScheduler (controlled clock) with the source on its own thread and a notification in the instant a timer is due: a timeout fires only a full due time after the last forwarded element"
RULE = (
    "sim cases: all (instance, timeline) pairs, instance = operator x boundary/due time x parameter form x clock kind (x fallback / timeout "
    "observables); lastpair cases: all (duration, timeline) pairs, each running take_last and skip_last on the timeline and on every variant with "
    "one extra element at (earlier element + duration); timelines = every sequence of <=N on_next with consecutive gaps in {0,5,10,15} followed by "
    "nothing, completion or error after every gap; element values: operators that never look at values get pairwise distinct positional values (thorough: <=4 elements, plus every word over two values for <=3 elements; the instances named in DEEP: every word over two values in both tiers, <=4 elements in thorough); timeout_with_mapper, whose mapper selects an observable by value: every word over two values (<=3; DEEP instances <=4 in thorough); "
    "non-trivial = the source emitted >=1 element and (the reference output differs from the "
    "source's own events, or a same-instant tie was resolved, or (lastpair) some element has age = duration at completion or a variant exists); "
    "distinct = (instance, timeline)"
)
BUDGET = {"quick": 300.0, "thorough": 2400.0}

GAPS = (0, 5, 10, 15)
SPAN = 303
EXTRA = "x"  # value of the unrelated extra arrival


# ------------------------------------------------------------------ reference models

class Passing:
    def start(self, sim):
        sim.subscribe("src", self.tl)
        self.arm(sim)

    def on_source(self, sim, name, k, v):
        if k == "N":
            self.on_next(sim, vt.norm_value(v))
        elif k == "C":
            sim.emit("C")
        else:
            sim.emit("E", src_err("src"))


class TakeUntil(Passing):
    """elements before the boundary pass; completes at the boundary (take_with_time: subscription + d)"""

    def __init__(self, tl, boundary_of):
        self.tl, self.boundary_of = tl, boundary_of

    def arm(self, sim):
        sim.timer("end", max(sim.now, self.boundary_of(sim.now)))

    def on_next(self, sim, v):
        sim.emit("N", v)

    def on_timer(self, sim, tid):
        sim.emit("C")


class SkipUntil(Passing):
    """elements after the boundary pass; terminals always pass"""

    def __init__(self, tl, boundary_of):
        self.tl, self.boundary_of, self.open = tl, boundary_of, False

    def arm(self, sim):
        sim.timer("open", max(sim.now, self.boundary_of(sim.now)))

    def on_next(self, sim, v):
        if self.open:
            sim.emit("N", v)

    def on_timer(self, sim, tid):
        self.open = True


class Timeout:
    """switch to the fallback (or fail) when the time since subscription / the last element reaches
    the due time (absolute due time: when that instant is reached), never after the source's terminal"""

    def __init__(self, tl, due, absolute, other):
        self.tl, self.due, self.absolute, self.other = tl, due, absolute, other
        self.switched = False

    def start(self, sim):
        sim.subscribe("src", self.tl)
        sim.timer("to", max(sim.now, self.due) if self.absolute else sim.now + self.due)

    def on_source(self, sim, name, k, v):
        if k == "N":
            sim.emit("N", vt.norm_value(v))
            if name == "src" and not self.absolute:
                sim.timer("to", sim.now + self.due)
        elif k == "C":
            sim.emit("C")
        else:
            sim.emit("E", src_err(name))

    def on_timer(self, sim, tid):
        sim.unsubscribe("src")
        if self.other is None:
            sim.emit("E", ("exc", "Exception"))
        else:
            sim.subscribe("other", self.other)


class TimeoutWithMapper:
    """the timeout of the first element is `first`, of every later one the observable chosen by the
    previous element; it is signalled by that observable's first emission or completion"""

    def __init__(self, tl, first, timeouts, other):
        self.tl, self.first, self.timeouts, self.other = tl, first, timeouts, other
        self.cur, self.k = None, 0

    def start(self, sim):
        sim.subscribe("src", self.tl)
        if self.first is not None:
            self.cur = ("t", 0)
            sim.subscribe(self.cur, self.first)

    def on_source(self, sim, name, k, v):
        if name == "src":
            if k == "N":
                sim.emit("N", vt.norm_value(v))
                if self.cur is not None:
                    sim.unsubscribe(self.cur)
                self.k += 1
                self.cur = ("t", self.k)
                self.raw = v
                if self.timeouts is not None:
                    sim.subscribe(self.cur, self.timeouts[v])
            elif k == "C":
                sim.emit("C")
            else:
                sim.emit("E", src_err("src"))
        elif name == "other":
            sim.emit(k, vt.norm_value(v) if k == "N" else (src_err("other") if k == "E" else None))
        elif name == self.cur:
            if k == "E":
                sim.emit("E", src_err("tfirst" if self.k == 0 else f"t{self.raw}"))
                return
            sim.unsubscribe(name)
            sim.unsubscribe("src")
            if self.other is None:
                sim.emit("E", ("exc", "Exception"))
            else:
                sim.subscribe("other", self.other)

    def on_timer(self, sim, tid):
        pass


# ------------------------------------------------------------------ instances

class Inst:
    kind = "sim"

    def __init__(self, iid, clock, build, model, extra=None, watch=(), first_gaps=None, values="pos", deep=False):
        self.iid, self.clock, self.build, self.model = iid, clock, build, model
        self.extra, self.watch, self.first_gaps = extra or {}, watch, first_gaps
        self.values, self.deep = values, deep  # see timeref.instance_timelines


class LastPair:
    kind = "lastpair"

    def __init__(self, form, d, clock):
        self.iid, self.form, self.d, self.clock = f"lastpair:{form}:{d}:{clock}", form, d, clock
        self.first_gaps, self.values, self.deep = (5,), "pos", True


OTHERS = {"none": None, "z5C10": [(5, "N", "z"), (10, "C", None)], "z0": [(0, "N", "z")], "E5": [(5, "E", "E")]}
TIMEOUT_OBS = {
    "n10": [(10, "N", 0), (20, "N", 1)],
    "c15": [(15, "C", None)],
    "sync": [(None, "C", None)],
    "never": [],
    "n5": [(5, "N", 0)],
}


DEEP = {"take_with_time:rel:10:num", "skip_until_with_time:abs:10:num", "timeout:rel:10:z5C10:num", "timeout:rel:10:none:num",
        "timeout_with_mapper:n10:n10:c15:none:num", "timeout_with_mapper:n10:sync:n10:z5C10:num"}


def bounds(tier):
    """(form, boundary/due/duration, clock) triples per operator family; twm = (first timeout, timeout observable of the two
    alphabet values, fallback)."""
    if tier == "quick":
        return {
            "N": 3,
            "window": [("rel", 10, "num"), ("rel", 0, "num"), ("td", 15, "dt")],
            "until": [("rel", 10, "num"), ("abs", 10, "num"), ("abs", 25, "dt")],
            "last": [("rel", 10, "num"), ("td", 15, "dt"), ("rel", 0, "num")],
            "timeout": [("rel", 10, "num"), ("abs", 25, "num"), ("td", 15, "dt")],
            "others": ("none", "z5C10"),
            "twm": [("n10", ta, tb, "none") for ta in ("n10", "c15", "sync") for tb in ("n10", "c15", "sync")]
            + [("n10", "n10", tb, "z5C10") for tb in ("n10", "c15", "sync")] + [("never", "n10", "c15", "none")],
        }
    obs = ("n10", "c15", "sync", "never")
    return {
        "N": 4,
        "window": [("rel", d, "num") for d in (0, 5, 10, 15, 25)] + [("td", 10, "num"), ("rel", 10, "dt"), ("td", 0, "dt"), ("td", 15, "dt"), ("td", 25, "dt")],
        "until": [("rel", 10, "num"), ("td", 15, "num")] + [("abs", d, "num") for d in (0, 10, 15, 25)]
        + [("abs", 0, "dt"), ("abs", 10, "dt"), ("abs", 25, "dt"), ("rel", 15, "dt"), ("td", 10, "dt")],
        "last": [("rel", d, "num") for d in (0, 5, 10, 15, 25)] + [("td", 10, "num"), ("rel", 10, "dt"), ("td", 15, "dt")],
        "timeout": [("rel", d, "num") for d in (0, 10, 15, 25)] + [("abs", 10, "num"), ("abs", 25, "num"), ("td", 10, "num"),
                                                                 ("rel", 10, "dt"), ("abs", 0, "dt"), ("abs", 15, "dt"), ("td", 15, "dt")],
        "others": ("none", "z5C10", "z0", "E5"),
        "twm": [(f, ta, tb, "none") for f in ("n10", "never", "c15", "n5") for ta in obs for tb in obs]
        + [("n10", ta, tb, "z5C10") for ta in obs for tb in obs],
    }


def seed_params(seed):
    rot = seed % 3
    vals = (1 + 10 * rot, 2 + 10 * rot, 3 + 10 * rot, 4 + 10 * rot)
    sub = (200, 300, 250)[rot]
    return vals, sub


def time_arg(K, form, d, sub):
    if form == "rel":
        return d
    if form == "float":
        return float(d)
    if form == "td":
        return K.td(d)
    return K.abs(sub + d)


def instances(tier, seed):
    from reactivex import operators as ops

    b = bounds(tier)
    vals, sub = seed_params(seed)
    A, B = vals[0], vals[1]

    for (form, d, clock) in b["window"]:
        yield Inst(f"take_with_time:{form}:{d}:{clock}", clock,
                   lambda K, S, d=d, form=form: S["src"].pipe(ops.take_with_time(time_arg(K, form, d, sub), scheduler=K.sched)),
                   lambda tl, d=d: TakeUntil(tl, lambda now: now + d))
        yield Inst(f"skip_with_time:{form}:{d}:{clock}", clock,
                   lambda K, S, d=d, form=form: S["src"].pipe(ops.skip_with_time(time_arg(K, form, d, sub), scheduler=K.sched)),
                   lambda tl, d=d: SkipUntil(tl, lambda now: now + d))
    for (form, d, clock) in b["until"]:
        yield Inst(f"take_until_with_time:{form}:{d}:{clock}", clock,
                   lambda K, S, d=d, form=form: S["src"].pipe(ops.take_until_with_time(time_arg(K, form, d, sub), scheduler=K.sched)),
                   lambda tl, d=d: TakeUntil(tl, lambda now: now + d))
        yield Inst(f"skip_until_with_time:{form}:{d}:{clock}", clock,
                   lambda K, S, d=d, form=form: S["src"].pipe(ops.skip_until_with_time(time_arg(K, form, d, sub), scheduler=K.sched)),
                   lambda tl, d=d: SkipUntil(tl, lambda now: now + d))
    for (form, d, clock) in b["last"]:
        yield LastPair(form, d, clock)
    for (form, d, clock) in b["timeout"]:
        for on in b["others"]:
            other = OTHERS[on]

            def build(K, S, d=d, form=form, other=other):
                if other is None:
                    return S["src"].pipe(ops.timeout(time_arg(K, form, d, sub), scheduler=K.sched))
                return S["src"].pipe(ops.timeout(time_arg(K, form, d, sub), S["other"], scheduler=K.sched))

            yield Inst(f"timeout:{form}:{d}:{on}:{clock}", clock, build,
                       lambda tl, d=d, form=form, other=other: Timeout(tl, (sub + d) if form == "abs" else d, form == "abs", other),
                       extra=({"other": other} if other is not None else {}), watch=(("other",) if other is not None else ()))
    for (fn, ta, tb, on) in b["twm"]:
        other = OTHERS[on]
        first = TIMEOUT_OBS[fn]
        timeouts = {A: TIMEOUT_OBS[ta], B: TIMEOUT_OBS[tb]}
        extra = {"tfirst": first, f"t{A}": TIMEOUT_OBS[ta], f"t{B}": TIMEOUT_OBS[tb]}
        if other is not None:
            extra["other"] = other

        def build(K, S, other=other):
            return S["src"].pipe(ops.timeout_with_mapper(S["tfirst"], lambda x: S[f"t{x}"], S["other"] if other is not None else None))

        iid = f"timeout_with_mapper:{fn}:{ta}:{tb}:{on}:num"
        yield Inst(iid, "num", build,
                   lambda tl, first=first, timeouts=timeouts, other=other: TimeoutWithMapper(tl, first, timeouts, other),
                   extra=extra, watch=(("other",) if other is not None else ()), values="alpha", deep=iid in DEEP)
    # defaults of timeout_with_mapper: no first timeout (never), no mapper (never)
    yield Inst("timeout_with_mapper:default:n10:c15:none:num", "num",
               lambda K, S: S["src"].pipe(ops.timeout_with_mapper(None, lambda x: S[f"t{x}"])),
               lambda tl: TimeoutWithMapper(tl, None, {A: TIMEOUT_OBS["n10"], B: TIMEOUT_OBS["c15"]}, None),
               extra={f"t{A}": TIMEOUT_OBS["n10"], f"t{B}": TIMEOUT_OBS["c15"]}, values="alpha")
    yield Inst("timeout_with_mapper:n10:nomapper:nomapper:none:num", "num",
               lambda K, S: S["src"].pipe(ops.timeout_with_mapper(S["tfirst"])),
               lambda tl: TimeoutWithMapper(tl, TIMEOUT_OBS["n10"], None, None), extra={"tfirst": TIMEOUT_OBS["n10"]})


def all_cases(tier, seed):
    vals, _ = seed_params(seed)
    cache = {}
    for inst in instances(tier, seed):
        if inst.kind == "sim" and inst.iid in DEEP:
            inst.deep = True
        for tl in timeref.instance_timelines(tier, inst.values, inst.deep, vals, GAPS, inst.first_gaps, cache):
            yield inst, tl


# ------------------------------------------------------------------ judging: simulator cases

def judge_sim(inst, tl, seed):
    _, sub = seed_params(seed)
    K = timeref.Clock(inst.clock, seed)
    sources = {"src": tl}
    sources.update(inst.extra)
    problems, obs, exp, tied, S = timeref.judge(K, sub, sources, inst.build, lambda: inst.model(tl), inst.watch, horizon=sub + SPAN)
    n_el = sum(1 for e in tl if e[1] == "N")
    plain = tuple((sub + t, k, (vt.norm_value(v) if k == "N" else (src_err("src") if k == "E" else None))) for (t, k, v) in timeref.until_terminal(tl))
    nontrivial = n_el >= 1 and (tied or any(e[0] != plain for e in exp))
    return problems, nontrivial, timeref.show(obs), sorted(timeref.show(e) for e in exp)


# ------------------------------------------------------------------ judging: take_last / skip_last

def run_last(which, form, d, clock, seed, tl):
    """-> (status, [(instant, kind, index-or-None)], escaped, grammar) ; elements are tagged with their index"""
    from reactivex import operators as ops

    _, sub = seed_params(seed)
    K = timeref.Clock(clock, seed)
    tagged = [(t, k, ((i, v) if k == "N" else v)) for i, (t, k, v) in enumerate(tl)]
    op = ops.take_last_with_time if which == "take" else ops.skip_last_with_time
    status, obs, rec, S = timeref.run_real(
        K, sub, {"src": tagged}, lambda K, S: S["src"].pipe(op(time_arg(K, form, d, sub), scheduler=K.sched)), horizon=sub + SPAN,
        norm=lambda v: v[0] if isinstance(v, tuple) else ("?", repr(v)),
    )
    return status, [(t - sub, k, v) for (t, k, v) in obs[0]], K.sched.escaped, rec.grammar_violation()


def check_single(which, d, tl, ev):
    """Per-run demands; returns (problem kind, text) or None.  ev = [(rel instant, kind, index | errkey | None)]"""
    tl = timeref.until_terminal(tl)
    els = [(i, t) for i, (t, k, v) in enumerate(tl) if k == "N"]
    term = tl[-1] if tl and tl[-1][1] in "EC" else None
    got = [v for (t, k, v) in ev if k == "N"]
    got_term = ev[-1] if ev and ev[-1][1] in "EC" else None
    if any(k in "EC" for (t, k, v) in ev[:-1]):
        return ("grammar", "notification after the terminal")
    # terminal: the source's own, in its own instant
    want_term = None if term is None else (term[0], term[1])
    if (None if got_term is None else (got_term[0], got_term[1])) != want_term:
        return ("wrong-notification", f"terminal {got_term} but the source's is {want_term}")
    if term is not None and term[1] == "E" and got_term[2] != src_err("src"):
        return ("wrong-notification", f"error is not the source's error: {got_term[2]}")
    idx = [i for (i, t) in els]
    if which == "take":
        if term is None or term[1] == "E":
            return ("extra-element", f"elements {got} delivered although the source did not complete") if got else None
        T = term[0]
        if any(t != T for (t, k, v) in ev):
            return ("wrong-notification", "take_last delivered something outside the completion instant")
        young = [i for (i, t) in els if T - t < d]
        edge = [i for (i, t) in els if T - t == d]
        if got == young or got == edge + young:
            return None
        kind = "lost-element" if len(got) < len(young) else ("extra-element" if len(got) > len(edge + young) else "wrong-notification")
        return (kind, f"delivered {got}; younger than the duration: {young}; exactly as old as the duration: {edge}")
    # skip_last
    times = {i: t for (i, t) in els}
    if got != idx[: len(got)]:
        return ("wrong-notification", f"delivered {got}, not a prefix of the input {idx}")
    last_t = None
    for (t, k, v) in ev:
        if k == "N" and t < times[v] + d:
            return ("wrong-notification", f"element {v} (arrived {times[v]}) delivered at {t}, before it was as old as the duration {d}")
    if term is not None and term[1] == "C":
        T = term[0]
        old = [i for (i, t) in els if T - t > d]
        edge = [i for (i, t) in els if T - t == d]
        if got == old or got == old + edge:
            return None
        kind = "lost-element" if len(got) < len(old) else ("extra-element" if len(got) > len(old + edge) else "wrong-notification")
        return (kind, f"delivered {got}; older than the duration at completion: {old}; exactly as old: {edge}")
    return None


def variants(d, tl):
    """(index of the earlier element, timeline with one extra element in the instant at which that
    element's age equals the duration), for every element whose boundary instant is not after the terminal"""
    tl = timeref.until_terminal(tl)
    term = tl[-1] if tl and tl[-1][1] in "EC" else None
    end = term[0] if term is not None else max([t for (t, k, v) in tl] + [0]) + 15
    seen = set()
    for i, (t, k, v) in enumerate(tl):
        if k != "N" or t + d > end or (t + d) in seen:
            continue
        if d == 0:
            continue  # the extra arrival would share the element's own arrival instant: not an *earlier* element
        seen.add(t + d)
        tau = t + d
        pos = max([j for j, e in enumerate(tl) if e[1] == "N" and e[0] <= tau]) + 1
        yield i, tl[:pos] + [(tau, "N", EXTRA)] + tl[pos:], pos


def judge_last(lp, tl, seed):
    """returns (problems [(sigpart, text)], nontrivial, outcome string, detail)"""
    problems = []
    d = lp.d
    base = {}
    for which in ("take", "skip"):
        status, ev, escaped, gram = run_last(which, lp.form, d, lp.clock, seed, tl)
        base[which] = ev
        op = f"{which}_last_with_time"
        if status != "ok":
            problems.append((f"{op}|budget", f"{op}({d}): run did not finish within the action budget"))
            continue
        if escaped:
            problems.append((f"{op}|escaped", f"{op}({d}): exception escaped into the scheduler: {escaped[0][1]!r}"))
        if gram:
            problems.append((f"{op}|grammar", f"{op}({d}): {gram}"))
        p = check_single(which, d, tl, ev)
        if p:
            problems.append((f"{op}|{p[0]}", f"{op}({d}) on {tl}: observed {ev}: {p[1]}"))
    tlu = timeref.until_terminal(tl)
    completed = bool(tlu) and tlu[-1][1] == "C"
    idx = [i for i, e in enumerate(tlu) if e[1] == "N"]
    boundary = completed and any(tlu[-1][0] - e[0] == d for e in tlu if e[1] == "N")
    # (b) partition
    if completed and not problems:
        tk = [v for (t, k, v) in base["take"] if k == "N"]
        sk = [v for (t, k, v) in base["skip"] if k == "N"]
        if sk + tk != idx:
            both = sorted(set(sk) & set(tk))
            what = "element in both" if both else "element in neither"
            problems.append((f"take_last_with_time+skip_last_with_time|boundary-{what.replace(' ', '-')}",
                             f"duration {d} on {tl}: skip_last delivered elements {sk}, take_last delivered {tk}: {what} "
                             f"({both or sorted(set(idx) - set(sk) - set(tk))}); together they must deliver every element once"))
    # (a) differential: unrelated extra arrival in the boundary instant
    nvar = 0
    for (i, tl2, pos) in variants(d, tl):
        nvar += 1
        for which in ("take", "skip"):
            op = f"{which}_last_with_time"
            status, ev2, escaped, gram = run_last(which, lp.form, d, lp.clock, seed, tl2)
            if status != "ok":
                problems.append((f"{op}|budget", f"{op}({d}): run did not finish within the action budget"))
                continue
            p = check_single(which, d, tl2, ev2)
            if p:
                problems.append((f"{op}|{p[0]}", f"{op}({d}) on {tl2}: observed {ev2}: {p[1]}"))
                continue
            # indices in the variant: elements at positions >= pos are shifted by one
            ren = lambda j: j if j < pos else j - 1
            m1 = i in [v for (t, k, v) in base[which] if k == "N"]
            m2 = i in [ren(v) for (t, k, v) in ev2 if k == "N" and v != pos]
            if completed and m1 != m2:
                problems.append((f"{op}|boundary-depends-on-unrelated-arrival",
                                 f"{op}({d}) on {tl}: element #{i} (age = duration at the extra arrival) is {'delivered' if m1 else 'not delivered'}; "
                                 f"with an unrelated element added in that instant ({tl2}) it is {'delivered' if m2 else 'not delivered'}"))
    nontrivial = bool(idx) and (boundary or nvar > 0 or [v for (t, k, v) in base["take"] if k == "N"] != idx)
    outcome = f"take={base['take']} skip={base['skip']} variants={nvar}"
    return problems, nontrivial, outcome


# ------------------------------------------------------------------ plumbing

def signature(inst, kind):
    parts = inst.iid.split(":")
    op = parts[0]
    if op == "timeout":
        shape = f"{parts[1]}:{'fallback' if parts[3] != 'none' else 'nofallback'}"
    elif op == "timeout_with_mapper":
        shape = "fallback" if parts[4] != "none" else "nofallback"
    else:
        shape = f"{parts[1]}:{'zero' if parts[2] == '0' else 'positive'}"
    return f"{op}|{shape}|{kind}"


def evaluate(inst, tl, seed):
    """-> (list of (signature, what), nontrivial, outcome, sample detail)"""
    if inst.kind == "sim":
        problems, nontrivial, obs, exp = judge_sim(inst, tl, seed)
        out = [(signature(inst, p[0]), f"{inst.iid} on {tl}: {p[1]}") for p in problems]
        return out, nontrivial, obs, {"observed": obs, "admissible": len(exp), "admissible_set": exp[:8]}
    problems, nontrivial, outcome = judge_last(inst, tl, seed)
    out, seen = [], set()
    for (sig, text) in problems:
        if sig not in seen:
            seen.add(sig)
            out.append((sig, text))
    return out, nontrivial, outcome, {"observed": outcome}


def shard(part: core.Part, shard_i, nshards, tier, seed, deadline):
    for (inst, tl) in core.shard_iter(all_cases(tier, seed), shard_i, nshards):
        if part.evals % 128 == 0 and time.time() > deadline:
            part.complete = False
            return
        viols, nontrivial, outcome, detail = evaluate(inst, tl, seed)
        part.case((inst.iid, repr(tl)), nontrivial, outcome=(inst.iid.split(":")[0], outcome),
                  sample={"instance": inst.iid, "timeline": tl, "observed": detail["observed"]})
        part.count("op:" + inst.iid.split(":")[0])
        if detail.get("admissible", 1) > 1:
            part.count("cases_with_tie_closure")
        for (sig, what) in viols:
            case = {"instance": inst.iid, "timeline": tl, "tier": tier, "seed": seed}
            part.violation(sig, what, case)


def run(ctx: core.Ctx):
    b = bounds(ctx.tier)
    ctx.bounds = {k: ([list(x) for x in v] if isinstance(v, list) else (list(v) if isinstance(v, tuple) else v)) for k, v in b.items()}
    ctx.bounds["gaps"] = list(GAPS)
    ctx.assumptions = [
        "VirtualTimeScheduler queue discipline (checked separately by C28/C29)",
        "harness LoggedCold source is conforming",
        "a source event in the very instant of a boundary/timer may be observed on either side (R3); for take_last/skip_last_with_time the side is "
        "not chosen by the oracle: it must be independent of unrelated arrivals and make take_last and skip_last complementary",
        "timeout with an absolute due time: switch when that instant is reached unless the source terminated before",
    ]
    timed_ilv.run_part(ctx, "C17")  # E3: real-time scheduler, source on its own thread
    part = ctx.sharded(shard)
    ctx.cov["operators_covered"] = sorted(k[3:] for k in part.counters if k.startswith("op:"))
    ctx.cov["instances"] = sum(1 for _ in instances(ctx.tier, ctx.seed))


def replay(case):
    if isinstance(case, dict) and str(case.get("harness", "")).startswith("timed-threads|"):
        return timed_ilv.replay("C17", case)
    tl = [tuple(x) for x in case["timeline"]]
    for inst in instances(case["tier"], case["seed"]):
        if inst.iid == case["instance"]:
            viols, _, outcome, detail = evaluate(inst, tl, case["seed"])
            print("instance:", inst.iid, "timeline:", tl)
            print("observed:  ", outcome)
            if "admissible_set" in detail:
                print("admissible:", " | ".join(detail["admissible_set"]))
            return [{"signature": s, "what": w, "detail": None} for (s, w) in viols]
    print("instance not found in this tier's catalogue")
    return []
