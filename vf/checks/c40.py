"""C40 Resources and finally-actions are released exactly once (E1, fault enumeration).

Three families, all on the real operators over LoggedCold inner sources on virtual time:

  using       resource factory {ok, returns None, raises} x observable factory {ok, raises}
              x scheduler passed to subscribe or not (the factory-failure path goes through `throw`)
  finally     finally_action / do_finally, alone, upstream of take(1) and downstream of take(1)
              (+ the finally action itself armed to raise: only R1 is judged then)
  do          do_action (3 callbacks / on_next only), tap, do(observer), and from reactivex.operators._do:
              do_after_next, do_on_subscribe, do_on_dispose, do_on_terminate, do_after_terminate;
              every callback slot armed to raise at every one of its invocations

x every inner timeline of the tier (asynchronous, bursts, terminal in the same instant as the last
element, notifications delivered synchronously inside subscribe) x one or two subscriptions
x every external dispose point derived from the zero-deviation run: right after subscribe, before
and after the notifications of every event instant (termination and disposal in one instant, both
orders), between instants, after the last, and from inside the subscriber's k-th on_next.

Oracles (instants are virtual times; "end" of a subscription = the instant its terminal reached
the subscriber or the instant it was disposed, whichever comes first):
  using:   #resources created == #subscriptions whose resource factory did not raise; every resource
           disposed exactly once, at the end instant of its subscription (at the subscription instant
           when the observable factory raised); a raising factory yields on_error(that exception)
  finally: the action ran exactly once per subscription, at its end instant, and - when the operator is
           the last stage and the source's terminal ended it - after the terminal reached the subscriber
  do:      the subscriber's notifications equal the source's (up to disposal); the callbacks observed
           exactly those notifications (on_next/on_error/on_completed callbacks before, after_next and
           after_terminate after the subscriber got them; on_subscribe once at subscription; on_dispose
           once at the end instant; on_terminate once before the terminal); if an armed callback raised
           before the terminal was delivered the subscriber gets on_error(that very exception) there.
"""
from __future__ import annotations

import time

from .. import core, vt

PROPERTY = "C40"
LEVEL = "fault_enumeration"
META = {
    "engine": "vtx",
    "technique": "bounded-exhaustive enumeration of (operator variant, inner timeline, subscriptions, dispose point, fault position) "
    "on virtual time with counting resources and probed callbacks",
    "text": "using / finally_action / do_finally / do_action, tap, do and the _do variants are executed for every inner timeline of the "
    "tier, every dispose point of the run (before/at/between/after notifications, inside on_next, same instant as the terminal in both "
    "orders) and every exception position (resource factory, observable factory, inner source error, every invocation of every user "
    "callback); resource dispose counts and instants, finally-action counts and instants, observed and forwarded notifications are "
    "compared with the statement's rule; exhaustive within the timeline bound",
    "note": "trusted: CPython, the harness in /verif/vf (LoggedCold, Recorder, probes), VirtualTimeScheduler's queue discipline (C28/C29)",
}
RULE = (
    "all (variant, timeline, #subscriptions, scheduler passing, dispose point, armed callback invocation) tuples; dispose points and "
    "fault positions are derived from the zero-deviation run of the same case; non-trivial = the mechanism ran (a resource was "
    "created, a finally action or a do-callback was invoked, or a factory raised) and the run contained >=1 notification, dispose or "
    "fault; distinct = the whole tuple"
)
BUDGET = {"quick": 150.0, "thorough": 1500.0}

SUB = vt.SUB
SUB2 = vt.SUB + 10  # second subscription: collides with the first one's first asynchronous notification
HORIZON = vt.SUB + 100


# --------------------------------------------------------------------------- timelines

def values(seed):
    return (1 + 10 * (seed % 3), None)


def tls(tier, seed):
    a, b = values(seed)
    out = {
        "C": [(10, "C", None)],
        "E": [(10, "E", "E")],
        "never": [],
        "aC": [(10, "N", a), (20, "C", None)],
        "aE": [(10, "N", a), (20, "E", "E")],
        "abC": [(10, "N", a), (20, "N", b), (30, "C", None)],
        "a-": [(10, "N", a)],
        "(ab)C": [(10, "N", a), (10, "N", b), (20, "C", None)],
        "(aC)": [(10, "N", a), (10, "C", None)],
        "(aE)": [(10, "N", a), (10, "E", "E")],
        "sC": [(None, "C", None)],
        "saC": [(None, "N", a), (None, "C", None)],
        "saE": [(None, "N", a), (None, "E", "E")],
        "sa,bC": [(None, "N", a), (10, "N", b), (20, "C", None)],
    }
    if tier == "thorough":
        for i, tl in enumerate(vt.timelines(3, (a, b), terminals=("C", "E", None), bursts=True, same_instant_terminal=True)):
            out[f"T{i}"] = tl
        out["sE"] = [(None, "E", "E")]
        out["sabC"] = [(None, "N", a), (None, "N", b), (None, "C", None)]
        out["sa,bE"] = [(None, "N", a), (10, "N", b), (20, "E", "E")]
        out["sa,(bC)"] = [(None, "N", a), (10, "N", b), (10, "C", None)]
        out["sa-"] = [(None, "N", a)]
    return out


def expected0(tl, sub):
    """What a subscriber of a conforming cold source with this timeline sees (absolute times)."""
    out = []
    for (t, k, v) in tl:
        out.append((float(sub if t is None else sub + t), k, v))
        if k in "EC":
            break
    return out


# --------------------------------------------------------------------------- variants

class Resource:
    def __init__(self, env, idx):
        self.env, self.idx = env, idx
        self.disposals = []  # (step, time)

    def dispose(self):
        self.disposals.append((self.env.sched.tick(), self.env.sched._clock))

    def __len__(self):
        # falsy on purpose, like an (initially) empty CompositeDisposable used as a bag of handles: whether a resource exists
        # must not be decided by its truthiness
        return 0


class Case:
    """One execution: builds the pipeline with probes, applies the deviation, collects observations."""

    def __init__(self, variant, tl, nsubs, pass_sched, dpoint, arm):
        self.variant, self.tl, self.nsubs, self.pass_sched, self.dpoint, self.arm = variant, tl, nsubs, pass_sched, dpoint, arm
        self.env = vt.Env(budget=3000, arm=tuple(arm) if arm else None)
        self.resources = []
        self.of_args = []
        self.seen = []  # (step, time, slot, kind, value) notifications observed by do-callbacks
        self.srcs = []
        self.recs = []
        self.status = None

    # -- probes
    def p(self, slot, kind=None):
        env = self.env

        def fn(*a):
            self.seen.append((env.sched.tick(), env.sched._clock, slot, kind, a[0] if a else None))

        return env.probe(slot, fn)

    def build(self):
        """-> observable under test (a fresh operator object per execution)."""
        import reactivex
        from reactivex import abc as rxabc
        from reactivex import operators as ops
        from reactivex.operators import _do

        env, fam, v = self.env, self.variant[0], self.variant

        if fam == "using":
            rf_kind = v[1]

            def rf():
                if rf_kind == "none":
                    return None
                r = Resource(env, len(self.resources))
                self.resources.append(r)
                return r

            def of(res):
                self.of_args.append(res)
                s = env.cold(f"src{len(self.srcs)}", self.tl)
                self.srcs.append(s)
                return s

            return reactivex.using(env.probe("rf", rf), env.probe("of", of))

        src = env.cold("src", self.tl)
        self.srcs.append(src)
        if fam == "finally":
            op = ops.finally_action(self.p("fin")) if v[1] == "finally_action" else _do.do_finally(self.p("fin"))
            if v[2] == "last":
                return src.pipe(op)
            if v[2] == "then_take1":
                return src.pipe(op, ops.take(1))
            return src.pipe(ops.take(1), op)
        name = v[1]
        if name == "do_action3":
            return src.pipe(ops.do_action(self.p("next", "N"), self.p("err", "E"), self.p("comp", "C")))
        if name == "do_action1":
            return src.pipe(ops.do_action(self.p("next", "N")))
        if name == "do_action_ec":
            return src.pipe(ops.do_action(on_error=self.p("err", "E"), on_completed=self.p("comp", "C")))
        if name == "tap3":
            return src.pipe(ops.tap(self.p("next", "N"), self.p("err", "E"), self.p("comp", "C")))
        if name == "do_observer":
            case = self

            class Obs(rxabc.ObserverBase):
                on_next = staticmethod(case.p("next", "N"))
                on_error = staticmethod(case.p("err", "E"))
                on_completed = staticmethod(case.p("comp", "C"))

            return src.pipe(ops.do(Obs()))
        if name == "do_after_next":
            return _do.do_after_next(src, self.p("after_next", "N"))
        if name == "do_on_subscribe":
            return _do.do_on_subscribe(src, self.p("on_subscribe"))
        if name == "do_on_dispose":
            return _do.do_on_dispose(src, self.p("on_dispose"))
        if name == "do_on_terminate":
            return _do.do_on_terminate(src, self.p("on_terminate"))
        if name == "do_after_terminate":
            return _do.do_after_terminate(src, self.p("after_terminate"))
        raise ValueError(v)

    def run(self):
        env = self.env
        obs = self.build()
        subs_at = [SUB, SUB2][: self.nsubs]
        self.recs = [env.recorder(f"out{i}") for i in range(self.nsubs)]
        r0 = self.recs[0]
        dp = self.dpoint
        if dp and dp[0] == "before":
            env.at(dp[1], r0.dispose)  # enqueued before anything the subscription schedules for that instant
        if dp and dp[0] == "in_next":
            def hook(value, n, k=dp[1]):
                if n == k:
                    r0.dispose()
            r0.on_next_hook = hook
        for i, t in enumerate(subs_at):
            def go(i=i):
                rec = self.recs[i]
                rec.subscription = obs.subscribe(rec, scheduler=env.sched if self.pass_sched else None)
                if i == 0 and dp and dp[0] == "after":
                    env.at(dp[1], rec.dispose)  # enqueued after everything the subscription scheduled for that instant
            env.at(t, go)
        self.status = env.run(HORIZON)
        return self


# --------------------------------------------------------------------------- expectations

def take1(exp):
    out = []
    for e in exp:
        if e[1] == "N":
            return out + [e, (e[0], "C", None)]
        out.append(e)
    return out


def cut(exp, dp, sub):
    """Expected notifications of a subscription under the dispose point; -> (events, end_instant)."""
    if dp is None:
        ev = list(exp)
        end_dispose = float(HORIZON)
    elif dp[0] == "before":
        ev = [e for e in exp if e[0] < dp[1]]
        end_dispose = float(dp[1])
    elif dp[0] == "after":
        ev = [e for e in exp if e[0] <= dp[1]]
        end_dispose = float(dp[1])
    else:  # in_next k
        ev, n = [], 0
        end_dispose = float(HORIZON)
        for e in exp:
            ev.append(e)
            if e[1] == "N":
                n += 1
                if n == dp[1]:
                    end_dispose = e[0]
                    break
    if ev and ev[-1][1] in "EC":
        return ev, ev[-1][0], "terminal"
    return ev, end_dispose, "dispose"


def norm_ev(evs, env):
    out = []
    for (t, k, v) in evs:
        if k == "E":
            if isinstance(v, vt.Injected):
                v = ("Injected", v.slot, v.k, any(v is x for x in env.injected))
            elif isinstance(v, vt.SrcError):
                v = ("SrcError",)
            else:
                v = ("Exc", repr(v))
        elif k == "N":
            v = vt.norm_value(v)
        else:
            v = None
        out.append((float(t), k, v))
    return out


def norm_exp(evs):
    out = []
    for (t, k, v) in evs:
        if k == "E":
            v = v if isinstance(v, tuple) else ("SrcError",)
        elif k == "N":
            v = vt.norm_value(v)
        else:
            v = None
        out.append((float(t), k, v))
    return out


def show(evs):
    def one(e):
        t, k, v = e
        if k == "N":
            return f"{t:g}:{v[1]!r}"
        if k == "E":
            return f"{t:g}:#{v[0]}"
        return f"{t:g}:|"

    return "[" + " ".join(one(e) for e in evs) + "]"


def judge(c: Case):
    """-> (problems [(class, text)], nontrivial, outcome)"""
    env, fam, v = c.env, c.variant[0], c.variant
    P = []
    if c.status != "ok":
        P.append(("budget", "the run exceeded the scheduler action budget"))
    for r in c.recs:
        g = r.grammar_violation()
        if g:
            P.append(("grammar", g))
    subs_at = [SUB, SUB2][: c.nsubs]
    arm = c.arm
    fired = bool(env.injected)
    inj = ("Injected", arm[0], arm[1], True) if arm else None
    weak = False  # armed callback whose failure the statement does not define: only R1/budget are judged
    exps = []
    for i, sub in enumerate(subs_at):
        exp = expected0(c.tl, sub)
        if fam == "finally" and v[2] != "last":
            exp = take1(exp)
        dp = c.dpoint if i == 0 else None
        # ---- effect of the armed fault on the expected notifications (single-subscription cases only)
        if arm and fired:
            slot, k = arm
            if slot in ("rf", "of"):
                if k == i + 1:
                    exp = [(float(sub), "E", inj)]
            elif slot == "next":
                out, n = [], 0
                for e in exp:
                    if e[1] == "N":
                        n += 1
                        if n == k:
                            out.append((e[0], "E", inj))
                            break
                    out.append(e)
                exp = out
            elif slot == "after_next":
                out, n = [], 0
                for e in exp:
                    out.append(e)
                    if e[1] == "N":
                        n += 1
                        if n == k:
                            out.append((e[0], "E", inj))
                            break
                exp = out
            elif slot in ("err", "comp", "on_terminate"):
                exp = [e for e in exp if e[1] == "N"] + [(exp[-1][0], "E", inj)]
            elif slot == "on_subscribe":
                exp = [(float(sub), "E", inj)]
            elif slot == "after_terminate":
                pass  # the terminal was already delivered: the sequence cannot change any more
            else:  # on_dispose, fin: not defined by the statement
                weak = True
        ev, end, how = cut(exp, dp, sub)
        exps.append((ev, end, how))
    if weak:
        return P, fired, ("weak", c.status)

    # ---- forwarded notifications
    for i, r in enumerate(c.recs):
        o, e = norm_ev(r.events(), env), norm_exp(exps[i][0])
        if o != e:
            cls = "output-differs"
            if arm and fired and e and e[-1][1] == "E" and e[-1][2] == inj and (not o or o[-1] != e[-1]):
                cls = "callback-error-not-delivered"
            P.append((cls, f"subscriber {i} got {show(o)} expected {show(e)}"))
    ends = sorted(e[1] for e in exps)

    # ---- using
    if fam == "using":
        want_res = []  # end instants of subscriptions that own a resource
        for i, sub in enumerate(subs_at):
            rf_raised = bool(arm and fired and arm[0] == "rf" and arm[1] == i + 1)
            of_raised = bool(arm and fired and arm[0] == "of" and arm[1] == i + 1)
            if v[1] == "ok" and not rf_raised:
                want_res.append(exps[i][1])
        if v[1] == "none" and any(a is not None for a in c.of_args):
            P.append(("factory-argument", "the observable factory did not receive None for a None resource"))
        if v[1] == "ok" and not arm and not all(a is r for a, r in zip(c.of_args, c.resources)):
            P.append(("factory-argument", "the observable factory did not receive the resource created for its subscription"))
        if len(c.resources) != len(want_res):
            P.append(("resource-count", f"{len(c.resources)} resources created for {len(want_res)} subscriptions with a working resource factory"))
        else:
            for i, (r, end) in enumerate(zip(c.resources, want_res)):
                if len(r.disposals) != 1:
                    cls = "resource-not-disposed" if not r.disposals else "resource-disposed-twice"
                    P.append((cls, f"resource {i} disposed {len(r.disposals)} times at {[t for _, t in r.disposals]}, expected once at {end:g}"))
                elif r.disposals[0][1] != end:
                    P.append(("resource-dispose-instant", f"resource {i} disposed at {r.disposals[0][1]:g}, its subscription ended at {end:g}"))
        mech = bool(c.resources) or fired
    # ---- finally
    elif fam == "finally":
        calls = [(s, t) for (s, t, slot, k) in env.probe_log if slot == "fin"]
        if len(calls) != c.nsubs:
            cls = "action-not-run" if len(calls) < c.nsubs else "action-run-twice"
            P.append((cls, f"finally action ran {len(calls)} times at {[t for _, t in calls]} for {c.nsubs} subscriptions ending at {ends}"))
        elif sorted(t for _, t in calls) != ends:
            P.append(("action-instant", f"finally action ran at {sorted(t for _, t in calls)} but the subscriptions ended at {ends}"))
        elif v[2] == "last" and c.nsubs == 1 and exps[0][2] == "terminal":
            term = c.recs[0].terminal()
            if term is not None and calls[0][0] < term[0]:
                P.append(("action-before-terminal", "finally action ran before the terminal reached the subscriber"))
        mech = bool(calls)
    # ---- do family
    else:
        name = v[1]
        mech = bool(env.probe_log)
        # notifications the source delivered before the end of each subscription, as the callbacks must have observed them
        if not (arm and fired):
            want = []
            for i, (ev, end, how) in enumerate(exps):
                for (t, k, val) in ev:
                    want.append((t, k, vt.norm_value(val) if k == "N" else None))
            slots_kind = {"next": "N", "after_next": "N", "err": "E", "comp": "C"}
            declared = {
                "do_action3": ("next", "err", "comp"), "tap3": ("next", "err", "comp"), "do_observer": ("next", "err", "comp"),
                "do_action1": ("next",), "do_action_ec": ("err", "comp"), "do_after_next": ("after_next",),
            }.get(name, ())
            for s in declared:
                kind = slots_kind[s]
                w = sorted((t, k, val) for (t, k, val) in want if k == kind)
                g = sorted((t, kind, vt.norm_value(val) if kind == "N" else None) for (_, t, slot, _, val) in c.seen if slot == s)
                if w != g:
                    P.append((f"observed-notifications:{s}", f"callback {s} observed {g} but the source delivered {w}"))
            # ordering relative to the subscriber (single subscription: steps are unambiguous)
            if c.nsubs == 1 and not P:
                rlog = c.recs[0].log
                for s in declared:
                    kind = slots_kind[s]
                    rs = [st for (st, _, k, _) in rlog if k == kind]
                    ps = [st for (st, _, slot, _, _) in c.seen if slot == s]
                    for a, b in zip(ps, rs):
                        if s == "after_next" and a < b:
                            P.append(("order:after_next", "after_next ran before the element reached the subscriber"))
                            break
                        if s != "after_next" and a > b:
                            P.append((f"order:{s}", f"callback {s} ran after the notification reached the subscriber"))
                            break
            cnt = lambda s: [(st, t) for (st, t, slot, k) in env.probe_log if slot == s]
            if name == "do_on_subscribe":
                got = sorted(t for _, t in cnt("on_subscribe"))
                if got != [float(x) for x in subs_at]:
                    P.append(("on_subscribe-calls", f"on_subscribe ran at {got}, subscriptions at {subs_at}"))
                elif c.srcs and any(a[0] > s["sub_step"] for a, s in zip(cnt("on_subscribe"), c.srcs[0].subs)):
                    P.append(("order:on_subscribe", "on_subscribe ran after the source was subscribed"))
            if name == "do_on_dispose":
                got = sorted(t for _, t in cnt("on_dispose"))
                if got != ends:
                    P.append(("on_dispose-calls", f"on_dispose ran at {got}, subscriptions ended at {ends}"))
            if name in ("do_on_terminate", "do_after_terminate"):
                s = name[3:]
                got = sorted(t for _, t in cnt(s))
                w = sorted(e[1] for e in exps if e[2] == "terminal")
                if got != w:
                    P.append((f"{s}-calls", f"{s} ran at {got}, terminals reached the subscribers at {w}"))
                elif c.nsubs == 1 and got:
                    term = c.recs[0].terminal()
                    st = cnt(s)[0][0]
                    if term is not None and ((s == "on_terminate" and st > term[0]) or (s == "after_terminate" and st < term[0])):
                        P.append((f"order:{s}", f"{s} ran on the wrong side of the terminal"))
    if env.sched.escaped and not (arm and fired):
        P.append(("escaped", f"exception escaped into the scheduler: {env.sched.escaped[0][1]!r}"))
    has_activity = bool(c.dpoint) or bool(arm) or any(ev for (ev, _, _) in exps)
    outcome = (fam, tuple(tuple((t - SUB, k) for (t, k, _) in norm_ev(r.events(), env)) for r in c.recs),
               tuple(tuple(t - SUB for _, t in r.disposals) for r in c.resources),
               tuple((slot, t - SUB) for (_, t, slot, _) in env.probe_log))
    return P, bool(mech and has_activity), outcome


# --------------------------------------------------------------------------- enumeration

def variants(tier):
    vs = []
    for rf in ("ok", "none"):
        vs.append(["using", rf])
    for op in ("finally_action", "do_finally"):
        for pos in ("last", "then_take1", "after_take1"):
            vs.append(["finally", op, pos])
    for name in ("do_action3", "do_action1", "do_action_ec", "tap3", "do_observer", "do_after_next", "do_on_subscribe", "do_on_dispose",
                 "do_on_terminate", "do_after_terminate"):
        vs.append(["do", name])
    return vs


def dispose_points(exp_first):
    """Derived from the zero-deviation expectation of the first subscription."""
    instants = sorted({e[0] for e in exp_first if e[0] > SUB})
    pts = [None, ("after", float(SUB)), ("after", float(SUB + 5))]
    for t in instants:
        pts += [("before", t), ("after", t), ("after", t + 5)]
    n = 0
    for e in exp_first:
        if e[1] == "N":
            n += 1
            if e[0] > SUB:  # a subscriber cannot dispose before subscribe() returned
                pts.append(("in_next", n))
    return pts


def all_cases(tier, seed):
    T = tls(tier, seed)
    for v in variants(tier):
        fam = v[0]
        for tname, tl in T.items():
            exp_first = expected0(tl, SUB)
            if fam == "finally" and v[2] != "last":
                exp_first = take1(exp_first)
            for nsubs in (1, 2):
                for ps in ((True, False) if fam == "using" else (True,)):
                    # ---- zero-fault runs with every dispose point
                    for dp in dispose_points(exp_first):
                        yield (v, tname, tl, nsubs, ps, dp, None)
                    # ---- faults: every invocation of every callback slot seen in the zero-deviation run
                    zero = Case(v, tl, nsubs, ps, None, None).run()
                    counts = dict(zero.env.probe_counts)
                    if fam == "using":
                        arms = [("rf", k) for k in range(1, nsubs + 1)] + [("of", k) for k in range(1, nsubs + 1)]
                        dps = [None, ("after", float(SUB)), ("after", float(SUB + 5))]
                    elif nsubs == 1:
                        arms = [(slot, k) for slot, n in sorted(counts.items()) for k in range(1, n + 1)]
                        dps = [None]
                    else:
                        arms, dps = [], []
                    for arm in arms:
                        for dp in dps:
                            yield (v, tname, tl, nsubs, ps, dp, arm)


def vid(v):
    return ":".join(str(x) for x in v[1:]) if v[0] != "using" else "using:rf-" + v[1]


def signature(v, arm, cls):
    return f"{vid(v)}|{('raise@' + arm[0]) if arm else 'nofault'}|{cls}"


def describe(v, tname, tl, nsubs, ps, dp, arm):
    return {"variant": v, "timeline_name": tname, "timeline": tl, "nsubs": nsubs, "pass_scheduler": ps, "dispose": dp, "arm": arm}


def run_case(v, tl, nsubs, ps, dp, arm):
    c = Case(v, tl, nsubs, ps, tuple(dp) if dp else None, tuple(arm) if arm else None).run()
    return c, judge(c)


def shard(part: core.Part, shard_i, nshards, tier, seed, deadline):
    for (v, tname, tl, nsubs, ps, dp, arm) in core.shard_iter(all_cases(tier, seed), shard_i, nshards):
        if part.evals % 256 == 0 and time.time() > deadline:
            part.complete = False
            return
        c, (P, nontrivial, outcome) = run_case(v, tl, nsubs, ps, dp, arm)
        d = describe(v, tname, tl, nsubs, ps, dp, arm)
        part.case((vid(v), tname, nsubs, ps, dp, arm), nontrivial, outcome=outcome,
                  sample={**d, "observed": [show(norm_ev(r.events(), c.env)) for r in c.recs],
                          "resource_disposals": [[t for _, t in r.disposals] for r in c.resources],
                          "callbacks": [(slot, t) for (_, t, slot, _) in c.env.probe_log]} if (dp or arm) else None)
        part.count("variant:" + vid(v))
        if arm:
            part.count("armed_runs")
            if c.env.injected:
                part.count("faults_reached")
        for (cls, text) in P[:1]:
            part.violation(signature(v, arm, cls), f"{vid(v)} on {tname} {tl} subs={nsubs} sched={ps} dispose={dp} arm={arm}: {text}",
                           {**d, "tier": tier, "seed": seed}, problems=[t for _, t in P])


def run(ctx: core.Ctx):
    T = tls(ctx.tier, ctx.seed)
    ctx.bounds = {
        "timelines": len(T), "timeline_max_elements": 3 if ctx.tier == "thorough" else 2, "subscriptions": [1, 2],
        "variants": [vid(v) for v in variants(ctx.tier)],
        "dispose_points": "after subscribe; before/after the notifications of every event instant; +5 between; inside the k-th on_next",
        "faults": "resource factory, observable factory (per subscription), inner source error (timelines), every invocation of every callback",
    }
    ctx.assumptions = [
        "VirtualTimeScheduler queue discipline (checked separately by C28/C29)",
        "harness LoggedCold source is conforming",
        "a raising finally action / on_dispose callback is not defined by the statement: only R1 is judged for those runs",
    ]
    part = ctx.sharded(shard)
    ctx.cov["variants_covered"] = sorted(k[8:] for k in part.counters if k.startswith("variant:"))
    ctx.cov["faults_reached"] = part.counters.get("faults_reached", 0)


def replay(case):
    v, tl = case["variant"], [tuple(x) for x in case["timeline"]]
    dp = tuple(case["dispose"]) if case.get("dispose") else None
    arm = tuple(case["arm"]) if case.get("arm") else None
    c, (P, _, _) = run_case(v, tl, case["nsubs"], case["pass_scheduler"], dp, arm)
    for i, r in enumerate(c.recs):
        print(f"subscriber {i}: {show(norm_ev(r.events(), c.env))}")
    print("resource disposals:", [[t for _, t in r.disposals] for r in c.resources])
    print("callbacks:", [(slot, t, k) for (_, t, slot, k) in c.env.probe_log])
    return [{"signature": signature(v, arm, cls), "what": text, "detail": [t for _, t in P]} for (cls, text) in P[:1]]
