"""C21 A BehaviorSubject hands its current value to every new subscriber (E2, model checking).

BFS over call histories of a fresh real `BehaviorSubject(init)` with 3 observers (plain
or scripted, see vf/subjref.py), one BFS instance per (initial value, script
configuration).  Reference: a Subject model + `value` (updated by on_next *before* the
broadcast, handed to each new subscriber inside subscribe(), before any later
notification; late subscribers after termination get only the terminal).
"""
from __future__ import annotations

from .. import core, subjref, subj_ilv
from ..subjref import P, US

PROPERTY = "C21"
LEVEL = "model_checking"
META = {
    "engine": "hbfs",
    "technique": "explicit-state BFS over call histories of a real BehaviorSubject with heap-canonical state de-duplication, judged by a plain-list reference model; plus stateless exhaustive exploration of thread interleavings (bounded preemptions) of subscribe() / dispose() racing the emitting thread, judged against the sequential placements on the same real class",
    "text": "every history over sub(i)/unsub(i)/next(a|b)/error/complete/dispose (+ callback-only subscribe after dispose) up to the depth "
    "bound, for initial values incl. None and falsy ones and for every listed configuration of plain and scripted (re-entrant) observers - "
    "including observers that subscribe/unsubscribe others from inside the on_next that hands them the current value during subscribe() - "
    "is replayed on a fresh real BehaviorSubject; per-observer logs and exceptions raised to the caller must equal the model's after every "
    "event. Instances whose finite state space BFS closes before the depth bound cover histories of any length over the menu",
    "note": "trusted: CPython, vf/hbfs.py canonicaliser, vf/subjref.py (reference model, scripted observers), AutoDetachObserver wrapping by Observable.subscribe",
}
META["text"] += "; thread part: subscribe() and dispose() racing the emitting thread, judged against the sequential placements on the same class; no exception escapes"
RULE = (
    "one BFS per configuration (initial value; which of the 3 observers is scripted and how; error object plain or falsy); events = sub(i), "
    "unsub(i), next(a), next(b), error, complete, dispose, subbare (after dispose); a case = one transition (history replayed from scratch on "
    "fresh objects); non-trivial = the last event delivered >=1 notification to an observer or raised to the caller; distinct = (configuration, history)"
)
BUDGET = {"quick": 300.0, "thorough": 1200.0}


def script_sets(tier: str) -> list:
    quick = [
        [P, P, P],
        [US(0), P, P],
        [["unsub", 1], P, P],
        [["sub", 2], P, P],
        [["unsub", 1], ["unsub", 0], P],
        [["sub", 2], P, US(2)],
        [["sub", 2], P, ["unsub", 0]],
    ]
    if tier == "quick":
        return quick
    out = []
    for s0 in (P, US(0), ["unsub", 1], ["sub", 2]):
        for s1 in (P, US(1), ["unsub", 0], ["sub", 2], ["unsub", 2]):
            for s2 in (P, US(2), ["unsub", 0], ["sub", 1]):
                out.append([s0, s1, s2])
    return out


def inits(tier: str, seed: int) -> list:
    return [None, 7] if tier == "quick" else [None, 7, 0, ""]


def configs(tier: str, seed: int):
    vals = subjref.alphabet(seed)
    cfgs = []
    for n, init in enumerate(inits(tier, seed)):
        # thorough: the full script product with the first initial value (None), the quick script set with the others
        for s in script_sets(tier if n == 0 else "quick"):
            cfgs.append({"kind": "behavior", "init": init, "scripts": s, "values": vals, "err": "plain"})
    cfgs.append({"kind": "behavior", "init": None, "scripts": [P, P, P], "values": vals, "err": "falsy"})
    depth = 7 if tier == "quick" else 30
    depths = [depth] * len(cfgs)
    # self-check of the state key (subjref.audit_merges): every merge re-validated by extending both histories
    audits = [[["sub", 2], P, ["unsub", 0]]] if tier == "quick" else [[P, P, P], [["unsub", 1], ["unsub", 0], P], [["sub", 2], P, ["unsub", 0]]]
    for s in audits:
        cfgs.append({"kind": "behavior", "init": None, "scripts": s, "values": vals, "err": "plain", "audit": 4 if tier == "quick" else 5})
        depths.append(0)
    return cfgs, depths


def run(ctx: core.Ctx):
    cfgs, depths = configs(ctx.tier, ctx.seed)
    ctx.bounds = {"depth": max(depths), "observers": 3, "initial_values": repr(inits(ctx.tier, ctx.seed)),
                  "configurations": len([c for c in cfgs if not c.get("audit")]), "script_configurations": sorted({subjref.script_tag(c) for c in cfgs}), "values": repr(cfgs[0]["values"])}
    ctx.assumptions = [
        "observers subscribe through the public Observable.subscribe (AutoDetachObserver in front of every observer)",
        "single thread: every lock is free between events",
        "cross-observer delivery order = subscription order (DESIGN section 5)",
        "a subscriber arriving from inside the delivery of on_next(v) gets v as the current value (the call has been made) and not as a broadcast",
    ]
    subjref.run_configs(ctx, cfgs, depths)
    subj_ilv.run_part(ctx, "BehaviorSubject")  # E3: subscribe() racing the emitting thread


def replay(case):
    if isinstance(case, dict) and str(case.get("harness", "")).startswith("subject-race|"):
        return subj_ilv.replay("BehaviorSubject", case)
    return subjref.replay_case(case)
