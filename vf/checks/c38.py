"""C38 Marble diagrams mean what the documented syntax says (bounded input enumeration + E1 runs).

Enumerated completely per tier: every string of the documented grammar (see `families`) x
every configuration (timespan x shift x lookup x error x raise_stopped).

Oracle: `scan` below -- a hand-written character scanner (no regular expression, nothing
shared with the implementation) that implements the docstring of `parse`:
  * every character except a space occupies one frame; a marble's time is
    frame(of its first character) x timespan + shift; `-` only advances time
  * `( .. , .. )` emits all its members at the frame of `(`
  * a value made of digits (or digits.digits) is a number (int / float); then the lookup applies
  * `|` completes, `#` errors with the given exception (default Exception('error'))
  * with raise_stopped a marble after `|`/`#` is a ValueError
Only documented input is generated: balanced groups with >= 1 non-empty comma separated
members that are values or `|`/`#`, no comma outside groups, no spaces *inside or between*
values (whether "a b" is one value or two is not documented).

Three levels per string:
  parse : parse(string, ...) == scan(string) under every configuration
  run   : from_marbles / cold (scheduler to subscribe / to the factory) and hot (subscriber at
          creation, late subscriber strictly between two frames) on a virtual scheduler deliver
          exactly the scanned notifications at the scanned times, up to the first terminal
  ctx   : the cold()/hot() of reactivex.testing.marbles.marbles_testing deliver them at
          200 + frame x timespan (a marble in hot's first frame may be skipped: documented)
"""
from __future__ import annotations

import itertools
import time as _time
from datetime import datetime, timedelta, timezone
from fractions import Fraction

from .. import core, vt

PROPERTY = "C38"
LEVEL = "exploration"
META = {
    "engine": "vtx",
    "technique": "bounded-exhaustive enumeration of marble strings of the documented grammar x configurations; parse compared with "
    "an independent hand-written character scanner, from_marbles/cold/hot and the marbles_testing context executed on virtual time",
    "text": "every string of the documented marble grammar up to the token bound (full token alphabet for short strings, every "
    "group of <=2/3 members in 25 contexts, a trimmed alphabet up to 7/9 tokens) x timespan x shift x lookup x error x "
    "raise_stopped is parsed by the real parser and compared message by message (time, kind, value by type and ==) with a "
    "scanner written from the docstring; the shorter strings are also run through from_marbles/cold/hot on a virtual "
    "scheduler and through the marbles_testing context and must deliver exactly those notifications at those instants",
    "note": "trusted: CPython, the scanner `scan` (70 lines, no regex), the harness in /verif/vf, VirtualTimeScheduler's queue "
    "discipline (C28/C29); input outside the documented grammar is not generated",
}
RULE = (
    "strings = F1 every group of 1..G members over {values, |, #} x 3 spacings x 5 prefixes x 5 suffixes; F2 every token "
    "sequence of <= L1 tokens over the full alphabet; F3 every sequence of L1+1..L2 tokens over the trimmed alphabets (no two "
    "adjacent values); x configurations (timespan x shift x lookup x error x raise_stopped); levels parse (all strings), "
    "run and ctx (strings within R1/R2); evaluation = one (string, configuration, level); non-trivial = the string has a marble "
    "beyond frame 0, a group or a space (the frame counter had to work); distinct = (level, string, configuration)"
)
BUDGET = {"quick": 150.0, "thorough": 1500.0}


class Err(Exception):
    pass


ERR = Err("given")


class OutOfGrammar(Exception):
    pass


# ------------------------------------------------------------------ the oracle: a character scanner
SPECIAL = "-|#(),"


def scan(s: str):
    """-> [(frame, kind, text, context)] kind in N/C/E; context says what preceded the marble (for signatures)."""
    out = []
    frame, i, n = 0, 0, len(s)
    prev = "start"
    while i < n:
        c = s[i]
        if c == " ":
            i += 1
            prev = prev if prev.endswith("+space") else prev + "+space"
            continue
        if c == "-":
            frame += 1
            i += 1
            prev = "tick"
            continue
        if c == "|" or c == "#":
            out.append((frame, "C" if c == "|" else "E", None, "after-" + prev))
            frame += 1
            i += 1
            prev = "terminal"
            continue
        if c == "(":
            j, member, members, width = i + 1, "", [], 1
            while j < n and s[j] != ")":
                ch = s[j]
                if ch == " ":
                    pass
                elif ch == ",":
                    members.append(member)
                    member = ""
                    width += 1
                elif ch == "(":
                    raise OutOfGrammar("nested group")
                else:
                    member += ch
                    width += 1
                j += 1
            if j >= n:
                raise OutOfGrammar("unclosed group")
            members.append(member)
            width += 1
            for k, m in enumerate(members):
                if m == "":
                    raise OutOfGrammar("empty group member")
                ctx = "group-member%d-after-%s" % (min(k, 1), prev)
                if m == "|":
                    out.append((frame, "C", None, ctx))
                elif m == "#":
                    out.append((frame, "E", None, ctx))
                elif any(ch in "-|#" for ch in m):
                    raise OutOfGrammar("special character inside a group member")
                else:
                    out.append((frame, "N", m, ctx))
            frame += width
            i = j + 1
            prev = "group"
            continue
        if c == "," or c == ")":
            raise OutOfGrammar("comma / closing parenthesis outside a group")
        j = i
        while j < n and s[j] != " " and s[j] not in SPECIAL:
            j += 1
        text = s[i:j]
        k = j
        while k < n and s[k] == " ":
            k += 1
        if k > j and k < n and s[k] not in SPECIAL:
            raise OutOfGrammar("space between two values")
        out.append((frame, "N", text, "after-" + prev))
        frame += len(text)
        i = j
        prev = "value" if len(text) == 1 else "multichar"
    return out


DIGITS = "0123456789"


def number(text: str):
    """'numbers will be cast to int or float' -- digits, or digits.digits."""
    if text and all(ch in DIGITS for ch in text):
        return int(text)
    if text.count(".") == 1:
        a, b = text.split(".")
        if (a or b) and all(ch in DIGITS for ch in a + b):
            return float(text)
    return text


def expected_items(items, lookup):
    """[(frame, kind, value-or-None)] after number parsing and lookup."""
    out = []
    for (frame, kind, text, ctx) in items:
        if kind == "N":
            v = number(text)
            if lookup is not None and v in lookup:
                v = lookup[v]
            out.append((frame, "N", v, ctx))
        else:
            out.append((frame, kind, None, ctx))
    return out


def first_terminal(items):
    for idx, it in enumerate(items):
        if it[1] in "CE":
            return idx
    return None


# ------------------------------------------------------------------ configurations
def secs(x) -> Fraction:
    if isinstance(x, timedelta):
        return Fraction(x // timedelta(microseconds=1), 1_000_000)
    return Fraction(x)


def timespans(wide):
    d = {"1": 1, "0.5": 0.5, "td0.25": timedelta(milliseconds=250)}
    if wide:
        d.update({"2.0": 2.0, "0.1": 0.1, "td0.1": timedelta(milliseconds=100)})
    return d


def shifts(wide):
    d = {"0": 0, "3": 3}
    if wide:
        d.update({"td3": timedelta(seconds=3), "0.5": 0.5})
    return d


def lookups(wide, A):
    # the "falsy" lookup (values None / 0 / "") is part of every tier: a lookup result must not be tested by truthiness
    d = {"none": None, "map": {A: A.upper(), 1: "one"}, "falsy": {A: None, 12: 0, 1.5: ""}}
    if wide:
        d.update({"empty": {}})
    return d


ERRORS = {"default": None, "given": ERR}
EXACT_TS = {"1", "0.5", "td0.25", "2.0"}  # dyadic: frame x timespan + shift is exact in float arithmetic
EXACT_SH = {"0", "3", "td3", "0.5"}


def letters(seed):
    return [("a", "b"), ("x", "y"), ("k", "z")][seed % 3]


def mkcfg(A, tn, sn, ln, en, rs=False, abs_=False):
    ts, sh, lk = timespans(True)[tn], shifts(True)[sn], lookups(True, A)[ln]
    return {"ts_name": tn, "sh_name": sn, "lk_name": ln, "err_name": en, "ts": ts, "sh": sh, "lk": lk, "err": ERRORS[en],
            "ts_s": secs(ts), "sh_s": secs(sh), "exact": tn in EXACT_TS and sn in EXACT_SH, "rs": rs, "abs": abs_}


def config_list(seed, wide, with_given_error, both_errors=True):
    """timespan x shift x lookup (x error when the string has a `#`; the long strings of F3 take the given error only)."""
    A, _ = letters(seed)
    out = []
    for tn, sn, ln in itertools.product(timespans(wide), shifts(wide), lookups(wide, A)):
        for en in ERRORS:
            if en == "given" and not with_given_error:
                continue
            if en == "default" and with_given_error and not both_errors:
                continue
            out.append(mkcfg(A, tn, sn, ln, en))
    return out


def cfg_id(cfg, *extra):
    return (cfg["ts_name"], cfg["sh_name"], cfg["lk_name"], cfg["err_name"]) + extra


# ------------------------------------------------------------------ string families
def groups_over(members, sizes):
    for m in sizes:
        for ms in itertools.product(members, repeat=m):
            yield ms


def render_group(ms, spacing):
    if spacing == 0:
        return "(" + ",".join(ms) + ")"
    if spacing == 1:
        return "(" + ", ".join(ms) + ")"
    return "( " + " ,".join(ms) + " )"


def ok_sequence(toks, values):
    """No two value tokens adjacent (spaces between them do not separate them)."""
    last_value = False
    for t in toks:
        if t == " ":
            continue
        v = t in values
        if v and last_value:
            return False
        last_value = v
    return True


def bounds(tier):
    """G: group sizes of family F1; L1: token bound with the full alphabet (F2); L2s: token bound with the trimmed
    alphabet of 6 tokens incl. space; L2m: with 5 tokens (no space); L2: with 4 tokens (no space, no single-letter value)
    (F3); R1/R2: bounds of F2/F3 for the run and ctx levels; F1_run_contexts: how many of F1's 25 (prefix, suffix) contexts
    also go through the run and ctx levels; wide: F1/F2 use the wide configuration set."""
    if tier == "quick":
        return {"G": 2, "L1": 3, "L2s": 5, "L2m": 6, "L2": 7, "R1": 2, "R2": 4, "F1_run_contexts": 9, "wide": False}
    return {"G": 3, "L1": 4, "L2s": 7, "L2m": 8, "L2": 9, "R1": 3, "R2": 6, "F1_run_contexts": 25, "wide": True}


def families(tier, seed):
    """Yield (string, family, ntokens)."""
    A, B = letters(seed)
    b = bounds(tier)
    values = [A, B, "1", "12", "1.5"]
    members = values + ["|", "#"]
    # F1: every group in 25 contexts
    prefixes = ["", "-", A, "12-", " "]
    suffixes = ["", "-", B, "|", "-" + A]
    for ms in groups_over(members, range(1, b["G"] + 1)):
        for sp in (0, 1, 2):
            g = render_group(ms, sp)
            for p in prefixes:
                for q in suffixes:
                    runs = b["F1_run_contexts"] == 25 or (p in ("", "12-", " ") and q in ("", "|", "-" + A))
                    yield (p + g + q, "F1" if runs else "F1p", 3)
    # F2: full alphabet
    rep_groups = [f"({A})", f"({A},{B})", "(12,1.5)", "(1,|)", f"(#,{A})", f"({B}, 1)"]
    full = values + ["-", "|", "#", " "] + rep_groups
    yield ("", "F2", 0)
    for n in range(1, b["L1"] + 1):
        for toks in itertools.product(full, repeat=n):
            if ok_sequence(toks, values):
                yield ("".join(toks), "F2", n)
    # F3: trimmed alphabet, longer strings (which terminal plays in it depends on the seed)
    term = "|#"[(seed // 3) % 2]
    tv = [A, "12"]
    for n in range(b["L1"] + 1, b["L2"] + 1):
        trimmed = ([A] if n <= b["L2m"] else []) + ["12", "-", term, f"(1,{B})"] + ([" "] if n <= b["L2s"] else [])
        for toks in itertools.product(trimmed, repeat=n):
            if ok_sequence(toks, tv):
                yield ("".join(toks), "F3", n)


def run_level_wanted(fam, ntok, b):
    if fam == "F1":
        return True
    if fam == "F1p":  # F1 context that only goes through the parse level in this tier
        return False
    if fam == "F2":
        return ntok <= b["R1"]
    return ntok <= b["R2"]


# ------------------------------------------------------------------ comparing
def us(t):
    return round(Fraction(t) * 1_000_000)


def same_time(actual, base, ts, frame, exact: bool):
    """Is `actual` the instant base + frame x ts?  For the exact configurations (dyadic timespan and shift, small frames)
    float arithmetic is exact, so == on floats is an exact comparison; otherwise compare at microsecond resolution."""
    if type(actual) is not float and type(actual) is not int:
        if isinstance(actual, timedelta):
            actual = actual.total_seconds()
        elif not isinstance(actual, (int, float)) or isinstance(actual, bool):
            return False
    if exact:
        return actual == float(base) + frame * float(ts)
    return us(actual) == us(base + frame * ts)


def value_class(v):
    if isinstance(v, (int, float)) and not isinstance(v, bool):
        return "number"
    return "plain"


def note_tuple(n):
    """(kind, value) of a library Notification without going through Notification.__eq__."""
    k = n.kind
    if k == "N":
        return ("N", n.value)
    if k == "E":
        return ("E", n.exception)
    return ("C", None)


def err_ok(actual, error):
    if error is not None:
        return actual is error
    return type(actual) is Exception and actual.args == ("error",)


def compare(exp, act, error, exact, base: Fraction, ts: Fraction, raw_items=None):
    """exp: [(frame, kind, value, ctx)], act: [(time, kind, value)] -> (what-tag, text) or None."""
    for idx in range(min(len(exp), len(act))):
        (frame, ke, ve, ctx), (ta, ka, va) = exp[idx], act[idx]
        if ke != ka:
            return (f"kind|{ctx}", f"message {idx}: expected {ke} observed {ka}({va!r})")
        if ke == "N" and vt.norm_value(ve) != vt.norm_value(va):
            raw = number(raw_items[idx][2]) if raw_items else ve
            cls = ("lookup-" if raw_items and vt.norm_value(raw) != vt.norm_value(ve) else "") + value_class(raw)
            return (f"value|{cls}", f"message {idx}: expected on_next({ve!r}) observed on_next({va!r})")
        if ke == "E" and not err_ok(va, error):
            return ("error-object", f"message {idx}: on_error carries {va!r}, expected {'Exception(error)' if error is None else repr(error)}")
        if not same_time(ta, base, ts, frame, exact):
            return (f"time|{ctx}", f"message {idx} ({ke} {ve!r}, frame {frame}): time {ta!r}, expected {float(base + frame * ts)!r}")
    if len(exp) != len(act):
        return ("count", f"expected {len(exp)} messages {[(float(base + f * ts), k, v) for (f, k, v, c) in exp]}, observed {len(act)} {show_act(act)}")
    return None


def show_act(act):
    return [(t if isinstance(t, (int, float)) else repr(t), k, (v if v is None or isinstance(v, (int, float, str)) else repr(v))) for (t, k, v) in act]


# ------------------------------------------------------------------ level 1: parse
def judge_parse(s, items, cfg, exp=None):
    from reactivex.observable.marbles import parse

    ts, sh, lk, err, rs = cfg["ts"], cfg["sh"], cfg["lk"], cfg["err"], cfg["rs"]
    exp = exp if exp is not None else expected_items(items, lk)
    ft = first_terminal(exp)
    after_terminal = ft is not None and ft < len(exp) - 1
    must_raise = rs and after_terminal
    kw = {}
    if cfg["err_name"] != "default":
        kw["error"] = err
    try:
        got = parse(s, timespan=ts, time_shift=sh, lookup=lk, raise_stopped=rs, **kw)
    except ValueError as e:
        if must_raise:
            return None, "ValueError"
        return ("raised:ValueError" + ("|stopped-unasked" if after_terminal else ""), f"parse raised ValueError({e})"), "ValueError"
    except Exception as e:
        return (f"raised:{type(e).__name__}", f"parse raised {type(e).__name__}({e})"), type(e).__name__
    if must_raise:
        return ("stopped-not-raised|" + exp[ft + 1][3], "raise_stopped=True and a marble follows a terminal, but parse returned normally"), "returned"
    try:
        act = [(t, *note_tuple(n)) for (t, n) in got]
    except Exception as e:
        return ("result-shape", f"parse result is not a list of (time, Notification): {e}"), "shape"
    p = compare(exp, act, err, cfg["exact"], cfg["sh_s"], cfg["ts_s"], items)
    return p, act


# ------------------------------------------------------------------ level 2: from_marbles / cold / hot on virtual time
T0 = 100  # hot is created (and first subscribed) at this instant
SUB = vt.SUB  # cold is subscribed here


def judge_run(s, items, cfg, with_cold, exp_all=None):
    """-> [(api, problem-or-None)], observed summary"""
    import reactivex as rx

    ts, sh, lk, err = cfg["ts"], cfg["sh"], cfg["lk"], cfg["err"]
    tsf, shf = cfg["ts_s"], cfg["sh_s"]
    exp_all = exp_all if exp_all is not None else expected_items(items, lk)
    ft = first_terminal(exp_all)
    illegal = ft is not None and ft < len(exp_all) - 1  # a marble after a terminal: the factories parse with raise_stopped
    exp = exp_all if ft is None else exp_all[: ft + 1]
    env = vt.Env(budget=5000)
    kw = {} if cfg["err_name"] == "default" else {"error": err}
    made, recs = {}, {}

    def guarded(api, fn):
        try:
            return fn()
        except ValueError:
            made[api] = "ValueError"
        except Exception as e:
            made[api] = f"{type(e).__name__}({e})"
        return None

    # hot: created at T0 with subscriber A right away; subscriber B arrives in the middle of frame 1
    duetime = sh
    if cfg.get("abs") == "td":  # the same shift spelled as a timedelta ("timedelta from now")
        duetime = timedelta(seconds=float(shf))
    elif cfg.get("abs"):  # ... and as an absolute datetime on the virtual clock
        duetime = datetime(1970, 1, 1, tzinfo=timezone.utc) + timedelta(seconds=T0) + timedelta(seconds=float(shf))
    hot_box = {}

    def make_hot():
        h = guarded("hot", lambda: rx.hot(s, timespan=ts, duetime=duetime, scheduler=env.sched, lookup=lk, **kw))
        if h is not None:
            hot_box["h"] = h
            recs["hot"] = env.recorder("hot")
            recs["hot"].subscription = h.subscribe(recs["hot"])

    env.at(T0, make_hot)
    base_hot = Fraction(T0) + shf
    tB = base_hot + Fraction(3, 2) * tsf
    late_defined = not any(it[1] in "CE" and it[0] <= 1 for it in exp_all)

    def sub_late():
        if "h" in hot_box:
            recs["hot-late"] = env.recorder("hot-late")
            recs["hot-late"].subscription = hot_box["h"].subscribe(recs["hot-late"])

    if late_defined:
        env.at(float(tB), sub_late)

    if with_cold:
        def make_cold(api, factory, to_factory):
            def go():
                o = guarded(api, lambda: factory(s, timespan=ts, lookup=lk, scheduler=(env.sched if to_factory else None), **kw))
                if o is not None:
                    recs[api] = env.recorder(api)
                    recs[api].subscription = guarded(api, lambda: o.subscribe(recs[api], scheduler=(None if to_factory else env.sched)))
            return go

        env.at(SUB, make_cold("from_marbles", rx.from_marbles, False))
        env.at(SUB, make_cold("cold", rx.cold, True))
    status = env.run(horizon=1500)
    results, observed = [], {}
    apis = ["hot"] + (["hot-late"] if late_defined else []) + (["from_marbles", "cold"] if with_cold else [])
    exact = cfg["exact"]
    for api in apis:
        if api in made:
            observed[api] = made[api]
            if made[api] == "ValueError" and illegal:
                results.append((api, None))
            else:
                results.append((api, (f"raised:{made[api].split('(')[0]}", f"raised {made[api]}")))
            continue
        rec = recs.get(api)
        if rec is None:
            if api == "hot-late" and "hot" in made:
                continue
            results.append((api, ("not-built", f"{api} was not built")))
            continue
        act = rec.events()
        observed[api] = show_act(act)
        if api == "hot":
            base, e = base_hot, exp
        elif api == "hot-late":
            base = base_hot
            e = [it for it in exp if base + it[0] * tsf > tB]
        else:
            base, e = Fraction(SUB), exp
        # (a string with a marble after a terminal that the factory nevertheless accepted must still deliver the prefix)
        p = compare(e, act, err, exact, base, tsf)
        if p is not None and api == "hot-late" and e and e[-1][1] in "CE" and len(act) == len(e) - 1 \
                and compare(e[:-1], act, err, exact, base, tsf) is None and recs["hot"].terminal() is not None:
            # everything arrived except the terminal, which the earlier subscriber did receive
            p = ("terminal-lost-after-earlier-subscriber", "the second subscriber received every value but never the terminal "
                 f"notification that the first subscriber received; observed {show_act(act)}")
        g = rec.grammar_violation()
        if p is None and g:
            p = ("grammar", g)
        results.append((api, p))
    if status != "ok":
        results.append(("run", ("budget", "run did not terminate within the action budget")))
    if env.sched.escaped:
        t, e = env.sched.escaped[0]
        results.append(("run", (f"escaped:{type(e).__name__}", f"{type(e).__name__}({e}) escaped into the scheduler at t={t}")))
    return results, observed


# ------------------------------------------------------------------ level 3: marbles_testing context
def judge_ctx(s, items, cfg, exp_all=None):
    from reactivex.testing.marbles import marbles_testing

    ts, lk, err = cfg["ts"], cfg["lk"], cfg["err"]
    tsf = cfg["ts_s"]
    exp_all = exp_all if exp_all is not None else expected_items(items, lk)
    ft = first_terminal(exp_all)
    illegal = ft is not None and ft < len(exp_all) - 1
    exp = exp_all if ft is None else exp_all[: ft + 1]
    e_arg = None if cfg["err_name"] == "default" else err
    results, observed = [], {}
    for api in ("testing.cold", "testing.hot"):
        try:
            with marbles_testing(timespan=ts) as ctx:
                obs = (ctx.cold if api == "testing.cold" else ctx.hot)(s, lk, e_arg)
                res = ctx.start(obs)
            act = [(r.time, *note_tuple(r.value)) for r in res]
        except ValueError as e:
            observed[api] = "ValueError"
            results.append((api, None if illegal else ("raised:ValueError", f"raised ValueError({e})")))
            continue
        except Exception as e:
            observed[api] = type(e).__name__
            results.append((api, (f"raised:{type(e).__name__}", f"raised {type(e).__name__}({e})")))
            continue
        observed[api] = show_act(act)
        p = compare(exp, act, err, cfg["exact"], Fraction(200), tsf)
        if p is not None and api == "testing.hot":
            # documented: "a marble declared as the first character will be skipped by the test scheduler"; a terminal
            # skipped that way leaves nothing to deliver
            skipped = [] if any(it[1] in "CE" and it[0] == 0 for it in exp) else [it for it in exp if it[0] > 0]
            p = compare(skipped, act, err, cfg["exact"], Fraction(200), tsf)
        results.append((api, p))
    return results, observed


# ------------------------------------------------------------------ enumeration of (string, level, configuration)
def nontrivial_string(items, s):
    return any(it[0] > 0 for it in items) or "(" in s or " " in s


def feed(part, level, s, cfg, nontriv, observed, problems, tier, seed, extra=()):
    """problems: [(api, (tag, text))]"""
    sample = None
    if len(part.samples) < 2:
        sample = {"level": level, "string": s, "config": list(cfg_id(cfg, *extra)), "observed": repr(observed)}
    part.case((level, s) + cfg_id(cfg, *extra), nontriv, outcome=(level, repr(observed)), sample=sample)
    seen = None
    for (api, p) in problems:
        if p is None:
            continue
        sig = f"{api}|{p[0]}"
        seen = seen or set()
        if sig in seen:
            continue
        seen.add(sig)
        case = {"level": level, "string": s, "ts": cfg["ts_name"], "shift": cfg["sh_name"], "lookup": cfg["lk_name"], "error": cfg["err_name"],
                "raise_stopped": bool(cfg.get("rs")), "abs": cfg.get("abs") or False, "tier": tier, "seed": seed}
        part.violation(sig, f"{api}({s!r}, timespan={cfg['ts_name']}, shift={cfg['sh_name']}, lookup={cfg['lk_name']}, "
                            f"raise_stopped={bool(cfg.get('rs'))}): {p[1]}", case, api=api)


_CFG_CACHE: dict = {}


def cfgs_for(seed, wide, has_err, both_errors):
    k = (seed, wide, has_err, both_errors)
    if k not in _CFG_CACHE:
        _CFG_CACHE[k] = config_list(seed, wide, has_err, both_errors)
    return _CFG_CACHE[k]


def process_string(part, s, fam, ntok, tier, seed, b):
    try:
        items = scan(s)
    except OutOfGrammar as e:  # the generator left the documented grammar: a harness bug, never a verdict
        raise RuntimeError(f"generator produced a string outside the documented grammar: {s!r}: {e}")
    nontriv = nontrivial_string(items, s)
    has_err = any(it[1] == "E" for it in items)
    part.count("strings:" + fam)
    run_wanted = run_level_wanted(fam, ntok, b)
    # the long strings of F3 use the base configuration set in every tier; F1/F2 the tier's set
    wide = b["wide"] and fam != "F3"
    exp_by_lk = {}
    for cfg in cfgs_for(seed, wide, has_err, fam != "F3"):
        ln = cfg["lk_name"]
        if ln not in exp_by_lk:
            exp_by_lk[ln] = expected_items(items, cfg["lk"])
        exp = exp_by_lk[ln]
        for rs in (False, True):
            c = dict(cfg, rs=rs)
            p, obs = judge_parse(s, items, c, exp)
            feed(part, "parse", s, c, nontriv, obs, (("parse", p),), tier, seed, extra=(rs,))
        if run_wanted and ln in ("none", "map"):
            with_cold = cfg["sh_name"] == "0"
            results, obs = judge_run(s, items, cfg, with_cold, exp)
            feed(part, "run", s, cfg, nontriv, obs, results, tier, seed)
            if cfg["sh_name"] == "3":  # hot's duetime spelled as timedelta (every tier) and as absolute datetime (wide set)
                for due in ("td", "abs"):
                    if due == "abs" and not (wide and cfg["ts_name"] in ("1", "0.5", "0.1")):
                        continue
                    c = dict(cfg, abs=due)
                    results, obs = judge_run(s, items, c, False, exp)
                    feed(part, "run", s, c, nontriv, obs, results, tier, seed, extra=(due,))
            if with_cold:
                results, obs = judge_ctx(s, items, cfg, exp)
                feed(part, "ctx", s, cfg, nontriv, obs, results, tier, seed)


def shard(part: core.Part, shard_i, nshards, tier, seed, deadline):
    b = bounds(tier)
    n = 0
    for (s, fam, ntok) in core.shard_iter(families(tier, seed), shard_i, nshards):
        n += 1
        if n % 64 == 0 and _time.time() > deadline:
            part.complete = False
            return
        process_string(part, s, fam, ntok, tier, seed, b)


def run(ctx: core.Ctx):
    b = bounds(ctx.tier)
    A, B = letters(ctx.seed)
    w = b["wide"]
    ctx.bounds = dict(b, timespans=list(timespans(w)), shifts=list(shifts(w)), lookups=list(lookups(w, A)),
                      errors=list(ERRORS), raise_stopped=[False, True], letters=[A, B], F3_configurations="base set (3 x 2 x 2)",
                      run_level_lookups=["none", "map"],
                      meaning="G group sizes (F1); L1 tokens full alphabet (F2); L2s/L2 tokens trimmed alphabet with/without space (F3); "
                              "R1/R2 token bounds of F2/F3 for the run and ctx levels")
    ctx.assumptions = [
        "only input of the documented grammar is generated (balanced groups of >=1 non-empty comma separated members, no comma "
        "outside groups, no space inside or between values)",
        "for strings with a marble after a terminal the factories may raise ValueError (they parse with raise_stopped) or deliver the prefix",
        "hot's late subscriber is judged only when no terminal lies in frames 0..1; a marble in the first frame of testing.hot may be skipped (documented)",
        "VirtualTimeScheduler queue discipline (C28/C29)",
    ]
    part = ctx.sharded(shard)
    ctx.cov["strings_by_family"] = {k[8:]: n for k, n in sorted(part.counters.items()) if k.startswith("strings:")}


def replay(case):
    s, seed = case["string"], case["seed"]
    A, _ = letters(seed)
    cfg = mkcfg(A, case["ts"], case["shift"], case["lookup"], case["error"], case.get("raise_stopped", False), case.get("abs", False))
    items = scan(s)
    print("scanned:", [(f, k, t) for (f, k, t, c) in items])
    if case["level"] == "parse":
        p, obs = judge_parse(s, items, cfg)
        results = [("parse", p)]
    elif case["level"] == "run":
        results, obs = judge_run(s, items, cfg, (not cfg["abs"]) and case["shift"] == "0")
    else:
        results, obs = judge_ctx(s, items, cfg)
    print("observed:", obs)
    return [{"signature": f"{api}|{p[0]}", "what": p[1], "detail": {"api": api}} for (api, p) in results if p is not None]
