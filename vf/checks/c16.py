"""C16 Rate-limiting operators follow their timing rules (E1, bounded-exhaustive).

Enumerated completely per tier: every operator instance of `instances()` (debounce =
throttle_with_timeout, throttle_first, throttle_with_mapper, sample with a period and with a
sampler observable) x every timeline of `timeref.gap_timelines`: <=N elements, consecutive
gaps from {0,5,10,15} (so < due, = due, > due for the due times used; sums of gaps cover the
multi-gap windows of throttle_first/sample), bursts, completion/error/no terminal at every
gap incl. the instant of the last (pending) element.  Oracle: the statement's rule as a
nondeterministic reference simulator: exact where no two events of different origin share an
instant; an arrival in the same instant as the operator's timer may go either way (R3).
"""
from __future__ import annotations

import time

from .. import core, timed_ilv, timeref, vt
from ..timeref import src_err

PROPERTY = "C16"
LEVEL = "exploration"
META = {
    "engine": "vtx",
    "technique": "bounded-exhaustive enumeration of (rate-limiting operator instance, gap-re-timed timeline) on virtual time against "
    "nondeterministic reference simulators (closure over same-instant orders); plus stateless exhaustive exploration of thread interleavings (bounded preemptions) of the operator on a real-time scheduler with the source on its own thread, timer and source notification due in the same instant",
    "text": "debounce/throttle_with_timeout, throttle_first, throttle_with_mapper (per-element throttle observables incl. synchronously empty, "
    "emitting, completing, never) and sample (period and sampler observable) are executed on the real code for every timeline of <=N elements "
    "with gaps <,=,> the due time, bursts and completion/error with a pending element; every observed (instant, notification) list must be a "
    "member of the reference set; exhaustive within N",
    "note": "trusted: CPython, the harness in /verif/vf (vt.py, timeref.py), the reference simulators, VirtualTimeScheduler's queue discipline (C28/C29)",
}
META["text"] += "; thread part: debounce, throttle_with_mapper, sample on TimeoutScheduler/EventLoopScheduler (controlled clock) with the source on its own thread and a notification in the instant a timer is due: the pending element is never lost, nothing superseded or early is emitted"
RULE = (
    "all (instance, timeline) pairs: instance = operator x due time/period/throttle observables x parameter form x clock kind; timelines = every "
    "sequence of <=N on_next with consecutive gaps in {0,5,10,15} followed by nothing, completion or error after every gap in "
    "{0,5,10,15}; element values: every word over two values (thorough: additionally pairwise distinct positional values); "
    "non-trivial = the source emitted >=1 element and (the reference output differs from the source's own events or a same-instant "
    "tie was resolved); distinct = (instance, timeline)"
)
BUDGET = {"quick": 300.0, "thorough": 2400.0}

GAPS = (0, 5, 10, 15)
SPAN = 303  # horizon after subscription (no event of any case lies at or after it, apart from sampler ticks)


# ------------------------------------------------------------------ reference models

def flush_on_error(sim, has):
    """The statement defines the flush of a pending element for completion only; for an error
    both dropping it and delivering it first are admissible."""
    return has and sim.ch(2) == 1


class Debounce:
    """an element is emitted only if no newer one arrives within the due time; completion flushes"""

    def __init__(self, tl, due):
        self.tl, self.due, self.has, self.val = tl, due, False, None

    def start(self, sim):
        sim.subscribe("src", self.tl)

    def on_source(self, sim, name, k, v):
        if k == "N":
            self.has, self.val = True, vt.norm_value(v)
            sim.timer("due", sim.now + self.due)
        elif k == "C":
            if self.has:
                sim.emit("N", self.val)
            sim.emit("C")
        else:
            if flush_on_error(sim, self.has):
                sim.emit("N", self.val)
            sim.emit("E", src_err("src"))

    def on_timer(self, sim, tid):
        if self.has:
            sim.emit("N", self.val)
        self.has = False


class ThrottleFirst:
    """an element is emitted only when at least the window has passed since the last emitted one"""

    def __init__(self, tl, w):
        self.tl, self.w, self.last = tl, w, None

    def start(self, sim):
        sim.subscribe("src", self.tl)

    def on_source(self, sim, name, k, v):
        if k == "N":
            if self.last is None or sim.now - self.last >= self.w:
                self.last = sim.now
                sim.emit("N", vt.norm_value(v))
        elif k == "C":
            sim.emit("C")
        else:
            sim.emit("E", src_err("src"))

    def on_timer(self, sim, tid):
        pass


class ThrottleWithMapper:
    """the pending (latest) element is emitted when its throttle observable fires (first emission
    or completion); a newer element replaces it and its throttle; completion flushes"""

    def __init__(self, tl, throttles):
        self.tl, self.throttles = tl, throttles
        self.has, self.val, self.cur, self.k = False, None, None, 0

    def start(self, sim):
        sim.subscribe("src", self.tl)

    def on_source(self, sim, name, k, v):
        if name == "src":
            if k == "N":
                if self.cur is not None:
                    sim.unsubscribe(self.cur)
                self.k += 1
                self.cur = ("t", self.k)
                self.has, self.val, self.raw = True, vt.norm_value(v), v
                sim.subscribe(self.cur, self.throttles[v])
            elif k == "C":
                if self.has:
                    sim.emit("N", self.val)
                sim.emit("C")
            else:
                if flush_on_error(sim, self.has):
                    sim.emit("N", self.val)
                sim.emit("E", src_err("src"))
        elif name == self.cur:
            if k == "E":
                sim.emit("E", src_err(f"t{self.raw}"))
                return
            sim.unsubscribe(name)
            if self.has:
                sim.emit("N", self.val)
            self.has = False

    def on_timer(self, sim, tid):
        pass


class Sample:
    """at each sampler tick the latest not-yet-sampled element is emitted.  The statement does not
    say when the result completes: admissible are completion at the first tick at/after the
    source's completion (after sampling what is pending) and completion in the instant of the
    source's completion (with or without delivering what is pending); it is silent on whether the
    sampler observable's completion counts as a tick (both admissible)."""

    def __init__(self, tl, period=None, sampler=None):
        self.tl, self.period, self.sampler = tl, period, sampler
        self.has, self.val, self.at_end = False, None, False

    def start(self, sim):
        sim.subscribe("src", self.tl)
        if self.period is not None:
            sim.timer("tick", sim.now + self.period)
        else:
            sim.subscribe("sampler", self.sampler)

    def tick(self, sim):
        if self.has:
            self.has = False
            sim.emit("N", self.val)
        if self.at_end:
            sim.emit("C")

    def on_source(self, sim, name, k, v):
        if name == "src":
            if k == "N":
                self.has, self.val = True, vt.norm_value(v)
            elif k == "C":
                mode = sim.ch(3)
                if mode == 0:
                    self.at_end = True
                else:
                    if mode == 2 and self.has:
                        sim.emit("N", self.val)
                    sim.emit("C")
            else:
                if flush_on_error(sim, self.has):
                    sim.emit("N", self.val)
                sim.emit("E", src_err("src"))
        else:
            if k == "N" or (k == "C" and sim.ch(2) == 0):
                self.tick(sim)

    def on_timer(self, sim, tid):
        self.tick(sim)
        if not sim.closed:
            sim.timer("tick", sim.now + self.period)


# ------------------------------------------------------------------ instances

class Inst:
    def __init__(self, iid, clock, build, model, extra=None, first_gaps=None, values="pos", deep=True):
        self.iid, self.clock, self.build, self.model = iid, clock, build, model
        self.extra, self.first_gaps = extra or {}, first_gaps
        self.values, self.deep = values, deep  # see timeref.instance_timelines


THROTTLE_OBS = {
    "sync": [(None, "C", None)],
    "n10": [(10, "N", 0), (20, "N", 1)],
    "c5": [(5, "C", None)],
    "never": [],
    "n0": [(0, "N", 0)],
    "n15c": [(15, "N", 0), (15, "C", None)],
}
SAMPLERS = {
    "every10": [(10 * i, "N", i) for i in range(1, 13)],
    "15,30,C45": [(15, "N", 0), (30, "N", 1), (45, "C", None)],
    "burst10,10,25": [(10, "N", 0), (10, "N", 1), (25, "N", 2), (40, "N", 3), (55, "N", 4), (70, "N", 5)],
    "C20": [(20, "C", None)],
}


def bounds(tier):
    if tier == "quick":
        return {
            "N": 3,
            "debounce": [("rel", 10, "num"), ("td", 10, "num"), ("rel", 5, "num"), ("rel", 10, "dt")],
            "throttle_first": [("rel", 10, "num"), ("rel", 15, "num"), ("td", 10, "dt")],
            "throttle_obs": ("sync", "n10", "c5", "never"),
            "sample_period": [("rel", 10, "num"), ("rel", 15, "num"), ("td", 10, "dt")],
            "samplers": ("every10", "15,30,C45"),
        }
    return {
        "N": 4,
        "debounce": [(f, d, c) for c in ("num", "dt") for f in ("rel", "td") for d in (5, 10, 15)] + [("float", 10, "num"), ("rel", 25, "num")],
        "throttle_first": [(f, d, c) for c in ("num", "dt") for f in ("rel", "td") for d in (5, 10, 15, 25)],
        "throttle_obs": ("sync", "n10", "c5", "never", "n0", "n15c"),
        "sample_period": [(f, d, c) for c in ("num", "dt") for f in ("rel", "td") for d in (5, 10, 15, 25)],
        "samplers": ("every10", "15,30,C45", "burst10,10,25", "C20"),
    }


def seed_params(seed):
    rot = seed % 3
    vals = (1 + 10 * rot, 2 + 10 * rot, 3 + 10 * rot, 4 + 10 * rot)
    sub = (200, 300, 250)[rot]
    return vals, sub


def time_arg(K, form, d):
    return d if form == "rel" else (float(d) if form == "float" else K.td(d))


def instances(tier, seed):
    from reactivex import operators as ops

    b = bounds(tier)
    vals, sub = seed_params(seed)
    A, B = vals[0], vals[1]

    for (form, d, clock) in b["debounce"]:
        yield Inst(f"debounce:{form}:{d}:{clock}", clock,
                   lambda K, S, d=d, form=form: S["src"].pipe(ops.debounce(time_arg(K, form, d), scheduler=K.sched)),
                   lambda tl, d=d: Debounce(tl, d), first_gaps=(5,))
    yield Inst("throttle_with_timeout:rel:10:num", "num",
               lambda K, S: S["src"].pipe(ops.throttle_with_timeout(10, scheduler=K.sched)),
               lambda tl: Debounce(tl, 10), first_gaps=(5,))
    for (form, d, clock) in b["throttle_first"]:
        yield Inst(f"throttle_first:{form}:{d}:{clock}", clock,
                   lambda K, S, d=d, form=form: S["src"].pipe(ops.throttle_first(time_arg(K, form, d), scheduler=K.sched)),
                   lambda tl, d=d: ThrottleFirst(tl, d), first_gaps=(5,))
    names = b["throttle_obs"]
    for ta in names:
        for tb in names:
            throttles = {A: THROTTLE_OBS[ta], B: THROTTLE_OBS[tb]}
            extra = {f"t{A}": THROTTLE_OBS[ta], f"t{B}": THROTTLE_OBS[tb]}
            yield Inst(f"throttle_with_mapper:{ta}:{tb}:num", "num",
                       lambda K, S: S["src"].pipe(ops.throttle_with_mapper(lambda x: S[f"t{x}"])),
                       lambda tl, throttles=throttles: ThrottleWithMapper(tl, throttles), extra=extra, first_gaps=(5,), values="alpha")
    for (form, d, clock) in b["sample_period"]:
        yield Inst(f"sample:{form}:{d}:{clock}", clock,
                   lambda K, S, d=d, form=form: S["src"].pipe(ops.sample(time_arg(K, form, d), scheduler=K.sched)),
                   lambda tl, d=d: Sample(tl, period=d))
    for sn in b["samplers"]:
        yield Inst(f"sample:obs:{sn}:num", "num",
                   lambda K, S: S["src"].pipe(ops.sample(S["sampler"])),
                   lambda tl, sn=sn: Sample(tl, sampler=SAMPLERS[sn]), extra={"sampler": SAMPLERS[sn]})


def all_cases(tier, seed):
    vals, _ = seed_params(seed)
    cache = {}
    for inst in instances(tier, seed):
        for tl in timeref.instance_timelines(tier, inst.values, inst.deep, vals, GAPS, inst.first_gaps, cache):
            yield inst, tl


def judge(inst, tl, seed):
    _, sub = seed_params(seed)
    K = timeref.Clock(inst.clock, seed)
    sources = {"src": tl}
    sources.update(inst.extra)
    problems, obs, exp, tied, S = timeref.judge(K, sub, sources, inst.build, lambda: inst.model(tl), (), horizon=sub + SPAN)
    n_el = sum(1 for e in tl if e[1] == "N")
    plain = tuple((sub + t, k, (vt.norm_value(v) if k == "N" else (src_err("src") if k == "E" else None))) for (t, k, v) in timeref.until_terminal(tl))
    nontrivial = n_el >= 1 and (tied or any(e[0] != plain for e in exp))
    return problems, nontrivial, obs, exp


def signature(inst, problems):
    parts = inst.iid.split(":")
    op = parts[0]
    if op == "throttle_with_mapper":
        shape = "mapper"
    elif parts[1] == "obs":
        shape = "sampler-observable"
    else:
        shape = parts[1]
    return f"{op}|{shape}|{problems[0][0]}"


# ------------------------------------------------------------------ re-entrancy family
REENTRY = {
    # name: (build(env, src), hot timeline offsets, expected on_next (offset, value)) ; 'f' is the element the subscriber pushes into
    # the live source from inside its on_next for 'a' (user code re-entering the pipeline during a delivery)
    "sample:10": (lambda env, ops, src: src.pipe(ops.sample(10, env.sched)), [(5, "a")], [(10, "a"), (20, "f")]),
    "sample:obs": (lambda env, ops, src: src.pipe(ops.sample(env.hot("ticks", [(vt.SUB + t, "N", 0) for t in (10, 20, 30, 40)]))), [(5, "a")], [(10, "a"), (20, "f")]),
    "debounce:10": (lambda env, ops, src: src.pipe(ops.debounce(10, env.sched)), [(5, "a")], [(15, "a"), (25, "f")]),
    "throttle_with_mapper:10": (lambda env, ops, src: src.pipe(ops.throttle_with_mapper(lambda x: env.cold("thr", [(10, "N", 0)]))), [(5, "a")], [(15, "a"), (25, "f")]),
    "throttle_first:10": (lambda env, ops, src: src.pipe(ops.throttle_first(10, env.sched)), [(5, "a"), (20, "g")], [(5, "a"), (20, "g")]),
}


def judge_reentry(name):
    from reactivex import operators as ops

    build, tl, exp = REENTRY[name]
    env = vt.Env()
    src = env.hot("src", [(vt.SUB + t, "N", v) for (t, v) in tl] + [(vt.SUB + 70, "C", None)])
    rec = env.recorder("out")

    def hook(value, k):
        if value == "a":
            src.emit_now("N", "f")  # the subscriber re-enters the live source while 'a' is being delivered to it

    rec.on_next_hook = hook
    env.subscribe_at(vt.SUB, lambda: build(env, ops, src), rec)
    env.run(horizon=vt.SUB + 200)
    got = [(t - vt.SUB, v) for (t, k, v) in rec.events() if k == "N"]
    probs = []
    if got != exp:
        probs.append(("reentrant-emission", f"{name}: the subscriber pushes 'f' into the live source from inside on_next('a'); delivered {got}, the operator's rule gives {exp}"))
    if env.sched.escaped:
        probs.append(("escaped", repr(env.sched.escaped[0][1])))
    g = rec.grammar_violation()
    if g:
        probs.append(("grammar", g))
    return probs, got


def shard(part: core.Part, shard_i, nshards, tier, seed, deadline):
    if shard_i == 0:
        for name in REENTRY:
            probs, got = judge_reentry(name)
            part.case(("reentry", name), True, outcome=("reentry", name, repr(got)))
            part.count("op:" + name.split(":")[0] + ":reentrant")
            if probs:
                part.violation(f"{name.split(':')[0]}|reentrant|{probs[0][0]}", probs[0][1], {"mode": "reentry", "name": name}, problems=[p[1] for p in probs])
    for (inst, tl) in core.shard_iter(all_cases(tier, seed), shard_i, nshards):
        if part.evals % 128 == 0 and time.time() > deadline:
            part.complete = False
            return
        problems, nontrivial, obs, exp = judge(inst, tl, seed)
        part.case((inst.iid, repr(tl)), nontrivial, outcome=(inst.iid.split(":")[0], timeref.show(obs)),
                  sample={"instance": inst.iid, "timeline": tl, "observed": timeref.show(obs), "admissible": len(exp)})
        part.count("op:" + inst.iid.split(":")[0])
        if len(exp) > 1:
            part.count("cases_with_tie_or_unspecified_closure")
        if problems:
            case = {"instance": inst.iid, "timeline": tl, "tier": tier, "seed": seed}
            part.violation(signature(inst, problems), f"{inst.iid} on {tl}: {problems[0][1]}", case, problems=[p[1] for p in problems])


def run(ctx: core.Ctx):
    b = bounds(ctx.tier)
    ctx.bounds = {"N": b["N"], "gaps": list(GAPS),
                  "values": "every word over 2 values" + (" (plus positional distinct values)" if ctx.tier != "quick" else ""),
                  "debounce": [list(x) for x in b["debounce"]], "throttle_first": [list(x) for x in b["throttle_first"]],
                  "throttle_observables": list(b["throttle_obs"]), "sample_periods": [list(x) for x in b["sample_period"]],
                  "samplers": list(b["samplers"])}
    ctx.assumptions = [
        "VirtualTimeScheduler queue discipline (checked separately by C28/C29)",
        "harness LoggedCold source is conforming",
        "same-instant events of different origin may be observed in any order (R3)",
        "unspecified by the statement and therefore accepted either way: pending element delivered or dropped when the source fails; "
        "sample completes at the first tick at/after the source's completion or in the instant of the source's completion; "
        "completion of a sampler observable may or may not count as a tick",
    ]
    timed_ilv.run_part(ctx, "C16")  # E3: real-time scheduler, source on its own thread
    part = ctx.sharded(shard)
    ctx.cov["operators_covered"] = sorted(k[3:] for k in part.counters if k.startswith("op:"))
    ctx.cov["instances"] = sum(1 for _ in instances(ctx.tier, ctx.seed))


def replay(case):
    if isinstance(case, dict) and str(case.get("harness", "")).startswith("timed-threads|"):
        return timed_ilv.replay("C16", case)
    if case.get("mode") == "reentry":
        probs, got = judge_reentry(case["name"])
        print("re-entrancy case", case["name"], "delivered", got)
        return [{"signature": f"{case['name'].split(':')[0]}|reentrant|{p[0]}", "what": p[1]} for p in probs]
    tl = [tuple(x) for x in case["timeline"]]
    for inst in instances(case["tier"], case["seed"]):
        if inst.iid == case["instance"]:
            problems, _, obs, exp = judge(inst, tl, case["seed"])
            print("instance:", inst.iid, "timeline:", tl)
            print("observed:  ", timeref.show(obs))
            print("admissible:", " | ".join(sorted(timeref.show(e) for e in exp)))
            return [{"signature": signature(inst, problems), "what": problems[0][1], "detail": [p[1] for p in problems]}] if problems else []
    print("instance not found in this tier's catalogue")
    return []
