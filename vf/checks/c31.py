"""C31 An event-loop scheduler runs actions serially on one thread, in order.

E3: one or two scheduling threads perform every sequence (length <= 3 / <= 2) over
{schedule, schedule_relative(0|1|2), cancel(previous), dispose} against one real
EventLoopScheduler (both exit_if_empty values); the loop thread is created by the library
through the controlled Thread.  All interleavings up to the preemption / clock-tick bounds
with line-level scheduling points in eventloopscheduler.py.  E4: vf/tla/EventLoop.tla (run loop at
critical-section granularity, every program of a given size chosen nondeterministically, explicit
clock) is checked by TLC over all interleavings; every E3 execution of the one-thread harnesses
must be a trace of its labelled state graph.
"""
from __future__ import annotations

import itertools
import time

from .. import core, ilv, ilvrun, tlabind

PROPERTY = "C31"
LEVEL = "model_checking"
META = {
    "engine": "ilv",
    "technique": "preemption- and clock-tick-bounded exhaustive interleaving exploration of the real EventLoopScheduler with controlled threads, condition variable and clock",
    "text": "for every schedule/cancel/dispose program of 1-2 scheduling threads and every interleaving with the loop thread (<=PB preemptions, <=TB early clock ticks, line-level "
    "points in eventloopscheduler.py): actions never overlap and never run on a caller thread, one thread per loop incarnation, immediate actions in submission order, timed actions "
    "not before due and in due order, actions cancelled in time never run, DisposedException after dispose() returned, no lost wake-up at quiescence",
    "note": "trusted: CPython, controlled primitives of vf/ilv.py (Condition FIFO wake-up, no spurious wake-ups); preemption at sync operations and line boundaries of the focus file; clock advances only when all threads are blocked or as a bounded tick deviation",
}
RULE = (
    "all programs over {S,R0,R1,R2,X,D}: one thread x length<=3 (quick: <=2 plus selected 3), two threads x length<=2 (thorough) / selected pairs (quick); x exit_if_empty in {False,True}; "
    "each explored over all schedules within (PB,TB); non-trivial = >=1 context switch between a scheduling thread and the loop thread; distinct = (harness, schedule)"
)
BUDGET = {"quick": 500.0, "thorough": 3000.0}

OPS = ("S", "R0", "R1", "R2", "X", "D")


class H:
    allow_thread_errors = False

    def __init__(self, exit_if_empty, progs):
        self.eie, self.progs = exit_if_empty, progs
        self.name = f"eventloop|eie={int(exit_if_empty)}|" + "||".join(",".join(p) for p in progs)
        self.sig = "eventloop"
        self.focus = ilv.focus_files("scheduler/eventloopscheduler.py")
        # one scheduling thread, <= 3 operations: inside the configuration of the TLC binding graph
        self.sync_log = len(progs) == 1 and len(progs[0]) <= 3

    def setup(self, run):
        from reactivex.scheduler import EventLoopScheduler

        st = {"run": run, "sch": EventLoopScheduler(exit_if_empty=self.eie), "calls": [], "acts": {}}
        return st

    def bodies(self, st):
        from reactivex.internal.exceptions import DisposedException

        run, sch = st["run"], st["sch"]

        def mk(ti, prog):
            def body():
                last = None
                for oi, op in enumerate(prog):
                    aid = f"a{ti}{oi}"
                    rec = {"op": op, "aid": aid, "t": ti, "call": len(run.events), "call_clock": run.clock, "exc": None}
                    run.log("call", op, aid)
                    try:
                        if op in ("S", "R0", "R1", "R2"):
                            rec["delay"] = 0.0 if op == "S" else float(op[1])

                            def action(s, state=None, aid=aid):
                                me = ilv.cur()
                                st["acts"].setdefault(aid, []).append({"start": len(run.events), "clock": run.clock, "thread": me.tid, "tname": me.name})
                                run.log("start", aid)
                                if run.sync_log is not None:
                                    run.sync_log.append((me.tid, "work", 0, "harness"))
                                ilv.point("in-action", voluntary=True)
                                run.log("end", aid)
                                st["acts"][aid][-1]["end"] = len(run.events)

                            if op == "S":
                                last = (aid, sch.schedule(action))
                            else:
                                last = (aid, sch.schedule_relative(float(op[1]), action))
                        elif op == "X":
                            if last is not None:
                                rec["target"] = last[0]
                                last[1].dispose()
                        elif op == "D":
                            sch.dispose()
                    except DisposedException:
                        rec["exc"] = "Disposed"
                    rec["ret"] = len(run.events)
                    rec["ret_clock"] = run.clock
                    run.log("ret", op, aid, rec["exc"])
                    st["calls"].append(rec)

            return body

        return [mk(i, p) for i, p in enumerate(self.progs)]

    def outcome(self, x):
        st = x.state
        return (tuple(sorted((a, len(v)) for a, v in st["acts"].items())), tuple(sorted((c["aid"], c["exc"]) for c in st["calls"])))

    def check(self, x):
        st = x.state
        if x.outcome != "quiescent":
            return []
        if self.sync_log and getattr(self, "part", None) is not None and not getattr(x, "_bound", False):
            x._bound = True
            bind(self.part, self, x)
        P = []
        calls, acts = st["calls"], st["acts"]
        ev = x.events
        harness_tids = {t.tid for t in x.threads if t.harness}
        sched = {c["aid"]: c for c in calls if c["op"] in ("S", "R0", "R1", "R2")}
        runs = sorted(((a, r) for a, v in acts.items() for r in v), key=lambda ar: ar[1]["start"])
        # each action at most once
        for a, v in acts.items():
            if len(v) > 1:
                P.append(("eventloop|action-ran-twice", f"{a} ran {len(v)} times"))
        # never on a caller thread, never two at once
        for a, r in runs:
            if r["thread"] in harness_tids:
                P.append(("eventloop|ran-on-caller-thread", f"{a} ran on {r['tname']}"))
        for (a1, r1), (a2, r2) in zip(runs, runs[1:]):
            if r2["start"] < r1.get("end", 10**9):
                P.append(("eventloop|actions-overlap", f"{a2} started before {a1} ended"))
        if not self.eie and len({r["thread"] for _, r in runs}) > 1:
            P.append(("eventloop|more-than-one-loop-thread", f"actions ran on threads {sorted({r['tname'] for _, r in runs})}"))
        # not before due
        for a, r in runs:
            c = sched[a]
            if r["clock"] < c["call_clock"] + c["delay"]:
                P.append(("eventloop|ran-before-due", f"{a} (delay {c['delay']}, scheduled at clock {c['call_clock']}) started at clock {r['clock']}"))
        first = {a: v[0] for a, v in acts.items()}
        # immediate actions in happens-before submission order
        imm = [c for c in sched.values() if c["delay"] == 0.0 and c["exc"] is None and c["aid"] in first]
        for c1 in imm:
            for c2 in imm:
                if c1["ret"] < c2["call"] and first[c1["aid"]]["start"] > first[c2["aid"]]["start"]:
                    P.append(("eventloop|immediate-order", f"{c1['aid']} submitted before {c2['aid']} but ran after it"))
        # timed actions in due order (only when the due intervals are strictly ordered)
        timed = [c for c in sched.values() if c["exc"] is None and c["aid"] in first]
        for c1 in timed:
            for c2 in timed:
                if c1 is not c2 and c1["ret_clock"] + c1["delay"] < c2["call_clock"] + c2["delay"] and first[c1["aid"]]["start"] > first[c2["aid"]]["start"]:
                    P.append(("eventloop|due-order", f"{c1['aid']} is due strictly before {c2['aid']} but ran after it"))
        # cancellation
        loop_events = [i for i, e in enumerate(ev) if e[2] in ("start", "end")]
        for c in calls:
            if c["op"] == "X" and c.get("target") in first:
                a = c["target"]
                r = first[a]
                if r["start"] > c["ret"]:
                    s = sched[a]
                    if c["ret_clock"] < s["call_clock"] + s["delay"]:
                        P.append(("eventloop|cancelled-before-due-ran", f"{a} cancelled at clock {c['ret_clock']} before its due time, yet it ran"))
                    elif any(c["ret"] < i < r["start"] for i in loop_events):
                        P.append(("eventloop|cancelled-before-start-ran", f"{a}: cancel() returned, the loop thread then ran other work, and {a} still started"))
        # dispose
        disp = [c for c in calls if c["op"] == "D"]
        if disp:
            d0 = min(c["ret"] for c in disp)
            for c in sched.values():
                if c["call"] > d0:
                    if c["exc"] != "Disposed":
                        P.append(("eventloop|no-DisposedException-after-dispose", f"{c['aid']} scheduled after dispose() returned did not raise DisposedException"))
                    if c["aid"] in first:
                        P.append(("eventloop|ran-after-dispose", f"{c['aid']} scheduled after dispose() returned ran"))
        else:
            # no lost wake-up: every accepted, uncancelled action ran by quiescence
            cancelled = {c.get("target") for c in calls if c["op"] == "X"}
            for c in sched.values():
                if c["exc"] is None and c["aid"] not in cancelled and c["aid"] not in first:
                    P.append(("eventloop|action-never-ran", f"{c['aid']} ({c['op']}) was accepted, never cancelled, scheduler not disposed, but never ran (eie={self.eie})"))
        for c in sched.values():
            if c["exc"] == "Disposed" and not any(d["call"] < c["ret"] for d in disp):
                P.append(("eventloop|spurious-DisposedException", f"{c['aid']} raised DisposedException although dispose() had not been called"))
        return P[:3]


GRAPHS: dict = {}
MODEL_LABEL = {"Gather": "RL", "Decide": "RL", "InvokeRun": "W"}
TAU = ("Tick", "SPre", "Cancel", "InvokeSkip", "InvokeDone", "Wake")


def relabel(lab):
    name = lab.split("(")[0]
    return MODEL_LABEL.get(name, lab)  # SchedLock(t) / DisposeLock(t) keep their thread parameter


def project(x):
    harness = {t.tid: i for i, t in enumerate([t for t in x.threads if t.harness and t.name != "main"], 1)}
    out = []
    for (tid, kind, _o, where) in x.sync_log or ():
        if kind == "work":
            out.append("W")
        elif kind != "acq":
            continue
        elif where == "EventLoopScheduler.schedule_absolute":
            out.append(f"SchedLock({harness.get(tid, 0)})")
        elif where == "EventLoopScheduler.dispose":
            out.append(f"DisposeLock({harness.get(tid, 0)})")
        elif where == "EventLoopScheduler.run":
            out.append("RL")
    return out


def bind(part, h, x):
    g = GRAPHS.get(h.eie)
    if g is None:
        return
    labels = project(x)
    ok, at = g.accepts(labels, lambda l: l.split("(")[0] in TAU)
    part.count("tla_traces_accepted" if ok else "tla_traces_rejected")
    if not ok and len(part.notes) < 3:
        part.notes.append(f"EventLoop.tla rejects implementation trace of {h.name}: {labels} at position {at} (model/code structure mismatch; verdict rests on the direct oracle)")


def progs(maxlen, ops=OPS):
    out = []
    for n in range(1, maxlen + 1):
        for p in itertools.product(ops, repeat=n):
            if p[0] == "X":
                continue
            if any(p[i] == "X" and p[i - 1] in ("X", "D") for i in range(1, len(p))):
                continue
            out.append(p)
    return out


def harnesses(tier):
    hs = []
    for eie in (False, True):
        if tier == "quick":
            one = progs(2) + [("R1", "S", "X"), ("S", "R1", "D"), ("R2", "R1", "S"), ("S", "X", "S"), ("R1", "X", "D")]
            two = [(("S",), ("S",)), (("S",), ("D",)), (("R1",), ("S",)), (("S", "X"), ("S",)), (("R1",), ("R2",)), (("S",), ("R1", "D"))]
        else:
            one = progs(3)
            p2 = progs(2, ("S", "R0", "R1", "X", "D"))
            two = list(itertools.combinations_with_replacement(p2, 2))
        for p in one:
            hs.append(H(eie, (p,)))
        for a, b in two:
            hs.append(H(eie, (a, b)))
    # coarse mode (switching only at line boundaries of eventloopscheduler.py and where threads block/start/end) makes PB 2
    # affordable in every run: a loop thread that decided to exit, racing two further schedule() calls
    for progs_ in ((("S", "S"), ("S",)), (("S", "R1", "S"),)):
        h = H(True, progs_)
        h.pb, h.lines_only, h.sync_log = 2, True, False
        h.name += "|PB2-lines-only"
        hs.append(h)
    return hs


def bounds(tier, h=None):
    """(PB, TB).  A clock-tick deviation is possible at every scheduling point, so TB 1 multiplies the executions by the number
    of points: thorough keeps it for programs of <= 2 operations."""
    if tier == "quick" or h is None:
        return (1, 1) if tier == "quick" else (2, 1)
    nops = sum(len(p) for p in h.progs)
    if len(h.progs) == 2:
        return (1, 1) if nops <= 2 else (1, 0)
    return (2, 1) if nops <= 2 else (2, 0)


def shard(part, shard_i, nshards, tier, seed, deadline, dots=None):
    ilv.install()
    if dots and not GRAPHS:
        for eie, path in dots.items():
            GRAPHS[eie] = tlabind.Graph(open(path).read(), relabel)
    hs = harnesses(tier)
    for i, h in enumerate(hs):
        if (i + seed) % nshards == shard_i:
            h.part = part
            PB, TB = bounds(tier, h)
            ilvrun.explore_all(part, [h], 0, 1, getattr(h, "pb", PB), TB, deadline, horizon=10.0)
    for eie, g in GRAPHS.items():
        for e in g.used:
            part.counters["tla_edge:%s:%x" % (eie, core.h64(e))] = 1
        g.used = set()


def run(ctx):
    PB, TB = bounds(ctx.tier)
    ctx.bounds = {"PB": PB if ctx.tier == "quick" else "2 with one scheduling thread, 1 with two", "TB": "1 for programs of <= 2 operations, else 0" if ctx.tier != "quick" else TB, "harnesses": len(harnesses(ctx.tier)),
                  "coarse": "two PB-2 harnesses in coarse mode (exit_if_empty, an exiting loop thread vs further schedule() calls)"}
    ctx.assumptions = ["preemption at synchronisation operations and line boundaries of eventloopscheduler.py", "Condition.notify wakes waiters FIFO; no spurious wake-ups"]
    import os
    import tempfile

    # E4: TLC over all interleavings of the run-loop model (every program of the given size, both exit_if_empty values)
    cfgs = [(1, 3, 3, "FALSE"), (1, 3, 3, "TRUE"), (2, 1, 2, "FALSE"), (2, 1, 2, "TRUE")] if ctx.tier == "quick" else [(2, 2, 3, "FALSE"), (2, 2, 3, "TRUE"), (1, 3, 3, "FALSE"), (1, 3, 3, "TRUE")]
    vers = []
    for (ns, k, maxt, eie) in cfgs:
        cfg = tempfile.NamedTemporaryFile("w", suffix=".cfg", dir=tlabind.TLA_DIR, delete=False)
        cfg.write(f"CONSTANTS NS = {ns}\n          K = {k}\n          MaxT = {maxt}\n          ExitIfEmpty = {eie}\nINIT Init\nNEXT Next\nINVARIANTS AtMostOnce ImmediateFIFO NoLostWakeup WaitCoversEarliest OneLoopThread\n")
        cfg.close()
        try:
            v = tlabind.tlc_run("EventLoop.tla", os.path.basename(cfg.name), workers=max(1, min(16, ctx.workers)), timeout=2400)
        finally:
            os.unlink(cfg.name)
        v["config"] = f"NS={ns} K={k} MaxT={maxt} ExitIfEmpty={eie}"
        vers.append(v)
        if not v["ok"]:
            ctx.total.violation("tla|EventLoop.tla-invariant-violated", f"TLC reports an invariant violation in EventLoop.tla ({v['config']}; the abstract model, not the code): " + v["tail"][-600:], {"mode": "tla"})
    dots, model_edges = {}, 0
    for eie, name in ((False, "EventLoop_bind_false.cfg"), (True, "EventLoop_bind_true.cfg")):
        b = tlabind.tlc_run("EventLoop.tla", name, dump=True)
        if b["dot"]:
            model_edges += tlabind.Graph(b["dot"]).nedges
            f = tempfile.NamedTemporaryFile("w", suffix=".dot", delete=False)
            f.write(b["dot"])
            f.close()
            dots[eie] = f.name
    try:
        ctx.sharded(shard, extra=(dots,), nshards=min(len(harnesses(ctx.tier)), max(1, ctx.workers) * 6))
    finally:
        for pth in dots.values():
            os.unlink(pth)
    ilvrun.finish_cov(ctx, ctx.total, sum(v["distinct"] for v in vers), sum(v["states_generated"] for v in vers))
    edges = [k for k in ctx.total.counters if k.startswith("tla_edge:")]
    acc, rej = ctx.total.counters.get("tla_traces_accepted", 0), ctx.total.counters.get("tla_traces_rejected", 0)
    ctx.cov["tla"] = {
        "model": "vf/tla/EventLoop.tla",
        "tlc_runs": [{"config": v["config"], "ok": v["ok"], "distinct_states": v["distinct"], "states_generated": v["states_generated"], "depth": v["depth"]} for v in vers],
        "binding_config": "NS=1 scheduling thread, K=3 operations (any program), MaxT=2, both exit_if_empty values", "binding_graph_edges": model_edges,
        "impl_traces_accepted": acc, "impl_traces_rejected": rej, "model_edges_exercised_by_impl_traces": len(edges), "model_bound": bool(acc and not rej),
        "not_bound": "harnesses with two scheduling threads are judged by the direct oracle only",
    }
    for k in edges:
        del ctx.total.counters[k]


def replay(case):
    ilv.install()
    for tier in ("quick", "thorough"):
        for h in harnesses(tier):
            if h.name == case["harness"]:
                return ilvrun.replay_harness(h, case)
    return []
