"""C06 Aggregating operators match their reference semantics (E1, bounded-exhaustive).

Three exhaustively enumerated parts per tier:

 agg      every operator instance of the catalogue below (reduce, scan, count, sum, average,
          min, max, min_by, max_by, to_list/to_iterable, to_set, to_dict, first, last, single
          and their _or_default forms, all, some, contains, is_empty; every seed / predicate /
          comparer / key mapper / default of its family, including None, 0 and "argument
          omitted") x every timeline of TL(N, alphabet) ending in completion or error.
 seq_obs  sequence_equal(second observable): every pair of timelines of TL(M, alphabet) x
          every relative placement of the two timelines on virtual time (every weak-order
          merge of their events: each event of the second before / in the same instant as /
          after each event of the first) x comparer.
 seq_iter sequence_equal(second iterable): every content of length <= M x iterable kind
          (list, tuple, re-iterable object) x every timeline of the first x comparer.

Alphabet kinds: "num" numbers (all instances), "gen" None/0/False (value-agnostic instances),
"ord" orderable values on which subtraction is no comparison -- strings, inf -- (min/max/min_by/
max_by without comparer), "mix" None among numbers (sum/average/min/max: the Python computation
raises TypeError, the operator has to fail with that class; instant not fixed).

Oracle: the equivalent Python computation on the list of elements (functools.reduce,
itertools.accumulate, sum, sum/len, min/max with cmp_to_key, list, set, dict, next(filter),
any/all/in, ==) gives (value, determining input) pairs; values are compared by type and ==
(R2; dict values by their item sets), instants by the determining input's instant:
 * whole-sequence aggregates emit at the instant of the source's completion and complete;
 * a source error is passed through at its instant with nothing emitted (scan: after the
   accumulated values so far);
 * empty input (no matching element) without a default -> SequenceContainsNoElementsError
   at the completion instant;
 * single fails at the instant of the second (matching) element;
 * first / some / all / contains / is_empty and a False of sequence_equal are emitted, followed
   by completion, at the instant of the element (or completion) that decides them.
sequence_equal with two observables: where events of the two sources share an instant the
statement leaves their order open, so the reference result is computed for every
linearisation that respects each source's own order and the real operator has to match one
of them (R3).
"""
from __future__ import annotations

import functools
import itertools
import time as _time

from .. import core, listsem, vt

PROPERTY = "C06"
LEVEL = "exploration"
META = {
    "engine": "vtx",
    "technique": "bounded-exhaustive enumeration of (aggregate instance, timeline) pairs, and of (timeline pair, relative placement, "
    "comparer) for sequence_equal, on virtual time against the equivalent Python computation",
    "text": "every listed aggregate with every seed/predicate/comparer/key/default of its catalogue (incl. None, 0, omitted) over every "
    "timeline of length <=N over small alphabets (numbers, None/0/False, strings) ending in completion or error, and sequence_equal over "
    "every pair of timelines in every relative placement (with tie closure) and over iterables, is executed on the real operators and "
    "compared value-by-value and instant-by-instant with the Python reference; exhaustive within the bounds",
    "note": "trusted: CPython, the harness in /verif/vf, the reference functions in this module, VirtualTimeScheduler's queue discipline "
    "(checked by C28/C29). Callback exceptions are C09's subject and are not injected here.",
}
RULE = (
    "agg: all (operator instance, timeline) pairs, timelines = every sequence of <=N on_next over the alphabet at slots 210,220,.. followed "
    "by completion or error (thorough: also all elements in one instant, and the terminal in the last element's instant); seq_obs: all "
    "(timeline pair, weak-order merge of their events, comparer); seq_iter: all (iterable content, iterable kind, timeline, comparer). "
    "non-trivial = the reference result contains a value or an error produced by the operator itself (i.e. is not a mere pass-through of "
    "the source's error / empty completion) and at least one source emitted an element; distinct = (part, instance, alphabet, timeline(s))"
)
BUDGET = {"quick": 150.0, "thorough": 1500.0}


class Omitted:
    def __repr__(self):
        return "<omitted>"


OMIT = Omitted()


class Empty(Exception):
    """reference side: the computation has no element to work on"""


def pe(term):
    return ("C", "T", None) if term == "C" else ("E", "T", "SRC")


# ---------------------------------------------------------------- value identity (R2)
def norm(v):
    if isinstance(v, dict):
        return ("dict", tuple(sorted(((norm(k), norm(x)) for k, x in v.items()), key=repr)))
    if isinstance(v, (list, tuple)):
        return (type(v).__name__, tuple(norm(i) for i in v))
    if isinstance(v, (set, frozenset)):
        return (type(v).__name__, tuple(sorted((norm(i) for i in v), key=repr)))
    return vt.norm_value(v)


def show_val(nv):
    if isinstance(nv, tuple) and len(nv) == 2 and nv[0] in ("list", "tuple", "set", "frozenset"):
        o, c = {"list": "[]", "tuple": "()", "set": "{}", "frozenset": "{}"}[nv[0]]
        return o + ",".join(show_val(i) for i in nv[1]) + c
    if isinstance(nv, tuple) and len(nv) == 2 and nv[0] == "dict":
        return "{" + ",".join(f"{show_val(k)}:{show_val(x)}" for k, x in nv[1]) + "}"
    if isinstance(nv, tuple) and len(nv) == 2:
        return repr(nv[1])
    return repr(nv)


def show(evs):
    out = []
    for (t, k, v) in evs:
        ts = f"{t:g}" if not isinstance(t, tuple) else f"{t[0]:g}..{t[1]:g}"
        if k == "N":
            out.append(f"{ts}:{show_val(v)}")
        elif k == "E":
            out.append(f"{ts}:#{v if isinstance(v, str) else (v.__name__ if isinstance(v, type) else type(v).__name__)}")
        else:
            out.append(f"{ts}:|")
    return "[" + " ".join(out) + "]"


def actual(rec):
    return [(t, k, (norm(v) if k == "N" else v)) for (t, k, v) in rec.events()]


def err_matches(want, got):
    """want: 'SRC' / 'SRC:<name>' (that source's own error instance), 'MORE' (single: more than one
    element -- any operator-made error that is neither a source error nor the no-elements error),
    or an exception class (an operator/computation-made error of that class)."""
    from reactivex.internal.exceptions import SequenceContainsNoElementsError

    if isinstance(want, str) and want.startswith("SRC"):
        name = want[4:] or "src"
        return isinstance(got, vt.SrcError) and got.tag[0] == name
    if isinstance(got, vt.SrcError):
        return False
    if want == "MORE":
        return isinstance(got, Exception) and not isinstance(got, SequenceContainsNoElementsError)
    return isinstance(got, want)


def mismatch(exp, act):
    """exp events: (time | (lo, hi), kind, payload).  Returns (kind-of-problem, text) or None."""
    if [e[1] for e in exp] != [a[1] for a in act]:
        return ("result", f"expected {show(exp)} got {show(act)}")
    for e, a in zip(exp, act):
        if e[1] == "N" and e[2] != a[2]:
            return ("result", f"expected {show(exp)} got {show(act)}")
        if e[1] == "E" and not err_matches(e[2], a[2]):
            return ("result", f"expected {show(exp)} got {show(act)} (error was {a[2]!r})")
    for e, a in zip(exp, act):
        ok = (e[0][0] <= a[0] <= e[0][1]) if isinstance(e[0], tuple) else e[0] == a[0]
        if not ok:
            return ("instant", f"expected {show(exp)} got {show(act)}")
    return None


def expected(ref_result, timeline):
    outs, end = ref_result

    def when(det):
        if isinstance(det, tuple):
            return (listsem.det_time(det[0], timeline), listsem.det_time(det[1], timeline))
        return listsem.det_time(det, timeline)

    ev = [(when(d), "N", norm(v)) for (v, d) in outs]
    if end is not None:
        kind, det, err = end
        ev.append((when(det), kind, err if kind == "E" else None))
    return ev


# ---------------------------------------------------------------- parameter families
def preds(A):
    return {"eqA": lambda x: x == A, "neA": lambda x: x != A, "T": lambda x: True, "F": lambda x: False}


def sgn(v):
    return (v > 0) - (v < 0)


SUBCMP_NUM = {
    "default": None,
    "rev": lambda a, b: sgn(b - a),
    "abs": lambda a, b: sgn(abs(a) - abs(b)),
    "zero": lambda a, b: 0,
    "big": lambda a, b: 1000 * (a - b),
}
DEFAULTS = {"omit": OMIT, "None": None, "0": 0, "D": "D"}
SEEDS = {"omit": OMIT, "None": None, "0": 0, "S": "S"}


def py_cmp(c):
    """the comparison Python itself would use when no comparer is given: < and >"""
    return c if c is not None else (lambda a, b: (a > b) - (a < b))


def extremum(xs, key, cmp, want_max):
    """(best key, elements having it): the fold Python's min/max perform (the first extremum wins) with
    the elements whose key ties with it kept in input order."""
    if not xs:
        raise Empty()
    c = py_cmp(cmp)
    best, members = key(xs[0]), [xs[0]]
    for x in xs[1:]:
        k = key(x)
        r = c(k, best)
        if (r > 0) if want_max else (r < 0):
            best, members = k, [x]
        elif r == 0:
            members.append(x)
    return best, members


def scan_list(xs, f, seed):
    """itertools.accumulate without its 'initial=None means absent' convention; the seed itself is not emitted"""
    out, acc, has = [], seed, seed is not OMIT
    for x in xs:
        acc = f(acc, x) if has else x
        has = True
        out.append(acc)
    return out


def agg(compute):
    """whole-sequence aggregate: one value at the completion instant"""
    from reactivex.internal.exceptions import SequenceContainsNoElementsError

    def ref(xs, t):
        if t == "E":
            return [], pe(t)
        try:
            v = compute(xs)
        except Empty:
            return [], ("E", "T", SequenceContainsNoElementsError)
        return [(v, "T")], ("C", "T", None)

    return ref


def agg_raising(compute, excs):
    """like agg, for inputs on which the Python computation itself may raise: then the operator has to
    fail with an error of that class, somewhere between subscription and the source's completion (the
    statement fixes the termination, not its instant). Erroring timelines whose elements already make
    the computation raise are not judged (two errors compete; the statement does not rank them)."""
    from reactivex.internal.exceptions import SequenceContainsNoElementsError

    def ref(xs, t):
        try:
            v = compute(xs)
        except Empty:
            return ([], ("E", "T", SequenceContainsNoElementsError)) if t == "C" else ([], pe(t))
        except excs as e:
            if t == "E":
                return None
            return [], ("E", ("S", "T"), type(e))
        if t == "E":
            return [], pe(t)
        return [(v, "T")], ("C", "T", None)

    return ref


def instances(alpha, kind, N):
    """Yield (id, build(env, src) -> observable, ref(xs, term) -> (outs, end) | None)."""
    from reactivex import operators as ops
    from reactivex.internal.exceptions import SequenceContainsNoElementsError as SCNE

    A, B = alpha[0], alpha[1]
    P = preds(A)
    PN = dict(P)
    PN["none"] = None

    def mk(factory, *args, **kw):
        # a fresh operator object per execution
        return lambda env, src: src.pipe(factory(*args, **kw))

    if kind == "ord":
        # orderable values on which subtraction is not a comparison (strings; inf - inf is nan): Python's min/max work on them
        for nm, op, mx in (("min", ops.min, False), ("max", ops.max, True)):
            yield f"{nm}:default", mk(op), agg(lambda xs, mx=mx: extremum(xs, lambda x: x, None, mx)[1][0])
        for nm, op, mx in (("min_by", ops.min_by, False), ("max_by", ops.max_by, True)):
            yield f"{nm}:id:default", mk(op, lambda x: x), agg(lambda xs, mx=mx: (extremum(xs, lambda x: x, None, mx)[1] if xs else []))
            if isinstance(A, str):
                yield f"{nm}:len:default", mk(op, lambda x: len(x)), agg(lambda xs, mx=mx: (extremum(xs, len, None, mx)[1] if xs else []))
        return

    if kind == "mix":
        # inputs on which the Python computation raises TypeError (None among numbers)
        TE = (TypeError,)
        yield "sum:none", mk(ops.sum), agg_raising(lambda xs: sum(xs), TE)
        yield "average:none", mk(ops.average), agg_raising(lambda xs: (sum(float(x) for x in xs) / len(xs)) if xs else _raise(Empty()), TE)
        yield "min:default", mk(ops.min), agg_raising(lambda xs: extremum(xs, lambda x: x, None, False)[1][0], TE)
        yield "max:default", mk(ops.max), agg_raising(lambda xs: extremum(xs, lambda x: x, None, True)[1][0], TE)
        return

    # ---- reduce / scan -----------------------------------------------------------------
    accs = {"pair": lambda acc, x: (acc, x), "keep": lambda acc, x: acc, "new": lambda acc, x: x}
    if kind == "num":
        accs["add"] = lambda acc, x: acc + x
    for an, f in accs.items():
        for sn, seed in SEEDS.items():
            if an == "add" and sn in ("None", "S"):
                continue

            def r_reduce(xs, f=f, seed=seed):
                if seed is OMIT:
                    if not xs:
                        raise Empty()
                    return functools.reduce(f, xs)
                return functools.reduce(f, xs, seed)

            def r_scan(xs, t, f=f, seed=seed):
                return [(v, i) for i, v in enumerate(scan_list(xs, f, seed))], pe(t)

            args = (f,) if seed is OMIT else (f, seed)
            yield f"reduce:{an}:{sn}", mk(ops.reduce, *args), agg(r_reduce)
            yield f"scan:{an}:{sn}", mk(ops.scan, *args), r_scan
    yield "reduce:pair:kw-seed-None", mk(ops.reduce, accs["pair"], seed=None), agg(lambda xs: functools.reduce(accs["pair"], xs, None))
    yield "scan:pair:kw-seed-None", mk(ops.scan, accs["pair"], seed=None), (
        lambda xs, t: ([(v, i) for i, v in enumerate(scan_list(xs, accs["pair"], None))], pe(t))
    )

    # ---- count / sum / average ---------------------------------------------------------
    for pn, p in PN.items():
        yield f"count:{pn}", (mk(ops.count) if p is None else mk(ops.count, p)), agg(lambda xs, p=p: sum(1 for x in xs if p is None or p(x)))
    keysn = {"isA": lambda x: int(x == A), "eqA": lambda x: x == A, "one": lambda x: 1, "half": lambda x: 0.5}
    if kind == "num":
        keysn["none"] = None
        keysn["dbl"] = lambda x: 2 * x
        keysn["neg"] = lambda x: -x
    for kn, kf in keysn.items():
        k_ = kf or (lambda x: x)
        yield f"sum:{kn}", (mk(ops.sum) if kf is None else mk(ops.sum, kf)), agg(lambda xs, k_=k_: sum(k_(x) for x in xs))
        ka = kf or (lambda x: float(x))
        yield f"average:{kn}", (mk(ops.average) if kf is None else mk(ops.average, kf)), agg(
            lambda xs, ka=ka: (sum(ka(x) for x in xs) / len(xs)) if xs else _raise(Empty())
        )

    # ---- min / max / min_by / max_by ---------------------------------------------------
    if kind == "num":
        for cn, c in SUBCMP_NUM.items():
            for nm, op, mx in (("min", ops.min, False), ("max", ops.max, True)):
                yield f"{nm}:{cn}", (mk(op) if c is None else mk(op, c)), agg(lambda xs, c=c, mx=mx: extremum(xs, lambda x: x, c, mx)[1][0])
    bykeys = {"isA": lambda x: int(x == A), "const": lambda x: 7}
    if kind == "num":
        bykeys["id"] = lambda x: x
        bykeys["neg"] = lambda x: -x
    for kn, kf in bykeys.items():
        for cn, c in SUBCMP_NUM.items():
            for nm, op, mx in (("min_by", ops.min_by, False), ("max_by", ops.max_by, True)):
                yield f"{nm}:{kn}:{cn}", (mk(op, kf) if c is None else mk(op, kf, c)), agg(
                    lambda xs, kf=kf, c=c, mx=mx: (extremum(xs, kf, c, mx)[1] if xs else [])
                )

    # ---- to_list / to_set / to_dict ----------------------------------------------------
    yield "to_list", mk(ops.to_list), agg(lambda xs: list(xs))
    yield "to_iterable", mk(ops.to_iterable), agg(lambda xs: list(xs))
    yield "to_set", mk(ops.to_set), agg(lambda xs: set(xs))
    dk = {"id": lambda x: x, "const": lambda x: None, "isA": lambda x: x == A}
    de = {"none": None, "wrap": lambda x: (x,), "constNone": lambda x: None, "zero": lambda x: 0}
    for kn, kf in dk.items():
        for en, ef in de.items():
            yield f"to_dict:{kn}:{en}", (mk(ops.to_dict, kf) if ef is None else mk(ops.to_dict, kf, ef)), agg(
                lambda xs, kf=kf, ef=ef: {kf(x): (ef(x) if ef else x) for x in xs}
            )

    # ---- first / last / single (+ _or_default) -----------------------------------------
    def r_first(p, d):
        def ref(xs, t):
            for i, x in enumerate(xs):
                if p is None or p(x):
                    return [(x, i)], ("C", i, None)
            if t == "E":
                return [], pe(t)
            return ([], ("E", "T", SCNE)) if d is OMIT else ([(d, "T")], ("C", "T", None))

        return ref

    def r_last(p, d):
        def ref(xs, t):
            if t == "E":
                return [], pe(t)
            m = [x for x in xs if p is None or p(x)]
            if m:
                return [(m[-1], "T")], ("C", "T", None)
            return ([], ("E", "T", SCNE)) if d is OMIT else ([(d, "T")], ("C", "T", None))

        return ref

    def r_single(p, d):
        def ref(xs, t):
            idx = [i for i, x in enumerate(xs) if p is None or p(x)]
            if len(idx) >= 2:
                return [], ("E", idx[1], "MORE")
            if t == "E":
                return [], pe(t)
            if idx:
                return [(xs[idx[0]], "T")], ("C", "T", None)
            return ([], ("E", "T", SCNE)) if d is OMIT else ([(d, "T")], ("C", "T", None))

        return ref

    for pn, p in PN.items():
        yield f"first:{pn}", (mk(ops.first) if p is None else mk(ops.first, p)), r_first(p, OMIT)
        yield f"last:{pn}", (mk(ops.last) if p is None else mk(ops.last, p)), r_last(p, OMIT)
        yield f"single:{pn}", (mk(ops.single) if p is None else mk(ops.single, p)), r_single(p, OMIT)
        for dn, d in DEFAULTS.items():
            dv = None if d is OMIT else d  # documented: "If not specified, defaults to None"
            if d is OMIT:
                b_first = mk(ops.first_or_default) if p is None else mk(ops.first_or_default, p)
                b_last = mk(ops.last_or_default) if p is None else mk(ops.last_or_default, predicate=p)
                b_single = mk(ops.single_or_default) if p is None else mk(ops.single_or_default, p)
            else:
                b_first = mk(ops.first_or_default, p, d)
                b_last = mk(ops.last_or_default, d, p)
                b_single = mk(ops.single_or_default, p, d)
            yield f"first_or_default:{pn}:{dn}", b_first, r_first(p, dv)
            yield f"last_or_default:{pn}:{dn}", b_last, r_last(p, dv)
            yield f"single_or_default:{pn}:{dn}", b_single, r_single(p, dv)

    # ---- some / all / contains / is_empty ----------------------------------------------
    def r_some(p, hit, miss):
        def ref(xs, t):
            for i, x in enumerate(xs):
                if p(x):
                    return [(hit, i)], ("C", i, None)
            return ([(miss, "T")], ("C", "T", None)) if t == "C" else ([], pe(t))

        return ref

    for pn, p in PN.items():
        yield f"some:{pn}", (mk(ops.some) if p is None else mk(ops.some, p)), r_some(p or (lambda x: True), True, False)
    for pn, p in P.items():
        yield f"all:{pn}", mk(ops.all, p), r_some(lambda x, p=p: not p(x), False, True)
    eqs = {"default": None, "T": lambda a, b: True, "F": lambda a, b: False, "sametype": lambda a, b: type(a) is type(b)}
    for vn, v in {"A": A, "B": B, "None": None, "absent": "zz"}.items():
        for cn, c in eqs.items():
            c_ = c or (lambda a, b: a == b)
            yield f"contains:{vn}:{cn}", (mk(ops.contains, v) if c is None else mk(ops.contains, v, c)), r_some(lambda x, v=v, c_=c_: c_(x, v), True, False)
    yield "is_empty", mk(ops.is_empty), r_some(lambda x: True, False, True)


def _raise(e):
    raise e


# ---------------------------------------------------------------- bounds / enumeration
def bounds(tier):
    """N, [(alphabet kind, values)], timeline options, M (sequence_equal), [(seq alphabet, comparers)]"""
    if tier == "quick":
        return {
            "N": 3,
            "alphabets": [("num", (1, 2)), ("num", (-1, 1)), ("gen", (None, 0)), ("ord", ("b", "a")), ("mix", (None, 1))],
            "tl": {},
            "M": 2,
            "seq": [((1, 2), ("default", "T", "F")), ((None, 0), ("default",))],
        }
    return {
        "N": 4,
        "alphabets": [("num", (1, 2, 3)), ("num", (-1, 1, 0)), ("gen", (None, 0, False)), ("ord", ("b", "a", "ab")), ("ord", (float("inf"), 1.5)), ("mix", (None, 1, 2.5))],
        "tl": {"bursts": True, "same_instant_terminal": True},
        "M": 3,
        "seq": [((1, 2), ("default", "T", "F")), ((None, 0), ("default",))],
    }


def rotate(alpha, kind, seed):
    rot = seed % 3
    if kind == "num" and alpha[0] == 1 and rot:
        return tuple(x + 10 * rot for x in alpha)
    return alpha


SEQ_CMP = {"default": None, "T": lambda a, b: True, "F": lambda a, b: False}


def merges(na, nb):
    """All weak-order merges of two chains of na and nb events: yields (ta, tb), the instants
    (10, 20, ..) of the events of each chain; a tie = the same instant in both."""

    def rec(i, j, rank, ta, tb):
        if i == na and j == nb:
            yield list(ta), list(tb)
            return
        t = 10 * (rank + 1)
        if i < na:
            yield from rec(i + 1, j, rank + 1, ta + [t], tb)
        if j < nb:
            yield from rec(i, j + 1, rank + 1, ta, tb + [t])
        if i < na and j < nb:
            yield from rec(i + 1, j + 1, rank + 1, ta + [t], tb + [t])

    yield from rec(0, 0, 0, [], [])


class ReIterable:
    def __init__(self, items):
        self.items = list(items)

    def __iter__(self):
        return iter(list(self.items))

    def __repr__(self):
        return f"ReIterable({self.items!r})"


ITER_KINDS = {"list": list, "tuple": tuple, "reiterable": ReIterable}


def all_cases(tier, seed):
    b = bounds(tier)
    for (kind, alpha0) in b["alphabets"]:
        alpha = rotate(alpha0, kind, seed)
        for (iid, build, ref) in instances(alpha, kind, b["N"]):
            for tl in vt.timelines(b["N"], alpha, **b["tl"]):
                yield ("agg", iid, (kind, alpha), tl, build, ref)
    M = b["M"]
    for (alpha0, cmps) in b["seq"]:
        alpha = rotate(alpha0, "num", seed) if alpha0[0] == 1 else alpha0
        shapes = [(tl, [(k, v) for (_, k, v) in tl]) for tl in vt.timelines(M, alpha)]
        for cn in cmps:
            for (_, ea) in shapes:
                for (_, eb) in shapes:
                    for (ta, tb) in merges(len(ea), len(eb)):
                        tla = [(t, k, v) for t, (k, v) in zip(ta, ea)]
                        tlb = [(t, k, v) for t, (k, v) in zip(tb, eb)]
                        yield ("seq_obs", f"sequence_equal:obs:{cn}", ("seq", alpha), (tla, tlb), None, None)
            for n in range(M + 1):
                for content in itertools.product(alpha, repeat=n):
                    for ikind in ITER_KINDS:
                        for (tl, _) in shapes:
                            yield ("seq_iter", f"sequence_equal:{ikind}:{cn}", ("seq", alpha), (tl, list(content)), None, None)


# ---------------------------------------------------------------- judging
def checks_common(env, rec, status):
    problems = []
    if status != "ok":
        problems.append(("budget", "run did not terminate within the action budget"))
    if env.sched.escaped:
        problems.append(("escaped", f"exception escaped into the scheduler: {env.sched.escaped[0][1]!r}"))
    g = rec.grammar_violation()
    if g:
        problems.append(("grammar", g))
    return problems


def judge_agg(iid, tl, build, ref):
    xs, term = listsem.split(tl)
    r = ref(xs, term)
    env, src, rec, status = listsem.observe(build, tl)
    act = actual(rec)
    if r is None:
        return None, False, act
    exp = expected(r, tl)
    problems = checks_common(env, rec, status)
    m = mismatch(exp, act)
    if m:
        problems.insert(0, m)
    passthrough = [e for e in exp if e[1] == "N"] == [] and (not exp or exp[-1][2] in ("SRC", None))
    nontrivial = bool(xs) and not passthrough
    return problems, nontrivial, act


def seq_reference(lin, cmp):
    """Earliest-decision reference of sequence_equal over ONE linearised event list
    [(time, source 0|1, kind, value)]: -> expected events."""
    seen = ([], [])
    done = [False, False]
    matched = 0
    for (t, s, k, v) in lin:
        if k == "E":
            return [(t, "E", "SRC:" + ("src" if s == 0 else "second"))]
        if k == "N":
            seen[s].append(v)
        else:
            done[s] = True
        a, b = seen
        verdict = None
        while matched < min(len(a), len(b)):
            if not cmp(a[matched], b[matched]):
                verdict = False
                break
            matched += 1
        if verdict is None and ((done[0] and len(b) > len(a)) or (done[1] and len(a) > len(b))):
            verdict = False
        if verdict is None and done[0] and done[1]:
            verdict = True
        if verdict is not None:
            return [(t, "N", norm(verdict)), (t, "C", None)]
    return []


def linearisations(ev_a, ev_b):
    """ev_x: [(abs time, kind, value)] in own order, strictly increasing instants.  All merged orders that
    respect time and each source's own order (ties between the two sources: both orders)."""
    times = sorted({t for (t, _, _) in ev_a} | {t for (t, _, _) in ev_b})
    groups = []
    for t in times:
        ga = [(t, 0, k, v) for (tt, k, v) in ev_a if tt == t]
        gb = [(t, 1, k, v) for (tt, k, v) in ev_b if tt == t]
        if ga and gb:
            groups.append([ga + gb, gb + ga])
        else:
            groups.append([ga + gb])
    for choice in itertools.product(*groups):
        yield [e for g in choice for e in g]


def judge_seq(part_kind, iid, alpha, payload):
    from reactivex import operators as ops

    cn = iid.split(":")[2]
    cmp = SEQ_CMP[cn]
    cmp_ = cmp or (lambda a, b: a == b)
    env = vt.Env(budget=5000)
    rec = env.recorder("out")
    if part_kind == "seq_obs":
        tla, tlb = payload
        src = env.cold("src", tla)
        second = env.cold("second", tlb)
        ev_b = [(vt.SUB + t, k, v) for (t, k, v) in tlb]
        arg = second
    else:
        tla, content = payload
        src = env.cold("src", tla)
        ikind = iid.split(":")[1]
        arg = ITER_KINDS[ikind](content)
        # the iterable is enumerated in the subscription instant, before any element of the first
        ev_b = None
    build = lambda: src.pipe(ops.sequence_equal(arg) if cmp is None else ops.sequence_equal(arg, cmp))
    env.subscribe_at(vt.SUB, build, rec)
    status = env.run()
    act = actual(rec)
    ev_a = [(vt.SUB + t, k, v) for (t, k, v) in tla]
    if ev_b is None:
        lins = [[(vt.SUB, 1, "N", v) for v in content] + [(vt.SUB, 1, "C", None)] + [(t, 0, k, v) for (t, k, v) in ev_a]]
    else:
        lins = list(linearisations(ev_a, ev_b))
    exps = []
    for lin in lins:
        e = seq_reference(lin, cmp_)
        if e not in exps:
            exps.append(e)
    problems = checks_common(env, rec, status)
    ms = [mismatch(e, act) for e in exps]
    if all(m is not None for m in ms):
        m = ms[0]
        alt = "" if len(exps) == 1 else " (or, for the other order of the simultaneous events, " + " / ".join(show(e) for e in exps[1:]) + ")"
        problems.insert(0, (m[0], m[1] + alt))
    na = sum(1 for e in tla if e[1] == "N")
    nb = len(payload[1]) if part_kind == "seq_iter" else sum(1 for e in payload[1] if e[1] == "N")
    nontrivial = (na + nb) > 0 and any(e and e[0][1] == "N" for e in exps)
    return problems, nontrivial, act


def judge(case):
    part_kind, iid, alpha, payload, build, ref = case
    if part_kind == "agg":
        return judge_agg(iid, payload, build, ref)
    return judge_seq(part_kind, iid, alpha[1], payload)


def signature(iid, alpha, problems):
    """operator | parameter shape | alphabet kind for the value-dependent families | what went wrong"""
    op = iid.split(":")[0]
    tag = f"|{alpha[0]}" if alpha[0] in ("ord", "mix") else ""
    return f"{op}|{iid}{tag}|{problems[0][0]}"


def shard(part: core.Part, shard_i, nshards, tier, seed, deadline):
    for case in core.shard_iter(all_cases(tier, seed), shard_i, nshards):
        if part.evals % 256 == 0 and _time.time() > deadline:
            part.complete = False
            return
        part_kind, iid, alpha, payload, build, ref = case
        problems, nontrivial, act = judge(case)
        if problems is None:
            part.count("not_judged(two competing errors)")
            continue
        part.case((part_kind, iid, repr(alpha), repr(payload)), nontrivial, outcome=show(act), sample={"part": part_kind, "instance": iid, "alphabet": repr(alpha[1]), "input": payload, "observed": show(act)})
        part.count("op:" + iid.split(":")[0])
        part.count("part:" + part_kind)
        if problems:
            rec = {"part": part_kind, "instance": iid, "alphabet": repr(alpha), "input": payload, "tier": tier, "seed": seed}
            part.violation(signature(iid, alpha, problems), f"{iid} over {alpha[1]!r} on {payload!r}: {problems[0][1]}", rec, problems=[list(p) for p in problems])


def run(ctx: core.Ctx):
    b = bounds(ctx.tier)
    ctx.bounds = {
        "agg": {"N": b["N"], "alphabets": [f"{k}:{a!r}" for k, a in b["alphabets"]], "timeline_options": b["tl"] or "one element per instant, terminal one slot later"},
        "sequence_equal": {"M": b["M"], "alphabets_comparers": [f"{a!r}:{','.join(c)}" for a, c in b["seq"]], "placements": "all weak-order merges", "iterables": list(ITER_KINDS)},
    }
    ctx.assumptions = [
        "VirtualTimeScheduler queue discipline (checked separately by C28/C29)",
        "harness LoggedCold source is conforming",
        "comparers are consistent (total preorders) and equality comparers symmetric: the statement does not fix argument order",
    ]
    # every shard walks the whole enumeration (index mod nshards keeps them balanced): few, large shards
    part = ctx.sharded(shard, nshards=2 * max(1, ctx.workers))
    ctx.cov["operators_covered"] = sorted(k[3:] for k in part.counters if k.startswith("op:"))


def replay(case):
    want_in = core.jsonable(case["input"])
    for c in all_cases(case["tier"], case["seed"]):
        part_kind, iid, alpha, payload, build, ref = c
        if part_kind == case["part"] and iid == case["instance"] and repr(alpha) == case["alphabet"] and core.jsonable(payload) == want_in:
            problems, _, act = judge(c)
            print("input:", payload)
            print("observed:", show(act))
            if problems:
                return [{"signature": signature(iid, alpha, problems), "what": problems[0][1], "detail": [list(p) for p in problems]}]
            return []
    print("case not found in this tier's enumeration")
    return []
