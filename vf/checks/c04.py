"""C04 Cold observables can be subscribed again with identical results (E1, differential, bounded-exhaustive).

One pipeline object is built once over a LoggedCold source and the *same observable object* is
subscribed several times: (seq3) three times in sequence, each after the previous one was finished,
(overlap) twice overlapping at 200 and 215, (same) twice in the same instant.  Oracle: the
notification lists of all subscriptions (outer subscriber and every observable it was handed),
taken relative to each subscription's instant, are equal under R2.  No reference model.
"""
from __future__ import annotations

import time

from .. import c0444_lib as L
from .. import catalogue, core, vt

PROPERTY = "C04"
LEVEL = "exploration"
META = {
    "engine": "vtx",
    "technique": "bounded-exhaustive enumeration of cold pipelines x timelines x re-subscription patterns on virtual time; "
    "differential oracle between the subscriptions of one observable object",
    "text": "every cold-safe catalogue instance (depth 1; thorough: depth 2 with a core second/first stage), plus the argument-kind "
    "families named by the statement (varargs/list/tuple/re-iterable for concat, catch, on_error_resume_next, for_in, "
    "zip_with_iterable) and per-subscription scripted loops (while_do, do_while, retry over a flaky source, inner pickers), "
    "over ~20 cold timelines; the same observable object is subscribed 3x in sequence, 2x overlapping and 2x in one instant "
    "and all relative notification lists must be equal",
    "note": "trusted: CPython, harness (LoggedCold, causal-context scheduler used to key scripted callbacks by subscription), "
    "VirtualTimeScheduler's queue discipline (C28/C29)",
}
RULE = (
    "all (pipeline, timeline, pattern): pipeline = cold-safe instance (quick: depth 1; thorough: + instance x core and core x instance), "
    "timeline in TLS(non-rogue) + a seed-chosen 1/13 projection of TL(3,2) with bursts/never/same-instant terminals, pattern in "
    "{seq3 at 200/600/1000, overlap at 200/215, same instant 200/200}; non-trivial = the first subscriber received >=1 notification and "
    "every subscription opened its own subscription on the main source; distinct = (pipeline, timeline, pattern); "
    "outcome = first subscriber's relative log"
)
BUDGET = {"quick": 150.0, "thorough": 1500.0}

W = 380  # comparison window (relative); every subscriber is disposed first-in-instant at +W
PATTERNS = {
    "seq3": ((200.0, 600.0, 1000.0), 1400.0),
    "overlap": ((200.0, 215.0), 700.0),
    "same": ((200.0, 200.0), 700.0),
}


# partition/partition_indexed are publish()+ref_count() composites (reactivex/operators/_partition.py): the statement
# excludes multicasting operators, and a ref-counted Subject that has terminated legitimately replays only its terminal
EXCLUDED = {"partition:merge": "built on publish+ref_count (multicasting, excluded by the statement)",
            "partition_indexed:merge": "built on publish+ref_count (multicasting, excluded by the statement)"}


def cold_entries():
    ents = L.entries()
    return [e for e in ents.values() if "cold_safe" in e.flags and e.id not in L.STATEFUL and e.id not in EXCLUDED]


def core_entries():
    return [e for e in cold_entries() if "core" in e.flags]


def timelines_for(seed):
    A, B, C = 1, 2, 3
    out = {k: v for k, v in catalogue.TLS(A, B, C).items() if not k.startswith("rogue")}
    seen = {repr(v) for v in out.values()}
    allt = list(vt.timelines(3, (A, B), terminals=("C", "E", None), bursts=True, same_instant_terminal=True))
    r = seed % 13
    for i, tl in enumerate(allt):
        if i % 13 == r and repr(tl) not in seen:
            seen.add(repr(tl))
            out[f"TL32#{i}"] = tl
    return out


def pipelines(tier):
    cold = cold_entries()
    for e in cold:
        yield (e.id,)
    if tier == "thorough":
        core = core_entries()
        for e in cold:
            for c in core:
                if bad_combo(e, c):
                    continue
                yield (e.id, c.id)
        coreids = {c.id for c in core}
        for c in core:
            for e in cold:
                if e.id in coreids or bad_combo(c, e):
                    continue
                yield (c.id, e.id)


def bad_combo(first, second):
    # absolute clock readings turned into text cannot be rebased (to_marbles after timestamp)
    return "clockvalue" in first.flags and "stringify" in second.flags


def all_cases(tier, seed):
    tls = timelines_for(seed)
    for stages in pipelines(tier):
        for tn, tl in tls.items():
            for pn in PATTERNS:
                yield (stages, tn, tl, pn)


def observe(stages, tl, pn):
    ents = L.entries()
    es = [ents[s] for s in stages]
    subs, horizon = PATTERNS[pn]
    R = L.run_pipeline(es, tl, subs, horizon=horizon, dispose_after=W)
    clock = any("clockvalue" in e.flags for e in es)
    views = []
    for s, st in zip(R.subs, subs):
        views.append(s.view(rel=st, until=W, rebase=(R.env.sched, st) if clock else None))
    return R, views


def classify(v0, vk):
    """What differs between the first and a later subscription (narrow, observation-derived)."""
    o0, ok = v0[0], vk[0]
    if o0 == ok:
        return "inner-observables-differ"
    if [(t, k) for (t, k, _) in o0] == [(t, k) for (t, k, _) in ok]:
        d = leaf_diffs([e[2] for e in o0], [e[2] for e in ok])
        if d and all(isinstance(a, int) and isinstance(b, int) and not isinstance(a, bool) and b > a for a, b in d):
            return "index-continues-across-subscriptions"
        return "values-differ"
    return "notifications-differ"


def leaf_diffs(a, b):
    out = []

    def go(x, y):
        if x == y:
            return
        if isinstance(x, tuple) and isinstance(y, tuple) and len(x) == len(y):
            # a normalised scalar is (typename, value)
            if len(x) == 2 and isinstance(x[0], str) and not isinstance(x[1], tuple) and x[0] == y[0]:
                out.append((x[1], y[1]))
                return
            for i, j in zip(x, y):
                go(i, j)
        elif isinstance(x, list) and isinstance(y, list) and len(x) == len(y):
            for i, j in zip(x, y):
                go(i, j)
        else:
            out.append((x, y))

    go(a, b)
    return out


_alone: dict[str, str | None] = {}


def fails_alone(sid, seed):
    """Does the single stage already violate the property (any timeline/pattern)?  -> its signature or None (memo)."""
    if sid not in _alone:
        sig = None
        for tn, tl in timelines_for(seed).items():
            for pn in PATTERNS:
                R, views = observe((sid,), tl, pn)
                bad = [k for k in range(1, len(views)) if views[k] != views[0]]
                if bad and R.status == "ok":
                    sig = f"{sid}|{classify(views[0], views[bad[0]])}"
                    break
            if sig:
                break
        _alone[sid] = sig
    return _alone[sid]


def signature(stages, cls, seed):
    if len(stages) == 1:
        return f"{stages[0]}|{cls}"
    for s in stages:
        a = fails_alone(s, seed)
        if a:
            return a  # the composite shows a stage's own defect
    return f"{'+'.join(stages)}|{cls}"


def judge(stages, tl, pn, seed):
    R, views = observe(stages, tl, pn)
    problems = []
    if R.status != "ok":
        return R, views, [("harness", "run exceeded the action budget")]
    bad = [k for k in range(1, len(views)) if views[k] != views[0]]
    if bad:
        k = bad[0]
        cls = classify(views[0], views[k])
        problems.append((signature(stages, cls, seed), f"subscription #{k + 1} (at t={PATTERNS[pn][0][k]:g}, pattern {pn}) differs from the first: "
                         f"first={L.show(views[0])} later={L.show(views[k])}"))
    return R, views, problems


def shard(part: core.Part, shard_i, nshards, tier, seed, deadline):
    for (stages, tn, tl, pn) in core.shard_iter(all_cases(tier, seed), shard_i, nshards):
        if part.evals % 128 == 0 and time.time() > deadline:
            part.complete = False
            return
        R, views, problems = judge(stages, tl, pn, seed)
        nsub = len(PATTERNS[pn][0])
        nontrivial = bool(views and views[0][0]) and len(R.main.subs) >= nsub
        case = {"stages": list(stages), "timeline_name": tn, "timeline": tl, "pattern": pn, "seed": seed}
        part.case((stages, tn, pn), nontrivial, outcome=(pn, repr(views[0]) if views else None),
                  sample={"stages": list(stages), "timeline": tl, "pattern": pn, "first_subscription": L.show(views[0]) if views else None})
        part.count("depth%d" % len(stages))
        if R.env.sched.escaped:
            part.count("runs_with_exception_escaped_into_scheduler")
        for (sig, what) in problems:
            if sig == "harness":
                part.count("budget_hits")
                part.notes.append(f"budget hit: {stages} {tn} {pn}")
                continue
            part.violation(sig, f"{'+'.join(stages)} on {tn}: {what}", case)


def run(ctx: core.Ctx):
    tls = timelines_for(ctx.seed)
    ctx.bounds = {
        "depth": 1 if ctx.tier == "quick" else 2,
        "cold_safe_instances": len(cold_entries()),
        "core_instances": len(core_entries()) if ctx.tier == "thorough" else 0,
        "timelines": len(tls),
        "patterns": {k: list(v[0]) for k, v in PATTERNS.items()},
        "window": W,
    }
    ctx.assumptions = [
        "VirtualTimeScheduler queue discipline (checked separately by C28/C29)",
        "harness LoggedCold source is conforming and cold",
        "scripted callbacks (loop conditions, inner pickers, flaky source) are deterministic per subscription: keyed by the causal context of the subscription",
        "one-shot iterators passed by the caller are outside the statement (not enumerated)",
    ]
    ctx.cov["skipped_stateful_catalogue_entries"] = sorted(L.STATEFUL)
    ctx.cov["excluded_entries"] = EXCLUDED
    ctx.sharded(shard)


def replay(case):
    stages = tuple(case["stages"])
    tl = [tuple(x) for x in case["timeline"]]
    R, views, problems = judge(stages, tl, case["pattern"], case.get("seed", 0))
    for k, v in enumerate(views):
        print(f"subscription #{k + 1} at t={PATTERNS[case['pattern']][0][k]:g} (relative):", L.show(v, 1200))
    return [{"signature": s, "what": w, "detail": None} for (s, w) in problems if s != "harness"]
