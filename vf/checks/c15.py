"""C15 Time-shifting operators move notifications by the requested time (E1, bounded-exhaustive).

Enumerated completely per tier: every operator instance of `instances()` x every timeline of
`timeref.gap_timelines` (<=N elements, consecutive gaps from
{0,5,10,15} so that gaps are <, = and > every delay, bursts, completion/error/no terminal
at every gap incl. the instant of the last element), on a numeric (TestScheduler-based) and
a datetime (HistoricalScheduler-based) virtual clock.  Oracle: the statement's rule as a
small nondeterministic reference simulator; exact wherever no two events of different
origin share an instant, closure over their orders where they do (R3).
"""
from __future__ import annotations

import time

from .. import core, timed_ilv, timeref, vt
from ..timeref import src_err

PROPERTY = "C15"
LEVEL = "exploration"
META = {
    "engine": "vtx",
    "technique": "bounded-exhaustive enumeration of (time-shifting operator instance, gap-re-timed timeline, clock kind) on virtual time "
    "against nondeterministic reference simulators (closure over same-instant orders); plus stateless exhaustive exploration of thread interleavings (bounded preemptions) of the operator on a real-time scheduler with the source on its own thread, timer and source notification due in the same instant",
    "text": "delay (0/relative number/timedelta/absolute datetime), delay_subscription, delay_with_mapper (per-element delay observables incl. "
    "synchronously empty, emitting twice, completing, never; with and without subscription delay), timestamp and time_interval are executed "
    "on the real code for every timeline of <=N elements with gaps <,=,> the delay, bursts and completion/error while elements are pending, "
    "on a numeric and a datetime virtual clock; every observed (instant, notification) list and the source's subscription instant must be a "
    "member of the reference set; exhaustive within N",
    "note": "trusted: CPython, the harness in /verif/vf (vt.py, timeref.py), the reference simulators, VirtualTimeScheduler's queue discipline (C28/C29)",
}
META["text"] += "; thread part: delay, delay_with_mapper, delay_subscription on TimeoutScheduler/EventLoopScheduler (controlled clock) with the source on its own thread and a notification in the instant a timer is due"
RULE = (
    "all (instance, timeline) pairs: instance = operator x parameter x parameter form x clock kind; timelines = every sequence of <=N on_next "
    "with consecutive gaps in {0,5,10,15} followed by nothing, completion or error after every gap in {0,5,10,15}; "
    "element values: every word over two values (thorough: additionally pairwise distinct positional values); "
    "non-trivial = the source emitted >=1 element and (the reference output differs from the source's own events or a same-instant tie "
    "was resolved); distinct = (instance, timeline)"
)
BUDGET = {"quick": 300.0, "thorough": 2400.0}

GAPS = (0, 5, 10, 15)


# ------------------------------------------------------------------ reference models

class Fifo:
    """Elements (and the completion) leave in arrival order, each at its own due instant."""

    def __init__(self):
        self.q = []

    def push(self, sim, due, k, v):
        self.q.append((due, k, v))
        self.arm(sim)

    def arm(self, sim):
        if self.q:
            sim.timer("head", self.q[0][0])
        else:
            sim.cancel("head")

    def pop(self, sim):
        due, k, v = self.q.pop(0)
        self.arm(sim)
        return k, v


class Delay:
    """every element and the completion exactly d later, in order; error immediately, pending dropped"""

    def __init__(self, tl, d):
        self.tl, self.d, self.f = tl, d, Fifo()

    def start(self, sim):
        sim.subscribe("src", self.tl)

    def on_source(self, sim, name, k, v):
        if k == "E":
            sim.emit("E", src_err("src"))
        else:
            self.f.push(sim, sim.now + self.d, k, vt.norm_value(v) if k == "N" else None)

    def on_timer(self, sim, tid):
        k, v = self.f.pop(sim)
        sim.emit(k, v)


class DelaySubscription:
    """subscribes d later; the source's notifications pass in their own instant (an error may
    overtake elements of its own instant: 'pending' elements of a zero shift)"""

    def __init__(self, tl, d):
        self.tl, self.d, self.f = tl, d, Fifo()

    def start(self, sim):
        sim.timer("sub", sim.now + self.d)

    def on_timer(self, sim, tid):
        if tid == "sub":
            sim.subscribe("src", self.tl)
        else:
            k, v = self.f.pop(sim)
            sim.emit(k, v)

    def on_source(self, sim, name, k, v):
        if k == "E":
            sim.emit("E", src_err("src"))
        else:
            self.f.push(sim, sim.now, k, vt.norm_value(v) if k == "N" else None)


class DelayWithMapper:
    """each element is delivered when its delay observable first emits or completes; completion
    once the source completed and nothing is pending; errors (source, delay observable) immediately"""

    def __init__(self, tl, delays, sub_delay):
        self.tl, self.delays, self.sub_delay = tl, delays, sub_delay
        self.pending, self.k, self.at_end = {}, 0, False

    def start(self, sim):
        if self.sub_delay is None:
            sim.subscribe("src", self.tl)
        else:
            sim.subscribe("sd", self.sub_delay)

    def done(self, sim):
        if self.at_end and not self.pending:
            sim.emit("C")

    def on_source(self, sim, name, k, v):
        if name == "sd":
            if k == "E":
                sim.emit("E", src_err("sd"))
            else:
                sim.unsubscribe("sd")
                sim.subscribe("src", self.tl)
        elif name == "src":
            if k == "N":
                self.k += 1
                key = ("d", self.k)
                self.pending[key] = v
                sim.subscribe(key, self.delays[v])
            elif k == "E":
                sim.emit("E", src_err("src"))
            else:
                self.at_end = True
                self.done(sim)
        else:
            if k == "E":
                sim.emit("E", src_err(f"d{self.pending[name]}"))
                return
            x = self.pending.pop(name)
            sim.unsubscribe(name)
            sim.emit("N", vt.norm_value(x))
            self.done(sim)

    def on_timer(self, sim, tid):
        pass


class Stamp:
    """timestamp: value + clock reading; time_interval: value + time since previous element / subscription"""

    def __init__(self, tl, interval):
        self.tl, self.interval = tl, interval

    def start(self, sim):
        self.last = sim.now
        sim.subscribe("src", self.tl)

    def on_source(self, sim, name, k, v):
        if k == "N":
            if self.interval:
                sim.emit("N", ("TI", vt.norm_value(v), sim.now - self.last))
                self.last = sim.now
            else:
                sim.emit("N", ("TS", vt.norm_value(v), sim.now))
        elif k == "E":
            sim.emit("E", src_err("src"))
        else:
            sim.emit("C")

    def on_timer(self, sim, tid):
        pass


# ------------------------------------------------------------------ instances

class Inst:
    def __init__(self, iid, clock, build, model, extra=None, watch=(), norm=None, first_gaps=None, values="pos", deep=True):
        self.iid, self.clock, self.build, self.model = iid, clock, build, model
        self.extra, self.watch, self.norm, self.first_gaps = extra or {}, watch, norm, first_gaps
        self.values, self.deep = values, deep  # see timeref.instance_timelines


# per-element delay observables (relative timelines); D0 completes inside subscribe ("completes first")
DELAY_OBS = {
    "sync": [(None, "C", None)],
    "n5": [(5, "N", 0)],
    "n10n20": [(10, "N", 0), (20, "N", 1)],
    "c10": [(10, "C", None)],
    "never": [],
    "n0": [(0, "N", 0), (0, "C", None)],
}
SUB_DELAYS = {"none": None, "n10": [(10, "N", 0), (20, "N", 1)], "c5": [(5, "C", None)]}


def bounds(tier):
    if tier == "quick":
        return {
            "N": 3,
            "delays": (0, 5, 10, 25),
            "clocks": {"num": ("rel", "td", "abs"), "dt": ("rel", "abs")},
            "delay_obs": ("sync", "n5", "n10n20", "c10"),
            # (clock, subscription delay, delay observables of the two alphabet values)
            "dwm": [("num", "none", da, db) for da in ("sync", "n5", "n10n20", "c10") for db in ("sync", "n5", "n10n20", "c10")]
            + [("num", "n10", "n5", db) for db in ("sync", "n5", "n10n20")] + [("dt", "none", "n5", "n10n20"), ("dt", "c5", "c10", "sync")],
        }
    names = ("sync", "n5", "n10n20", "c10", "never", "n0")
    return {
        "N": 4,
        "delays": (0, 5, 10, 25),
        "clocks": {"num": ("rel", "float", "td", "abs"), "dt": ("rel", "float", "td", "abs")},
        "delay_obs": names,
        "dwm": [("num", "none", da, db) for da in names for db in names]
        + [("dt", "none", da, db) for da in names[:4] for db in names[:4]]
        + [("num", sd, da, db) for sd in ("n10", "c5") for da in names[:4] for db in names[:4]],
    }


def seed_params(seed):
    rot = seed % 3
    vals = (1 + 10 * rot, 2 + 10 * rot, 3 + 10 * rot, 4 + 10 * rot)
    sub = (200, 300, 250)[rot]
    return vals, sub


def time_arg(K, form, d, sub):
    if form == "rel":
        return d
    if form == "float":
        return float(d)
    if form == "td":
        return K.td(d)
    return K.abs(sub + d)


def instances(tier, seed):
    from reactivex import operators as ops
    from reactivex.operators._timeinterval import TimeInterval
    from reactivex.operators._timestamp import Timestamp

    b = bounds(tier)
    vals, sub = seed_params(seed)
    A, B = vals[0], vals[1]

    for clock, forms in b["clocks"].items():
        for d in b["delays"]:
            for form in forms:
                yield Inst(
                    f"delay:{form}:{d}:{clock}", clock,
                    lambda K, S, d=d, form=form: S["src"].pipe(ops.delay(time_arg(K, form, d, sub), scheduler=K.sched)),
                    lambda tl, d=d: Delay(tl, d), first_gaps=(5,),
                )
        for d in ((0, 10) if tier == "quick" else (0, 5, 10)):
            for form in forms:
                yield Inst(
                    f"delay_subscription:{form}:{d}:{clock}", clock,
                    lambda K, S, d=d, form=form: S["src"].pipe(ops.delay_subscription(time_arg(K, form, d, sub), scheduler=K.sched)),
                    lambda tl, d=d: DelaySubscription(tl, d), watch=("src",), first_gaps=(0, 5),
                )

        def stamp_norm(K):
            def norm(v):
                if isinstance(v, Timestamp):
                    return ("TS", vt.norm_value(v.value), K.num(v.timestamp))
                if isinstance(v, TimeInterval):
                    return ("TI", vt.norm_value(v.value), K.num(v.interval))
                return ("?", vt.norm_value(v))

            return norm

        yield Inst(f"timestamp:{clock}", clock, lambda K, S: S["src"].pipe(ops.timestamp(scheduler=K.sched)), lambda tl: Stamp(tl, False), norm=stamp_norm)
        yield Inst(f"time_interval:{clock}", clock, lambda K, S: S["src"].pipe(ops.time_interval(scheduler=K.sched)), lambda tl: Stamp(tl, True), norm=stamp_norm)

    # delay_with_mapper: the element's value selects its delay observable
    for (clock, sdn, da, db) in b["dwm"]:
        delays = {A: DELAY_OBS[da], B: DELAY_OBS[db]}
        extra = {f"d{A}": DELAY_OBS[da], f"d{B}": DELAY_OBS[db]}
        sd = SUB_DELAYS[sdn]
        if sd is not None:
            extra["sd"] = sd

        def build(K, S, sd=sd):
            mapper = lambda x: S[f"d{x}"]
            if sd is None:
                return S["src"].pipe(ops.delay_with_mapper(mapper))
            return S["src"].pipe(ops.delay_with_mapper(S["sd"], mapper))

        yield Inst(
            f"delay_with_mapper:{sdn}:{da}:{db}:{clock}", clock, build,
            lambda tl, delays=delays, sd=sd: DelayWithMapper(tl, delays, sd),
            extra=extra, watch=("src",), first_gaps=(5,), values="alpha",
        )


def all_cases(tier, seed):
    vals, _ = seed_params(seed)
    cache = {}
    for inst in instances(tier, seed):
        for tl in timeref.instance_timelines(tier, inst.values, inst.deep, vals, GAPS, inst.first_gaps, cache):
            yield inst, tl


def judge(inst, tl, seed):
    _, sub = seed_params(seed)
    K = timeref.Clock(inst.clock, seed)
    sources = {"src": tl}
    sources.update(inst.extra)
    norm = inst.norm(K) if inst.norm else None
    problems, obs, exp, tied, S = timeref.judge(K, sub, sources, inst.build, lambda: inst.model(tl), inst.watch, norm=norm)
    n_el = sum(1 for e in tl if e[1] == "N")
    plain = tuple((sub + t, k, (vt.norm_value(v) if k == "N" else (src_err("src") if k == "E" else None))) for (t, k, v) in timeref.until_terminal(tl))
    nontrivial = n_el >= 1 and (tied or any(e[0] != plain for e in exp))
    return problems, nontrivial, obs, exp


def signature(inst, problems):
    parts = inst.iid.split(":")
    op = parts[0]
    if op == "delay_with_mapper":
        shape = f"subdelay={parts[1]}"
    elif op in ("delay", "delay_subscription"):
        shape = f"{parts[1]}:{'zero' if parts[2] == '0' else 'positive'}"
    else:
        shape = "-"
    return f"{op}|{shape}|{problems[0][0]}"


def resub_cases(tier, seed):
    """Absolute due times and re-subscription: the same delay(absolute T) / delay_subscription(absolute T) observable is
    subscribed at several instants; every subscription must be shifted by max(0, T - its own subscription instant)."""
    _, sub = seed_params(seed)
    tls = [[(10, "N", 1), (20, "N", 2), (30, "C", None)], [(10, "N", 1), (20, "E", "E")]] + ([[(5, "N", 1), (5, "N", 2), (15, "C", None)]] if tier != "quick" else [])
    for op in ("delay", "delay_subscription"):
        for d in (10, 25, 60):
            for subs in ((0, 100), (0, 5), (0, 40, 200)):
                for tl in tls:
                    yield {"op": op, "d": d, "subs": list(subs), "tl": tl, "sub": sub}


def judge_resub(c):
    from reactivex import operators as ops

    env = vt.Env()
    T = c["sub"] + c["d"]
    src = env.cold("src", c["tl"])
    f = ops.delay if c["op"] == "delay" else ops.delay_subscription
    obs = src.pipe(f(env.sched.to_datetime(T), scheduler=env.sched))
    recs = []
    for off in c["subs"]:
        r = env.recorder(f"out@{off}")
        recs.append((c["sub"] + off, r))
        env.subscribe_at(c["sub"] + off, obs, r)
    env.run(horizon=c["sub"] + 900)
    problems = []
    for (s_i, r) in recs:
        shiftd = max(0, T - s_i)
        exp = []
        for (t, k, v) in c["tl"]:
            if k == "E" and c["op"] == "delay":
                exp.append((s_i + t, "E"))  # an error is delivered immediately, dropping what is pending
                exp = [e for e in exp if e[0] <= s_i + t and not (e[1] == "N" and e[0] > s_i + t)]
                break
            exp.append((s_i + t + shiftd, k))
        if c["op"] == "delay" and any(k == "E" for (_, k, _) in c["tl"]):
            te = s_i + next(t for (t, k, _) in c["tl"] if k == "E")
            exp = [(tt, k) for (tt, k) in exp if k == "E" or tt < te] + []
            exp = sorted(set(exp), key=lambda e: (e[0], e[1] != "N"))
        got = [(t, k) for (t, k, _) in r.events()]
        if c["op"] == "delay" and any(k == "E" for (_, k, _) in c["tl"]):
            # elements due in the very instant of the error may or may not overtake it (R3)
            ok = got == exp or got == [e for e in exp if not (e[1] == "N" and e[0] == te)]
        else:
            ok = got == exp
        if not ok:
            problems.append(("resubscribed-absolute-due-time", f"{c['op']}(absolute {T}) subscribed at {s_i}: observed {got}, expected {exp} (shift max(0, T - subscription instant) = {shiftd})"))
    if env.sched.escaped:
        problems.append(("escaped", repr(env.sched.escaped[0][1])))
    return problems


def shard(part: core.Part, shard_i, nshards, tier, seed, deadline):
    if shard_i == 0:
        for c in resub_cases(tier, seed):
            probs = judge_resub(c)
            part.case(("resub", repr(c)), True, outcome=("resub", c["op"], bool(probs)))
            part.count("op:" + c["op"] + ":absolute-resubscribed")
            if probs:
                part.violation(f"{c['op']}|abs|{probs[0][0]}", f"{c['op']} with an absolute due time, subscriptions at {c['subs']}: {probs[0][1]}", dict(c, mode="resub", tier=tier, seed=seed), problems=[p[1] for p in probs])
    for (inst, tl) in core.shard_iter(all_cases(tier, seed), shard_i, nshards):
        if part.evals % 128 == 0 and time.time() > deadline:
            part.complete = False
            return
        problems, nontrivial, obs, exp = judge(inst, tl, seed)
        part.case((inst.iid, repr(tl)), nontrivial, outcome=(inst.iid.split(":")[0], timeref.show(obs)),
                  sample={"instance": inst.iid, "timeline": tl, "observed": timeref.show(obs), "admissible": len(exp)})
        part.count("op:" + inst.iid.split(":")[0])
        if len(exp) > 1:
            part.count("cases_with_tie_closure")
        if problems:
            case = {"instance": inst.iid, "timeline": tl, "tier": tier, "seed": seed}
            part.violation(signature(inst, problems), f"{inst.iid} on {tl}: {problems[0][1]}", case, problems=[p[1] for p in problems])


def run(ctx: core.Ctx):
    b = bounds(ctx.tier)
    ctx.bounds = {"N": b["N"], "gaps": list(GAPS), "delays": list(b["delays"]),
                  "values": "every word over 2 values" + (" (plus positional distinct values)" if ctx.tier != "quick" else ""),
                  "clocks_and_forms": {k: list(v) for k, v in b["clocks"].items()}, "delay_observables": list(b["delay_obs"]),
                  "delay_with_mapper_instances": len(b["dwm"])}
    ctx.assumptions = [
        "VirtualTimeScheduler queue discipline (checked separately by C28/C29)",
        "harness LoggedCold source is conforming",
        "same-instant events of different origin may be observed in any order (R3); an error may overtake elements that are still pending in its own instant",
    ]
    timed_ilv.run_part(ctx, "C15")  # E3: real-time scheduler, source on its own thread
    part = ctx.sharded(shard)
    ctx.cov["operators_covered"] = sorted(k[3:] for k in part.counters if k.startswith("op:"))
    ctx.cov["instances"] = sum(1 for _ in instances(ctx.tier, ctx.seed))


def replay(case):
    if isinstance(case, dict) and str(case.get("harness", "")).startswith("timed-threads|"):
        return timed_ilv.replay("C15", case)
    if case.get("mode") == "resub":
        c = dict(case)
        c["tl"] = [tuple(x) for x in c["tl"]]
        probs = judge_resub(c)
        print("re-subscription case:", c)
        return [{"signature": f"{c['op']}|abs|{p[0]}", "what": p[1]} for p in probs]
    tl = [tuple(x) for x in case["timeline"]]
    for inst in instances(case["tier"], case["seed"]):
        if inst.iid == case["instance"]:
            problems, _, obs, exp = judge(inst, tl, case["seed"])
            print("instance:", inst.iid, "timeline:", tl)
            print("observed:  ", timeref.show(obs))
            print("admissible:", " | ".join(sorted(timeref.show(e) for e in exp)))
            return [{"signature": signature(inst, problems), "what": problems[0][1], "detail": [p[1] for p in problems]}] if problems else []
    print("instance not found in this tier's catalogue")
    return []
