"""C44 An operator function object can be applied to many sources independently (E1, differential).

For every operator instance: build ONE operator object, apply it to two (thorough: also three)
independent Logged sources and run a script of subscribe/unsubscribe (connect/disconnect for
connectables) events on the results, one event per virtual instant, for every interleaving of the
applications' 3-event scripts.  The same script is run with a FRESH operator object per source.
Oracle: per-subscriber logs (incl. observables handed out), source subscription intervals and
exceptions that escaped into the scheduler are identical in both runs.
"""
from __future__ import annotations

import itertools
import re
import time

from .. import c0444_lib as L
from .. import core, vt
from ..catalogue import Kit

PROPERTY = "C44"
LEVEL = "exploration"
META = {
    "engine": "vtx",
    "technique": "bounded-exhaustive differential exploration on virtual time: shared operator object vs fresh operator per source, "
    "over all interleavings of per-application subscribe/unsubscribe/connect/disconnect scripts",
    "text": "every operator factory of reactivex.operators.__all__ that the catalogue (plus local extras) instantiates is built once and "
    "applied to 2 (thorough: also 3) independent sources with their own timelines; all interleavings of the applications' 3-event scripts "
    "(all script pairs from a menu; cold and hot sources) are executed with the shared object and with fresh objects, and every "
    "subscriber log, every source subscription interval and every escaped exception must coincide",
    "note": "trusted: CPython, harness; callbacks with per-build state of the catalogue are replaced by per-subscription scripted ones "
    "(shared callback state is the caller's argument, not the operator's); multicast(subject=s) is excluded by the statement",
}
RULE = (
    "all (instance, timeline config, source kind, script tuple, interleaving): instance = every catalogue/extra instance except the five with "
    "per-build callback state; script menu = {(Sa,Sb,Ua),(Sa,Ua,Sb)} for plain results and {(Sa,K,Sb),(K,Sa,D),(Sa,K,D)} for connectables "
    "(S subscribe, U unsubscribe, K connect, D disconnect); 2 applications: all ordered script pairs x all 20 interleavings; 3 applications "
    "(thorough): every uniform script triple x all 1680 interleavings; events at 200+14*slot; non-trivial = in the fresh run every "
    "application had a subscriber that received >=1 notification and every main source was subscribed; distinct = the tuple above; "
    "outcome = the fresh run's observation"
)
BUDGET = {"quick": 150.0, "thorough": 1500.0}

PLAIN = {"P1": ("Sa", "Sb", "Ua"), "P2": ("Sa", "Ua", "Sb")}
CONN = {"Q1": ("Sa", "K", "Sb"), "Q2": ("K", "Sa", "D"), "Q3": ("Sa", "K", "D")}
SLOT = 14.0
T0 = 200.0
HORIZON = 600.0


def configs(A=1, B=2, C=3):
    return {
        "c1": [
            [(10, "N", A), (20, "N", B), (30, "N", A), (40, "C", None)],
            [(10, "N", C), (20, "N", C), (30, "N", B), (40, "E", "E")],
            [(10, "N", B), (20, "N", A), (30, "C", None)],
        ],
        "c2": [
            [(10, "N", A), (20, "E", "E")],
            [(10, "N", A), (20, "N", B), (30, "N", C)],
            [(10, "C", None)],
        ],
    }


def usable():
    return [e for e in L.entries().values() if e.id not in L.STATEFUL]


def covered_factories():
    from reactivex import operators as ops

    names = set()
    for e in usable():
        for part in re.split(r"[+]", e.id):
            names.add(part.split(":")[0])
    names |= {"dematerialize"} if "mat_demat" in names else set()
    allops = sorted(set(ops.__all__))
    objs = {id(getattr(ops, n)) for n in names if hasattr(ops, n)}
    names |= {n for n in allops if id(getattr(ops, n, None)) in objs}  # aliases (zip_with_list is zip_with_iterable)
    return [n for n in allops if n in names], [n for n in allops if n not in names]


def interleavings(napps, per=3):
    """All sequences over app indices with `per` occurrences of each (order of an app's own events kept)."""
    out = []

    def go(prefix, left):
        if not any(left):
            out.append(tuple(prefix))
            return
        for a in range(napps):
            if left[a]:
                left[a] -= 1
                go(prefix + [a], left)
                left[a] += 1

    go([], [per] * napps)
    return out


_IL = {}


def ilv(n):
    if n not in _IL:
        _IL[n] = interleavings(n)
    return _IL[n]


def all_cases(tier, seed):
    cfgs = ["c1"] if tier == "quick" else ["c1", "c2"]
    kinds = ["cold", "hot"]
    for e in usable():
        menu = CONN if "connectable" in e.flags else PLAIN
        for cfg in cfgs:
            for kind in kinds:
                for sp in itertools.product(sorted(menu), repeat=2):
                    for il in ilv(2):
                        yield (e.id, cfg, kind, sp, il)
    if tier == "thorough":
        for e in usable():
            menu = sorted(CONN if "connectable" in e.flags else PLAIN)
            triples = [(m, m, m) for m in menu]
            for sp in triples:
                for il in ilv(3):
                    yield (e.id, "c1", "cold", sp, il)


def script_of(entry, sp, il):
    menu = CONN if "connectable" in entry.flags else PLAIN
    pos = [0] * len(sp)
    out = []
    for app in il:
        out.append((app, menu[sp[app]][pos[app]]))
        pos[app] += 1
    return out


def alphabet_for(seed):
    """seed only picks which integers play A, B, C (callbacks see them through the inverse mapping)"""
    r = 10 * (seed % 3)
    return (1 + r, 2 + r, 3 + r), (lambda x: x - r if r and isinstance(x, int) and not isinstance(x, bool) and x > r else x)


def observe(eid, mode, cfg, kind, script, seed=0):
    alphabet, unrename = alphabet_for(seed)
    entry = L.entries()[eid]
    env = vt.Env(sched=L.CtxScheduler())
    napps = 1 + max(a for a, _ in script)
    tls = configs(*alphabet)[cfg][:napps]
    srcs = []
    for i, tl in enumerate(tls):
        if kind == "hot":
            srcs.append(env.hot(f"main{i}", [(T0 + t, k, v) for (t, k, v) in tl]))
        else:
            srcs.append(env.cold(f"main{i}", tl))
    if mode == "shared":
        op = entry.build(Kit(env, kind, alphabet, unrename, 0, T0))
        res = [op(s) for s in srcs]
    else:
        res = [entry.build(Kit(env, kind, alphabet, unrename, 0, T0))(s) for s in srcs]
    subs = {}
    conns = {}

    def act(app, ev):
        if ev[0] == "S":
            s = L.Sub(env, f"app{app}.{ev[1]}", (app, ev[1]))
            subs[(app, ev[1])] = s
            s.subscribe(res[app])
        elif ev[0] == "U":
            subs[(app, ev[1])].dispose()
        elif ev == "K":
            sched = env.sched
            prev, sched.ctx = sched.ctx, ("conn", app)
            try:
                conns[app] = res[app].connect(sched)
            finally:
                sched.ctx = prev
        elif ev == "D":
            if conns.get(app) is not None:
                conns[app].dispose()

    for slot, (app, ev) in enumerate(script):
        env.at(T0 + SLOT * slot, lambda app=app, ev=ev: act(app, ev))
    status = env.run(HORIZON)
    logs = {f"app{a}.{r}": s.view() for (a, r), s in sorted(subs.items())}
    intervals = {}
    for s in env.sublog:
        intervals.setdefault(s["source"], []).append((s["sub_time"], s["unsub_time"]))
    intervals = {k: sorted(v, key=repr) for k, v in sorted(intervals.items())}
    escaped = [(t, type(e).__name__, str(e)[:80]) for (t, e) in env.sched.escaped]
    return {"status": status, "logs": logs, "subscriptions": intervals, "escaped": escaped}


def judge(eid, cfg, kind, sp, il, seed=0):
    entry = L.entries()[eid]
    script = script_of(entry, sp, il)
    fresh = observe(eid, "fresh", cfg, kind, script, seed)
    shared = observe(eid, "shared", cfg, kind, script, seed)
    problem = None
    if fresh["status"] != "ok" or shared["status"] != "ok":
        problem = ("harness", "action budget exceeded")
    elif fresh["logs"] != shared["logs"]:
        k = next(k for k in fresh["logs"] if fresh["logs"][k] != shared["logs"][k])
        problem = ("subscriber-logs-differ", f"subscriber {k}: shared operator object {L.show(shared['logs'][k])} != fresh operator per source {L.show(fresh['logs'][k])}")
    elif fresh["subscriptions"] != shared["subscriptions"]:
        k = next(k for k in fresh["subscriptions"] if fresh["subscriptions"].get(k) != shared["subscriptions"].get(k))
        problem = ("source-subscriptions-differ", f"source {k}: shared {shared['subscriptions'].get(k)} != fresh {fresh['subscriptions'].get(k)}")
    elif fresh["escaped"] != shared["escaped"]:
        problem = ("escaped-exceptions-differ", f"shared {shared['escaped']} != fresh {fresh['escaped']}")
    napps = len(sp)
    nontrivial = all(any(v[0] for k, v in fresh["logs"].items() if k.startswith(f"app{a}.")) for a in range(napps)) and all(
        f"main{a}" in fresh["subscriptions"] for a in range(napps)
    )
    return script, fresh, shared, problem, nontrivial


def shard(part: core.Part, shard_i, nshards, tier, seed, deadline):
    for (eid, cfg, kind, sp, il) in core.shard_iter(all_cases(tier, seed), shard_i, nshards):
        if part.evals % 64 == 0 and time.time() > deadline:
            part.complete = False
            return
        script, fresh, shared, problem, nontrivial = judge(eid, cfg, kind, sp, il, seed)
        part.case((eid, cfg, kind, sp, il), nontrivial, outcome=repr((fresh["logs"], fresh["subscriptions"])),
                  sample={"instance": eid, "config": cfg, "kind": kind, "script": [f"app{a}:{e}" for a, e in script], "fresh_logs": L.show(fresh["logs"], 600)})
        part.count(f"apps{len(sp)}")
        if problem is None:
            continue
        if problem[0] == "harness":
            part.count("budget_hits")
            continue
        case = {"instance": eid, "config": cfg, "kind": kind, "scripts": list(sp), "interleaving": list(il), "seed": seed}
        part.violation(f"{eid}|shared-operator-object|{problem[0]}",
                       f"{eid} [{kind}, {cfg}] script {' '.join(f'app{a}:{e}' for a, e in script)}: {problem[1]}", case)


def run(ctx: core.Ctx):
    cov, unc = covered_factories()
    ctx.bounds = {
        "instances": len(usable()),
        "applications": [2] if ctx.tier == "quick" else [2, 3],
        "interleavings": {"2 apps": len(ilv(2)), **({"3 apps": len(ilv(3))} if ctx.tier == "thorough" else {})},
        "script_menu": {"plain": PLAIN, "connectable": CONN},
        "timeline_configs": ["c1"] if ctx.tier == "quick" else ["c1", "c2"],
        "source_kinds": ["cold", "hot"],
    }
    ctx.assumptions = [
        "VirtualTimeScheduler queue discipline (checked separately by C28/C29)",
        "extra sources created by the instance's arguments are shared when the operator object is shared (caller's argument sharing); they are "
        "re-subscribable harness sources, so both runs must still agree",
        "multicast(subject=s) with a caller-supplied subject is excluded by the statement",
    ]
    ctx.cov["operator_factories_covered"] = cov
    ctx.cov["operator_factories_not_covered"] = unc
    ctx.cov["skipped_stateful_catalogue_entries"] = sorted(L.STATEFUL)
    ctx.sharded(shard)


def replay(case):
    sp, il = tuple(case["scripts"]), tuple(case["interleaving"])
    script, fresh, shared, problem, _ = judge(case["instance"], case["config"], case["kind"], sp, il, case.get("seed", 0))
    print("script:", " ".join(f"app{a}:{e}@{T0 + SLOT * i:g}" for i, (a, e) in enumerate(script)))
    print("fresh operator per source:", L.show(fresh, 3000))
    print("shared operator object   :", L.show(shared, 3000))
    if problem is None or problem[0] == "harness":
        return []
    return [{"signature": f"{case['instance']}|shared-operator-object|{problem[0]}", "what": problem[1], "detail": None}]
