"""C02 Termination releases every source subscription (E1, bounded-exhaustive pipelines).

Enumerated completely per phase (vf/pipegen.py): every pipeline of the phase x {cold, hot}
source x every conforming timeline of catalogue.TLS x inner policy.  No faults, no rogue
sources, no external dispose (apart from the horizon).

Oracle.  Only runs in which the outer subscriber received a terminal notification are judged.
T  = virtual instant of that terminal.
T' = the later of T and the instant at which the last *inner recorder* (a subscriber of a
     window/group handed to the outer subscriber) terminated or was unsubscribed.
Every subscription opened on any harness source (main, extra, inner, trigger, sampler,
duration, closing...: env.sublog) must be closed no later than the instant T' (R4: same virtual
instant counts as released — ScheduledDisposable/observe_on land later in the instant), and
none may be opened after T'.

Decision for inner policy 'none' (windows/groups handed out but never subscribed).  The
statement's proviso "every group or window observable handed to it has terminated or been
unsubscribed" exists because a live window *subscriber* legitimately shares the source
subscription (C03 spells the same exception out as "subscriptions still shared with a live
group or window subscriber").  A window nobody subscribed to has no subscriber that could share
anything, so it does not postpone T': with policy 'none' T' = T.  The policy is only enumerated
for pipelines whose *last* stage produces the windows, so the outer terminal is the window
operator's own terminal (source ended, boundary/duration source failed, ...), never an early
cut by a downstream take — i.e. we never demand release while the operator still owes elements
to a window.  (If a tree ever kept a source open for a never-subscribed, still-open window
after its own terminal the report would show it under the class 'outlives-terminal' with
policy 'none' in the case descriptor, to be judged there.)

Multicast entries (share, publish+ref_count, replay+ref_count, ...): the single subscriber is
the last one, so its termination must disconnect the shared connection; nothing special.
"""
from __future__ import annotations

from .. import core, pipegen as pg, vt

PROPERTY = "C02"
LEVEL = "exploration"
META = {
    "engine": "vtx",
    "technique": "bounded-exhaustive enumeration of operator pipelines (depth<=3 over the operator catalogue) x source kinds x structural "
    "timelines x inner-subscription policies on virtual time; subscription-interval oracle on logged sources",
    "text": "every enumerated pipeline is run on real operators over logged cold/hot sources; whenever the subscriber gets a terminal, every "
    "subscription opened on any source must be closed by the instant of that terminal (or of the last live window/group subscriber's end) "
    "and none opened afterwards; exhaustive within the phases listed in coverage.phases_completed",
    "note": "trusted: CPython, the harness in /verif/vf (logged sources, recorder, catalogue), VirtualTimeScheduler's queue discipline (C28/C29)",
}
RULE = (
    "base cases = pipelines of the phase (d1: each of the catalogue's entries; d2core: core x core; d2: all x core both orders; d3: core^3) x "
    "{cold,hot} x 11 conforming structural timelines x inner policy {sub,sub1,none} when the last stage hands out windows/groups; one run each. "
    "non-trivial = the outer subscriber received a terminal while >=1 source subscription was still open (so the release is caused by the "
    "termination); distinct = (pipeline, source kind, timeline, policy)"
)
BUDGET = {"quick": 150.0, "thorough": 900.0}

# depth-3 pipelines run over all conforming timelines too (one run per base case is cheap)
D3_TLS = None


def ends_of_inner(R):
    """[(step, time)] at which each inner recorder stopped being a live subscriber."""
    out = []
    for r in R.inner:
        if r is None:
            continue
        cands = []
        t = r.terminal()
        if t is not None:
            cands.append((t[0], t[1]))
        if r.disposed_step is not None:
            cands.append((r.disposed_step, r.disposed_time))
        out.append(min(cands) if cands else None)
    return out


def judge(base, R):
    """-> (problems [(class, culprit-name, text)], judged, nontrivial, outcome)"""
    st = base[0]
    if R.status != "ok":
        return [], False, False, ("budget",)
    term = R.rec.terminal()
    if term is None:
        return [], False, False, ("no-terminal", R.rec.kinds())
    T = term[1]
    ends = ends_of_inner(R)
    T2 = max([T] + [e[1] for e in ends if e is not None])
    problems = []
    for s in R.env.sublog:
        if s["unsub_time"] is None:
            problems.append(("never-released", s["source"], f"subscription to {s['source']} opened at t={s['sub_time']:g} is never disposed (outer terminal {term[2]} at t={T:g}, T'={T2:g})"))
        elif s["unsub_time"] > T2:
            problems.append(("outlives-terminal", s["source"], f"subscription to {s['source']} opened at t={s['sub_time']:g} is disposed at t={s['unsub_time']:g}, after T'={T2:g} (outer terminal {term[2]} at t={T:g})"))
        elif s["sub_time"] > T2:
            problems.append(("opened-after-terminal", s["source"], f"subscription to {s['source']} opened at t={s['sub_time']:g}, after T'={T2:g} (outer terminal {term[2]} at t={T:g})"))
    nontrivial = any(s["unsub_step"] is None or s["unsub_step"] > term[0] for s in R.env.sublog)
    outcome = (R.rec.kinds(), term[2], T2 - T, len(R.env.sublog), sum(1 for r in R.inner if r is not None), tuple(sorted(p[0] for p in problems)))
    return problems, True, nontrivial, outcome


def signature(base, problem):
    return f"{pg.culprit(base[0], problem[1])}|{problem[0]}|{pg.unstaged(problem[1])}"


def tl_by_depth(tier):
    return {3: D3_TLS} if D3_TLS else None


def shard(part: core.Part, shard_i, nshards, tier, seed, deadline, phase):
    clock = pg.Clock(deadline)
    for base in core.shard_iter(pg.base_cases(phase, tl_names_by_depth=tl_by_depth(tier)), shard_i, nshards):
        if clock.expired():
            part.complete = False
            return
        R = pg.run(base, seed)
        problems, judged, nontrivial, outcome = judge(base, R)
        part.case(base, nontrivial, outcome=outcome, sample={"case": pg.descriptor(base, seed), "outer": R.rec.kinds(), "subscriptions": [(s["source"], s["sub_time"], s["unsub_time"]) for s in R.env.sublog]} if nontrivial else None)
        part.count("judged" if judged else "not_judged:" + str(outcome[0]))
        if R.drain == "budget":
            part.count("runs_with_endless_activity_after_horizon")
        for p in problems[:1]:
            part.violation(signature(base, p), f"{pg.pname(base[0])} over {base[1]} {base[2]} (inner policy {base[3]}): {p[2]}", pg.descriptor(base, seed), problems=[x[2] for x in problems])
        # the subscriber's own terminal callback raises (no on_error handler given, or a throwing handler): the terminal
        # notification was received all the same, so every source subscription must still be released
        term = R.rec.terminal()
        if term is not None and judged:
            dev = {"rec_fault": (term[2], 1)}
            R2 = pg.run(base, seed, **dev)
            problems2, judged2, nontrivial2, outcome2 = judge(base, R2)
            part.case((base, "terminal-callback-raises"), nontrivial2 and bool(R2.env.injected), outcome=("raise-in-terminal",) + tuple(outcome2))
            part.count("judged_with_raising_terminal_callback" if judged2 else "not_judged_raising:" + str(outcome2[0]))
            for p in problems2[:1]:
                part.violation(signature(base, p) + "|subscriber-terminal-callback-raises", f"{pg.pname(base[0])} over {base[1]} {base[2]} (inner policy {base[3]}), the subscriber's own {('on_error' if term[2] == 'E' else 'on_completed')} raises: {p[2]}",
                               pg.descriptor(base, seed, **dev), problems=[x[2] for x in problems2])


def run(ctx: core.Ctx):
    phases = pg.QUICK if ctx.tier == "quick" else pg.THOROUGH
    use, skipped = pg.entries()
    ctx.bounds = {"phases": list(phases), "catalogue_entries": len(use), "core_entries": sum(1 for e in use if "core" in e.flags),
                  "sources": ["cold", "hot"], "timelines": "catalogue.TLS conforming (11) at every depth",
                  "inner_policies": list(pg.POLICIES), "skipped_entries": skipped}
    ctx.assumptions = ["VirtualTimeScheduler queue discipline (checked separately by C28/C29)", "harness sources log every subscribe/dispose faithfully",
                       "a window/group that was never subscribed does not postpone the release instant (see module docstring)"]
    pg.run_phases(ctx, shard, phases)


def replay(case):
    base, seed, dev = pg.from_descriptor(case)
    R = pg.run(base, seed, **dev)
    print("observed:", pg.show_run(R))
    problems, judged, _, _ = judge(base, R)
    return [{"signature": signature(base, p), "what": p[2], "detail": [x[2] for x in problems]} for p in problems[:1]]
