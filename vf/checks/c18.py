"""C18 Windows and buffers partition the source correctly (E1, bounded-exhaustive).

Enumerated completely per tier: every window rule instance of the parameter tables below x
every source timeline of the tier (elements with pairwise distinct values on every subset of
the slots 10..10*M, optional two-element burst, terminal completed/error one slot later, in
the instant of the last element, late, or never).  For each case

  window form:  the real `window_X` runs on virtual time, a recorder is subscribed to every
                window inside the emission step; the observation (open instant, elements with
                instants, end instant, end kind per window) must be a member of the set
                admitted by the rule's reference model under R3 (all orders of simultaneous
                events of different origin);
  buffer form:  the real `buffer_X` runs on the same input; its lists must equal the element
                lists of the windows of the `window_X` run that completed, in completion order
                (count-based buffers without the empty ones), and it must terminate like them.
"""
from __future__ import annotations

import datetime
import time

from .. import core, vt, window_ilv
from .. import c1819_lib as L

PROPERTY = "C18"
LEVEL = "exploration"
META = {
    "engine": "vtx",
    "technique": "bounded-exhaustive enumeration of (window rule, parameters, source timeline) on virtual time; every emitted window "
    "is subscribed in its emission step; observation judged by membership in the set produced by a nondeterministic reference "
    "simulator of the rule (all orders of same-instant events of different origin), buffers judged differentially against windows; plus stateless exhaustive exploration of thread interleavings (bounded preemptions) of "
    "window/buffer(boundaries) and window_when/buffer_when with the boundaries on another thread than the source (partition oracle)",
    "text": "for window/buffer with count (all count/skip pairs incl. skip<count, skip>count, skip omitted), time (overlapping, adjacent, "
    "gapped spans/shifts), time-or-count, boundary observable, closing selector and toggle: every source timeline of the tier is "
    "executed on the real operators; each window's open instant, elements (with arrival instants), end instant and end kind "
    "are compared with the rule; buffer_X output is compared with the windows of window_X on the same input; exhaustive within the bound",
    "note": "trusted: CPython, the harness in /verif/vf (vt.py, c1819_lib.py), the reference models, VirtualTimeScheduler's queue "
    "discipline (checked by C28/C29). Not covered: boundary/openings observables that terminate with an error, closing observables "
    "that fire synchronously at subscription, windows that are never subscribed or subscribed late.",
}
META["text"] += "; thread part: window/buffer(boundaries) and window_when/buffer_when with the boundaries on another thread than the source: the windows partition the source"
RULE = (
    "all (rule, parameters, timeline, form) with rule in {count,time,time-or-count,boundary,when,toggle}, parameters from the tier's "
    "tables, timeline = distinct-valued elements on every subset (size<=N) of slots 10..10*M (+ burst variants) x terminal "
    "{C,E at +10 / same instant, C at +25 (thorough), never}, form in {window, buffer}; non-trivial = the source emitted >=1 element and "
    "(>=2 windows were emitted or a window was closed by its rule before the source's terminal), buffer form: >=2 lists of which >=1 "
    "non-empty; distinct = (rule, parameters, timeline, form)"
)
BUDGET = {"quick": 300.0, "thorough": 2400.0}


# ------------------------------------------------------------------ reference models

class TimeModel(L.Model):
    """window k opens at k*shift after subscription and closes span later."""

    def __init__(self, span, shift):
        self.span, self.shift = span, shift

    def init(self, st, t0):
        st.x["t0"], st.x["k"] = t0, 1
        st.open(t0)

    def timers(self, st):
        out = [(st.w[j][0] + self.span, ("close", j)) for j in st.live]
        out.append((st.x["t0"] + st.x["k"] * self.shift, ("open", st.x["k"])))
        return out

    def on_timer(self, st, tid, t):
        if tid[0] == "close":
            st.close(tid[1], t, "C")
        else:
            st.open(t)
            st.x["k"] += 1


class TocModel(L.Model):
    """one window at a time; it closes when it holds `count` elements or is `span` old, and
    the next one opens in that instant."""

    def __init__(self, span, count):
        self.span, self.count = span, count

    def init(self, st, t0):
        st.x["cur"], st.x["n"] = st.open(t0), 0

    def timers(self, st):
        j = st.x["cur"]
        return [(st.w[j][0] + self.span, ("close", j))]

    def _roll(self, st, t):
        st.close(st.x["cur"], t, "C")
        st.x["cur"], st.x["n"] = st.open(t), 0

    def on_timer(self, st, tid, t):
        self._roll(st, t)

    def on_next(self, st, t, v):
        super().on_next(st, t, v)
        st.x["n"] += 1
        if st.x["n"] == self.count:
            self._roll(st, t)


class BoundaryModel(L.Model):
    """one window at a time; every boundary element closes it and opens the next."""

    def __init__(self, bnd_abs):
        self.ext = {"bnd": bnd_abs}

    def init(self, st, t0):
        st.x["cur"] = st.open(t0)

    def on_ext(self, st, name, t, kind, v):
        if kind == "N":
            st.close(st.x["cur"], t, "C")
            st.x["cur"] = st.open(t)


class WhenModel(L.Model):
    """one window at a time; window i closes durs[i] after it opened (first notification of the
    closing observable obtained for it), the next opens in that instant."""

    def __init__(self, durs):
        self.durs = durs

    def init(self, st, t0):
        st.x["cur"] = st.open(t0)

    def timers(self, st):
        j = st.x["cur"]
        d = self.durs[j % len(self.durs)]
        return [] if d is None else [(st.w[j][0] + d, ("close", j))]

    def on_timer(self, st, tid, t):
        st.close(st.x["cur"], t, "C")
        st.x["cur"] = st.open(t)


class ToggleModel(L.Model):
    """every opening element opens a window that closes when its closing observable fires.
    ignore_completion=True is the *deviant* variant used only to name a known defect: the
    source's completion neither ends open windows nor stops new ones."""

    def __init__(self, opn_abs, ignore_completion=False):
        self.ext = {"opn": opn_abs}
        self.ignore_completion = ignore_completion

    def on_ext(self, st, name, t, kind, v):
        if kind == "N":
            j = st.open(t)
            if v == "sync":  # the closing observable terminates inside subscribe(): a zero-length window
                st.x[("due", j)] = None
                st.close(j, t, "C")
                return
            st.x[("due", j)] = None if v is None else t + v

    def timers(self, st):
        return [(st.x[("due", j)], ("close", j)) for j in st.live if st.x[("due", j)] is not None]

    def on_timer(self, st, tid, t):
        st.close(tid[1], t, "C")

    def on_term(self, st, t, kind):
        if kind == "C" and self.ignore_completion:
            return
        super().on_term(st, t, kind)


def count_problem(count, skip, elems, term, observed, t0, horizon):
    """Direct oracle of the statement: window k holds exactly elements k*skip .. k*skip+count-1.
    It opens after element k*skip-1 (at subscription for k=0) and not later than element k*skip,
    closes in the instant of element k*skip+count-1, otherwise ends with the source's terminal.
    The window with k*skip == n (opened, still empty when the source ends) may or may not exist."""
    n = len(elems)
    kreq = -(-n // skip)  # windows with k*skip < n
    kmax = kreq + (1 if kreq * skip == n else 0)
    if len(observed) < kreq:
        return "missing-window", f"{len(observed)} windows, the rule needs {kreq}"
    if len(observed) > kmax:
        return "extra-window", f"{len(observed)} windows, the rule allows at most {kmax}"
    for k, (o, _key, el, c, kd) in enumerate(observed):
        lo = t0 if k == 0 else elems[k * skip - 1][0]
        allowed = {lo}
        if k * skip < n:
            allowed.add(elems[k * skip][0])
        if o not in allowed:
            return "open-instant", f"window {k} opened at {o:g}, allowed {sorted(allowed)}"
        want = tuple(elems[k * skip:k * skip + count])
        if el != want:
            return "contents", f"window {k} holds {el}, the rule says {want}"
        last = k * skip + count - 1
        if last < n:
            wc, wk = elems[last][0], "C"
        elif term is not None:
            wc, wk = term
        else:
            wc, wk = None, None
        if kd != wk:
            return "terminal-kind", f"window {k} ended with {kd} at {c}, expected {wk} at {wc}"
        if c != wc:
            return "close-instant", f"window {k} ended at {c}, expected {wc}"
    return None


# ------------------------------------------------------------------ building the real operator

def op_name(rule, form):
    base = {"count": "with_count", "time": "with_time", "toc": "with_time_or_count", "boundary": "", "when": "when", "toggle": "toggle"}[rule]
    return form + ("_" + base if base else "")


def shape(rule, p):
    if rule == "count":
        s = p["skip"] if p["skip"] is not None else p["count"]
        return "skip-omitted" if p["skip"] is None else ("skip<count" if s < p["count"] else "skip=count" if s == p["count"] else "skip>count")
    if rule == "time":
        s = p["shift"] if p["shift"] is not None else p["span"]
        return "shift-omitted" if p["shift"] is None else ("shift<span" if s < p["span"] else "shift=span" if s == p["span"] else "shift>span")
    return "-"


def make(rule, p, form):
    """-> make(env, src) building a *fresh* operator object inside the execution."""
    from reactivex import operators as ops

    def conv(x):
        return datetime.timedelta(seconds=x) if (p.get("td") and x is not None) else x

    def build(env, src):
        sched = env.sched
        opsched = sched if p.get("cfg", "op") == "op" else None  # R6: 'sub' = scheduler reaches the operator through subscribe only
        if rule == "count":
            f = ops.window_with_count if form == "window" else ops.buffer_with_count
            op = f(p["count"]) if p["skip"] is None else f(p["count"], p["skip"])
        elif rule == "time":
            f = ops.window_with_time if form == "window" else ops.buffer_with_time
            op = f(conv(p["span"]), conv(p["shift"]), scheduler=opsched)
        elif rule == "toc":
            f = ops.window_with_time_or_count if form == "window" else ops.buffer_with_time_or_count
            op = f(conv(p["span"]), p["count"], scheduler=opsched)
        elif rule == "boundary":
            f = ops.window if form == "window" else ops.buffer
            op = f(env.cold("bnd", [(t, "N", i) for i, t in enumerate(p["bnd"])] + ([(p["bnd_c"], "C", None)] if p.get("bnd_c") else [])))
        elif rule == "when":
            f = ops.window_when if form == "window" else ops.buffer_when
            calls = [0]

            def closing():
                i = calls[0]
                calls[0] += 1
                d = p["durs"][i % len(p["durs"])]
                return env.cold("close%d" % i, [] if d is None else [(d, p["ck"], 0 if p["ck"] == "N" else None)])

            op = f(closing)
        elif rule == "toggle":
            f = ops.window_toggle if form == "window" else ops.buffer_toggle
            tl = [(t, "N", i) for i, (t, _d) in enumerate(p["opn"])]
            if p.get("opn_c"):
                tl.append((p["opn_c"], "C", None))
            openings = env.cold("opn", tl)

            def closing_for(i):
                d = p["opn"][i][1]
                return env.cold("close%d" % i, [] if d is None else [(None if d == "sync" else d, p["ck"], 0 if p["ck"] == "N" else None)])

            op = f(openings, closing_for)
        else:
            raise ValueError(rule)
        return src.pipe(op)

    return build


def model_for(rule, p, t0, **kw):
    if rule == "time":
        return TimeModel(p["span"], p["shift"] if p["shift"] is not None else p["span"])
    if rule == "toc":
        return TocModel(p["span"], p["count"])
    if rule == "boundary":
        return BoundaryModel([(t0 + t, "N", i) for i, t in enumerate(p["bnd"])])
    if rule == "when":
        return WhenModel(p["durs"])
    if rule == "toggle":
        return ToggleModel([(t0 + t, "N", d) for (t, d) in p["opn"]], **kw)
    raise ValueError(rule)


# ------------------------------------------------------------------ judging

def horizon_for(tl):
    last = max([t for (t, _k, _v) in tl] + [0])
    return L.SUB + last + 67  # never coincides with a slot or a timer (all multiples of 5)


def run_window(rule, p, tl):
    H = horizon_for(tl)
    env, src, out, inner, status = L.observe_nested(make(rule, p, "window"), tl, H)
    return env, src, out, inner, status, H


def generic_problems(env, src, out, inner, status):
    probs = []
    if status != "ok":
        probs.append(("no-termination", "run exceeded the action budget"))
    for r in [out] + [x[3] for x in inner]:
        g = r.grammar_violation()
        if g:
            probs.append(("grammar", g))
            break
    if env.sched.escaped:
        probs.append(("exception-escaped", f"exception escaped into the scheduler: {env.sched.escaped[0][1]!r}"))
    return probs


def judge_window(rule, p, tl):
    """-> (problems [(label, text)], observed segments, nontrivial, tie)"""
    env, src, out, inner, status, H = run_window(rule, p, tl)
    observed = L.segments(inner)
    probs = generic_problems(env, src, out, inner, status)
    t0 = L.SUB
    src_ev = L.abs_events(tl, t0)
    elems = [(L.rt(t), L.nv(v)) for (t, k, v) in src_ev if k == "N"]
    term = next(((L.rt(t), k) for (t, k, v) in src_ev if k in "CE"), None)
    tie = False
    if rule == "count":
        skip = p["skip"] if p["skip"] is not None else p["count"]
        cp = count_problem(p["count"], skip, elems, term, observed, L.rt(t0), H)
        if cp:
            probs.append((cp[0], f"observed {L.show_segs(observed)}: {cp[0]}: {cp[1]}"))
    else:
        model = model_for(rule, p, t0)
        judged = observed
        if rule == "toggle" and term is not None:
            # the statement does not say whether openings that arrive after the source's
            # terminal may still open (necessarily empty) windows: such windows are not judged
            tstep = next((d[0] for d in src.deliveries if d[2] in "CE"), None)
            if tstep is not None:
                judged = [s for s, x in zip(observed, inner) if x[1] < tstep]
        ok = L.admissible(model, src_ev, judged, t0, H)
        tie = L.has_tie(model, src_ev, t0, H)
        if not ok:
            exp = L.canonical(model, src_ev, t0, H)
            label = L.classify(exp, judged)
            if rule == "toggle" and term is not None and term[1] == "C":
                dev = model_for(rule, p, t0, ignore_completion=True)
                if L.admissible(dev, src_ev, observed, t0, H):
                    label = "open-windows-not-ended-by-source-completion"
            probs.append((label, f"observed {L.show_segs(judged)}; not admitted by the rule ({label}), e.g. {L.show_segs(exp)}"))
    closed_by_rule = any(s[3] is not None and (term is None or s[3] < term[0]) for s in observed)
    nontrivial = bool(elems) and (len(observed) >= 2 or closed_by_rule)
    return probs, observed, nontrivial, tie, (out, inner)


def expected_buffers(rule, out, inner):
    """What buffer_X must emit given the window_X run: the element lists of the windows that
    completed, in completion order (count rule: without empty lists); error at the first error;
    completion when the window sequence and all windows completed."""
    segs = L.segments(inner)
    steps = L.close_steps(inner)
    done = sorted((st, s) for st, s in zip(steps, segs) if s[4] == "C")
    ev = []
    for (_st, s) in done:
        vals = tuple(v for (_t, v) in s[2])
        if rule == "count" and not vals:
            continue
        ev.append((s[3], "N", ("list", vals)))
    oterm = out.terminal()
    errs = [s[3] for s in segs if s[4] == "E"] + ([L.rt(oterm[1])] if oterm and oterm[2] == "E" else [])
    if errs:
        t = min(errs)
        ev = [e for e in ev if e[0] <= t]
        ev.append((t, "E", None))
    elif oterm and oterm[2] == "C" and all(s[4] == "C" for s in segs):
        ev.append((max([L.rt(oterm[1])] + [s[3] for s in segs]), "C", None))
    return ev


def judge_buffer(rule, p, tl, win=None):
    if win is None:
        env, src, out, inner, status, H = run_window(rule, p, tl)
        win = (out, inner)
    H = horizon_for(tl)
    exp = expected_buffers(rule, *win)
    env = vt.Env(budget=8000)
    src = env.cold("src", tl)
    rec = env.recorder("out")
    env.subscribe_at(L.SUB, lambda: make(rule, p, "buffer")(env, src), rec)
    status = env.run(H)
    act = [(L.rt(t), k, (L.nv(v) if k == "N" else None)) for (t, k, v) in rec.events()]
    probs = []
    if status != "ok":
        probs.append(("no-termination", "run exceeded the action budget"))
    g = rec.grammar_violation()
    if g:
        probs.append(("grammar", g))
    if env.sched.escaped:
        probs.append(("exception-escaped", f"exception escaped into the scheduler: {env.sched.escaped[0][1]!r}"))
    bad_type = [v for (t, k, v) in rec.events() if k == "N" and not isinstance(v, list)]
    if bad_type:
        probs.append(("not-a-list", f"buffer emitted {bad_type[0]!r}"))
    if act != exp:
        probs.append(("differs-from-windows", f"buffers {show_buf(act)} but the windows of the window form give {show_buf(exp)}"))
    nontrivial = sum(1 for e in exp if e[1] == "N" and e[2][1]) >= 1 and sum(1 for e in exp if e[1] == "N") >= 2
    return probs, act, nontrivial


def show_buf(ev):
    def one(e):
        t, k, v = e
        if k == "N":
            return f"{t:g}:[{','.join(L._sv(i) for i in v[1])}]" if isinstance(v, tuple) and v[0] == "list" else f"{t:g}:{v!r}"
        return f"{t:g}:{'|' if k == 'C' else '#'}"

    return "[" + " ".join(one(e) for e in ev) + "]"


# ------------------------------------------------------------------ enumeration

def bounds(tier):
    if tier == "quick":
        return {"M": 4, "N": 4, "count_max": 3}
    return {"M": 6, "N": 6, "count_max": 4}


def param_sets(tier):
    q = tier == "quick"
    cm = bounds(tier)["count_max"]
    for c in range(1, cm + 1):
        for s in [None] + list(range(1, cm + 1)):
            yield "count", {"count": c, "skip": s}
    # time: overlapping (shift<span), adjacent (=, omitted), gapped (shift>span); 20/10/30 tie with the slots, 15/25 do not
    spans = (15, 20) if q else (15, 20, 25, 30)
    shifts = (None, 10, 25) if q else (None, 10, 15, 20, 25, 40)
    for sp in spans:
        for sh in shifts:
            yield "time", {"span": sp, "shift": sh}
    yield "time", {"span": 20, "shift": 10, "cfg": "sub"}
    if not q:
        yield "time", {"span": 15, "shift": 25, "cfg": "sub"}
        yield "time", {"span": 20, "shift": None, "td": True}
        yield "time", {"span": 25, "shift": 10, "td": True}
    for sp in ((15, 20) if q else (15, 20, 25, 30)):
        for c in range(1, cm + 1):
            yield "toc", {"span": sp, "count": c}
    yield "toc", {"span": 20, "count": 2, "cfg": "sub"}
    if not q:
        yield "toc", {"span": 25, "count": 2, "td": True}
    # boundary timelines (relative instants; 20/30/40 tie with the slots; a doubled instant = empty window)
    if q:
        bnds = [[], [15], [20], [15, 35], [20, 40], [5, 20, 20], [25, 30, 45]]
    else:
        pts = (5, 15, 20, 30, 35, 50)
        bnds = [[]]
        for a in range(len(pts)):
            bnds.append([pts[a]])
            for b in range(a, len(pts)):
                bnds.append([pts[a], pts[b]])
                for c in range(b + 1, len(pts)):
                    bnds.append([pts[a], pts[b], pts[c]])
    for b in bnds:
        yield "boundary", {"bnd": b}
    # closing selector: duration of the i-th closing observable (cycled); closing fires by an element (N) or by completing (C)
    whens = [((15,), "N"), ((20,), "N"), ((25, 10), "C"), ((10, 20), "N"), ((None,), "N")] if q else [
        ((d,), k) for d in (10, 15, 20, 25, 35) for k in "NC"
    ] + [((25, 10), "C"), ((10, 20), "N"), ((15, 5, 20), "N"), ((5, None), "C"), ((None,), "N"), ((20, 20, 15), "C")]
    for durs, ck in whens:
        yield "when", {"durs": list(durs), "ck": ck}
    # toggle: openings (relative instant, duration of its closing | None = never closes)
    if q:
        togs = [[(5, 15)], [(10, 20)], [(5, 25), (15, 10)], [(5, None)], [(10, 10), (20, 10)], [(15, 30), (15, 5)], [(5, 10), (25, None)],
                [(5, "sync")], [(5, "sync"), (15, 10)], [(10, 20), (20, "sync")]]
    else:
        togs = [[]]
        for t1 in (5, 10, 25):
            for d1 in (10, 15, 25, None):
                togs.append([(t1, d1)])
                for t2 in (t1, t1 + 10, t1 + 15):
                    for d2 in (5, 10, 20, None):
                        togs.append([(t1, d1), (t2, d2)])
        togs.append([(5, 10), (15, 10), (25, 10)])
        togs.append([(10, 30), (20, 10), (30, 10)])
        for t1 in (5, 10, 25):
            togs.append([(t1, "sync")])
            for d2 in (10, None, "sync"):
                togs.append([(t1, "sync"), (t1 + 10, d2)])
                togs.append([(t1, 20), (t1 + 10, "sync")] if d2 == 10 else [(t1, d2), (t1, "sync")])
    for i, o in enumerate(togs):
        yield "toggle", {"opn": [list(x) for x in o], "ck": "NC"[i % 2]}
    if not q:
        yield "toggle", {"opn": [[5, 15], [15, 25]], "ck": "N", "opn_c": 20}
        yield "toggle", {"opn": [[10, 20]], "ck": "C", "opn_c": 15}


def values_for(seed, n):
    k = seed % 3
    if k == 0:
        return [i for i in range(n)]  # includes the falsy 0
    if k == 1:
        return ["v%d" % i for i in range(n)]
    return [100 + 7 * seed + i for i in range(n)]


def timelines(tier, seed):
    b = bounds(tier)
    M, N = b["M"], b["N"]
    q = tier == "quick"
    slots = [10 * (i + 1) for i in range(M)]
    for mask in range(2 ** M):
        ts = [slots[i] for i in range(M) if (mask >> i) & 1]
        if len(ts) > N:
            continue
        variants = [ts]
        if ts:
            variants.append([ts[0]] + ts)  # two elements in the first occupied instant
        if not q and len(ts) >= 2:
            variants.append(ts + [ts[-1]])  # two elements in the last occupied instant
        for times in variants:
            vals = values_for(seed, len(times))
            tl = [(times[i], "N", vals[i]) for i in range(len(times))]
            last = times[-1] if times else 0
            yield tl  # the source never terminates (windows follow their rule until the horizon)
            for term in "CE":
                tv = "E" if term == "E" else None
                yield tl + [(last + 10, term, tv)]
                if times:
                    yield tl + [(last, term, tv)]
                if not q and term == "C":
                    yield tl + [(last + 25, term, tv)]  # late completion: trailing empty windows


def all_cases(tier, seed):
    tls = list(timelines(tier, seed))
    for rule, p in param_sets(tier):
        for tl in tls:
            yield rule, p, tl


# first-difference labels depend on the timeline, not on the defect: they stay in the text of the
# violation, the signature only says that the window structure is not the rule's
COLLAPSE = {"missing-window", "extra-window", "open-instant", "contents", "close-instant", "terminal-kind", "order", "key"}


def signature(rule, p, form, label):
    if label in COLLAPSE:
        label = "windows-differ-from-rule"
    return f"{op_name(rule, form)}|{shape(rule, p)}|{label}"


def shard(part: core.Part, shard_i, nshards, tier, seed, deadline):
    n = 0
    for (rule, p, tl) in core.shard_iter(all_cases(tier, seed), shard_i, nshards):
        n += 1
        if n % 64 == 0 and time.time() > deadline:
            part.complete = False
            return
        case = {"rule": rule, "params": p, "timeline": tl, "tier": tier, "seed": seed}
        probs, observed, nontrivial, tie, win = judge_window(rule, p, tl)
        desc = f"{op_name(rule, 'window')}{p}"
        part.case((rule, repr(p), repr(tl), "w"), nontrivial, outcome=(rule, L.show_segs(observed)),
                  sample={"operator": op_name(rule, "window"), "params": p, "timeline": tl, "windows": L.show_segs(observed)})
        part.count("rule:" + rule)
        if tie:
            part.count("cases_with_same_instant_tie")
        for (label, text) in probs:
            part.violation(signature(rule, p, "window", label), f"{desc} on {tl}: {text}", dict(case, form="window"), problems=probs)
        bprobs, act, bnt = judge_buffer(rule, p, tl, win)
        part.case((rule, repr(p), repr(tl), "b"), bnt, outcome=(rule, "b", show_buf(act)))
        for (label, text) in bprobs:
            part.violation(signature(rule, p, "buffer", label), f"{op_name(rule, 'buffer')}{p} on {tl}: {text}", dict(case, form="buffer"), problems=bprobs)


def run(ctx: core.Ctx):
    b = bounds(ctx.tier)
    ps = list(param_sets(ctx.tier))
    ctx.bounds = dict(b, parameter_sets=len(ps), timelines=len(list(timelines(ctx.tier, ctx.seed))),
                      per_rule={r: sum(1 for x in ps if x[0] == r) for r in ("count", "time", "toc", "boundary", "when", "toggle")})
    ctx.assumptions = [
        "VirtualTimeScheduler queue discipline (checked separately by C28/C29)",
        "harness cold sources are conforming; every window is subscribed in its emission step",
        "R3: at an instant shared by events of different origin every order is admitted",
    ]
    window_ilv.run_part(ctx)  # E3: boundaries on another thread than the source
    part = ctx.sharded(shard)
    ctx.cov["rules_covered"] = sorted(k[5:] for k in part.counters if k.startswith("rule:"))


def replay(case):
    if isinstance(case, dict) and str(case.get("harness", "")).startswith("window-threads|"):
        return window_ilv.replay(case)
    rule, p = case["rule"], case["params"]
    tl = [tuple(x) for x in case["timeline"]]
    out = []
    if case.get("form", "window") == "window":
        probs, observed, _nt, _tie, _w = judge_window(rule, p, tl)
        print("windows observed:", L.show_segs(observed))
        form = "window"
    else:
        probs, act, _nt = judge_buffer(rule, p, tl)
        print("buffers observed:", show_buf(act))
        form = "buffer"
    for (label, text) in probs:
        out.append({"signature": signature(rule, p, form, label), "what": text, "detail": [list(x) for x in probs]})
    return out
