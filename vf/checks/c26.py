"""C26 Container disposables dispose each held item exactly once.

E2: BFS over all single-thread call histories (heap-canonical states) against the
sequential reference model.  E3: every pair/triple of short thread programs on one real
container, all interleavings up to the preemption bound with line-level scheduling points
in the container's source file; oracle = linearizability of the recorded call/return
history against the same reference model, including per-item dispose counts and the set
of items still held at quiescence.
"""
from __future__ import annotations

import itertools
import os
import time

from .. import core, dispmodel as dm, hbfs, ilv, ilvrun

PROPERTY = "C26"
LEVEL = "model_checking"
META = {
    "engine": "ilv",
    "technique": "explicit-state BFS over call histories + preemption-bounded exhaustive thread-interleaving exploration of the real containers with a linearizability oracle",
    "text": "every call history up to depth k on Composite/Serial/SingleAssignment/MultipleAssignment disposables (plain and falsy items) agrees with "
    "a sequential reference model; every interleaving (line-level scheduling points in the container's file) of 2-3 threads x 1-2 calls up to "
    "the preemption bound yields a call/return history that is linearizable w.r.t. that model with matching per-item dispose counts",
    "note": "trusted: CPython, the controlled threading primitives of vf/ilv.py; preemption only at line boundaries of the container's file and at lock operations; "
    "bounded: threads, calls per thread, preemptions as stated in the evidence",
}
RULE = (
    "E2: all histories over {add,remove(j),clear,dispose,assign,read} up to depth k per (container kind, item truthiness), de-duplicated by canonical heap; "
    "E3: all unordered tuples of thread programs (1-2 calls each) x initial state {empty, one held item} x item truthiness, each explored over all schedules "
    "with <= PB preemptions; non-trivial = execution with >=2 worker threads in which at least one context switch happened; distinct = (harness, schedule)"
)
BUDGET = {"quick": 240.0, "thorough": 2400.0}

KINDS = ("composite", "serial", "single", "multiple")
FILES = {
    "composite": "disposable/compositedisposable.py",
    "serial": "disposable/serialdisposable.py",
    "single": "disposable/singleassignmentdisposable.py",
    "multiple": "disposable/multipleassignmentdisposable.py",
}
MENU = {
    "composite": ("add", "remove", "clear", "dispose"),
    "serial": ("assign", "dispose", "read"),
    "single": ("assign", "dispose"),
    "multiple": ("assign", "dispose", "read"),
}


# ------------------------------------------------------------------ E3 harness
class ContainerHarness:
    def __init__(self, kind, falsy, pre, programs):
        self.kind, self.falsy, self.pre, self.programs = kind, falsy, pre, programs
        self.name = f"{kind}|{'falsy' if falsy else 'plain'}|pre={pre}|" + "||".join(",".join(p) for p in programs)
        self.sig = kind
        self.focus = ilv.focus_files(FILES[kind])

    def setup(self, run):
        st = {"run": run, "items": {}, "calls": []}
        st["c"] = dm.make_container(self.kind)
        model = dm.Model(self.kind)

        def item(name):
            it = dm.make_item(name, self.falsy, lambda n: run.log("item-dispose", n))
            st["items"][name] = it
            return it

        if self.pre == "one":
            p = item("p")
            dm.real_apply(st["c"], self.kind, "add" if self.kind == "composite" else "assign", p)
            model.apply("add" if self.kind == "composite" else "assign", "p")
        st["model0"] = model
        # items for every op are created in the prologue (no allocation races in the harness)
        st["plan"] = []
        for ti, prog in enumerate(self.programs):
            ops = []
            for oi, op in enumerate(prog):
                if op in ("add", "assign"):
                    nm = f"x{ti}{oi}"
                    ops.append((op, nm, item(nm)))
                elif op == "remove":
                    ops.append((op, "p", st["items"]["p"] if "p" in st["items"] else item("p")))
                else:
                    ops.append((op, None, None))
            st["plan"].append(ops)
        return st

    def bodies(self, st):
        run = st["run"]

        def mk(ti):
            def body():
                for (op, nm, it) in st["plan"][ti]:
                    rec = {"op": op, "item": nm, "call": len(run.events), "t": ti}
                    run.log("call", op, nm)
                    try:
                        rec["result"] = dm.real_apply(st["c"], self.kind, op, it)
                    except Exception as e:
                        rec["result"] = "EXC:" + type(e).__name__
                    rec["ret"] = len(run.events)
                    run.log("ret", op, nm, rec["result"])
                    st["calls"].append(rec)

            return body

        return [mk(i) for i in range(len(self.programs))]

    def outcome(self, x):
        st = x.state
        return (tuple(sorted((c["t"], c["op"], str(c["result"])) for c in st["calls"])), tuple(sorted((k, v.n) for k, v in st["items"].items())))

    def check(self, x):
        st = x.state
        if x.outcome != "quiescent":
            return []
        counts = {k: v.n for k, v in st["items"].items()}
        held = dm.real_held(st["c"], self.kind)
        probs = []
        ops = "+".join(sorted({c["op"] for c in st["calls"]}))
        tag = f"{self.kind}|{'falsy' if self.falsy else 'plain'}|{ops}"
        if any(v > 1 for v in counts.values()):
            probs.append((f"{tag}|double-dispose", f"an item was disposed more than once: counts={counts} calls={[(c['t'], c['op'], c['item'], c['result']) for c in st['calls']]}"))
        elif not dm.linearizable(st["model0"], st["calls"], counts, held):
            probs.append((f"{tag}|not-linearizable", f"no sequential order explains results/dispose counts: calls={[(c['t'], c['op'], c['item'], c['result']) for c in st['calls']]} counts={counts} held={held}"))
        return probs


def programs(kind, maxlen):
    menu = MENU[kind]
    out = []
    for n in range(1, maxlen + 1):
        out.extend(itertools.product(menu, repeat=n))
    return out


def harnesses(tier):
    hs = []
    for kind in KINDS:
        for falsy in (False, True):
            for pre in ("empty", "one"):
                # 2 threads, 1-2 calls each
                progs = programs(kind, 2)
                for a, b in itertools.combinations_with_replacement(progs, 2):
                    if len(a) + len(b) > (3 if tier == "quick" else 4):
                        continue
                    hs.append(ContainerHarness(kind, falsy, pre, (a, b)))
                if tier == "thorough":
                    one = programs(kind, 1)
                    for tr in itertools.combinations_with_replacement(one, 3):
                        hs.append(ContainerHarness(kind, falsy, pre, tr))
    return hs


def pb(tier, h):
    if tier == "quick":
        return 1
    return 2


def e3_shard(part, shard, nshards, tier, seed, deadline):
    ilv.install()
    hs = harnesses(tier)
    order = list(range(len(hs)))
    if seed:
        order = order[seed % len(order):] + order[: seed % len(order)]
    for idx, i in enumerate(order):
        if idx % nshards != shard:
            continue
        h = hs[i]
        if time.time() > deadline:
            part.complete = False
            return
        ilvrun.explore_all(part, [h], 0, 1, pb(tier, h), 0, deadline)


# ------------------------------------------------------------------ E2 histories
class World:
    pass


def e2_config(kind, falsy, depth, deadline):
    max_items = 3

    def build(h):
        w = World()
        w.c = dm.make_container(kind)
        w.m = dm.Model(kind)
        w.items = []
        w.bad = None
        for ev in h:
            op = ev[0]
            if op in ("add", "assign"):
                nm = f"i{len(w.items)}"
                it = dm.make_item(nm, falsy)
                w.items.append(it)
                got = dm.real_apply(w.c, kind, op, it)
                exp = w.m.apply(op, nm)
            elif op == "remove":
                it = w.items[ev[1]]
                got = dm.real_apply(w.c, kind, op, it)
                exp = w.m.apply(op, it.name)
            else:
                got = dm.real_apply(w.c, kind, op, None)
                exp = w.m.apply(op, None)
            if got != exp and w.bad is None:
                w.bad = f"{op} returned {got!r}, model says {exp!r}"
            for it in w.items:
                if it.name not in w.m.free and it.n != w.m.counts.get(it.name, 0) and w.bad is None:
                    w.bad = f"after {op}: item {it.name} disposed {it.n}x, model says {w.m.counts.get(it.name, 0)}x"
            if sorted(dm.real_held(w.c, kind)) != sorted(w.m.held) and w.bad is None:
                w.bad = f"after {op}: container holds {dm.real_held(w.c, kind)}, model says {w.m.held}"
        return w

    def enabled(h, w):
        for op in MENU[kind]:
            if op in ("add", "assign"):
                if len(w.items) < max_items:
                    yield (op,)
            elif op == "remove":
                for j in range(len(w.items)):
                    yield (op, j)
            else:
                yield (op,)

    return hbfs.bfs(build, enabled, lambda w, h: w.bad, lambda w: (w.c, w.items, w.m.held, w.m.disposed, sorted(w.m.counts.items())), depth, deadline,
                    outcome=lambda w: (sorted(w.m.counts.items()), w.m.held, w.m.disposed))


def e2_shard(part, shard, nshards, tier, seed, deadline):
    depth = 5 if tier == "quick" else 7
    cfgs = [(k, f) for k in KINDS for f in (False, True)]
    for i, (kind, falsy) in enumerate(cfgs):
        if i % nshards != shard:
            continue
        r = e2_config(kind, falsy, depth, deadline)
        part.count("bfs_states", r.states)
        part.count("bfs_transitions", r.transitions)
        part.counters["bfs_max_depth"] = max(part.counters.get("bfs_max_depth", 0), r.max_depth)
        part.evals += r.transitions
        for o in r.outcomes:
            part.outcomes.add(core.h64((kind, falsy, o)))
        if not r.complete:
            part.complete = False
        for s in r.samples[:1]:
            part.samples.append({"kind": kind, "falsy_items": falsy, "history": s})
        for (h, p) in r.violations:
            what = p.split(":")[0] if ":" in p else p
            ops = [e[0] for e in h]
            sig = f"seq|{kind}|{'falsy' if falsy else 'plain'}|{ops[-1]}|" + ("dispose-count" if "disposed" in p else ("holds" if "holds" in p else "result"))
            part.violation(sig, f"history {h} on {kind} ({'falsy' if falsy else 'plain'} items): {p}", {"mode": "e2", "kind": kind, "falsy": falsy, "history": h})


def run(ctx: core.Ctx):
    ctx.bounds = {
        "e2_depth": 5 if ctx.tier == "quick" else 7,
        "e3": "2 threads x (1-2 calls, total <=3) PB=1" if ctx.tier == "quick" else "2 threads x (1-2 calls, total <=4) and 3 threads x 1 call, PB=2",
    }
    ctx.assumptions = ["preemption at lock operations and at line boundaries of the container's source file only (GIL-atomic lines)", "distinct item object per add/assign call"]
    ctx.sharded(e2_shard, nshards=8)
    nh = len(harnesses(ctx.tier))
    ctx.sharded(e3_shard, nshards=min(nh, max(1, ctx.workers) * 8))
    ilvrun.finish_cov(ctx, ctx.total, ctx.total.counters.get("bfs_states", 0), ctx.total.counters.get("bfs_transitions", 0))
    ctx.cov["harnesses"] = nh


def replay(case):
    if case.get("mode") == "e2":
        h = [tuple(e) for e in case["history"]]
        w = _replay_e2(case["kind"], case["falsy"], h)
        print("observed:", w.bad)
        return [{"signature": "seq", "what": w.bad, "detail": h}] if w.bad else []
    ilv.install()
    for tier in ("quick", "thorough"):
        for h in harnesses(tier):
            if h.name == case["harness"]:
                return ilvrun.replay_harness(h, case)
    print("harness not found")
    return []


def _replay_e2(kind, falsy, h):
    box = {}

    def grab(build, enabled, check, roots, depth, deadline=None, outcome=None, max_violations=50):
        box["w"] = build(h)
        return hbfs.Result()

    real = hbfs.bfs
    hbfs.bfs = grab
    try:
        e2_config(kind, falsy, 0, None)
    finally:
        hbfs.bfs = real
    return box["w"]
