"""C05 Element-wise operators match their list semantics (E1, bounded-exhaustive).

Enumerated completely per tier: every operator instance of the table below (every
parameter of its catalogue) x every timeline of TL(N, alphabet) ending in completion
or error.  Oracle: Python list function giving (value, determining input) pairs;
values by type and ==, times by the determining input's instant.
"""
from __future__ import annotations

import itertools

from .. import core, listsem, vt

PROPERTY = "C05"
LEVEL = "exploration"
META = {
    "engine": "vtx",
    "technique": "bounded-exhaustive enumeration of (operator instance, timeline) pairs on virtual time against Python list references",
    "text": "every listed element-wise operator, every parameter of its catalogue, every timeline of length <=N over small alphabets "
    "(incl. None/0/False) ending in completion or error is executed on the real operator and compared value-by-value and "
    "instant-by-instant with a list reference; exhaustive within N",
    "note": "trusted: CPython, the harness in /verif/vf, the reference functions, VirtualTimeScheduler's queue discipline (checked by C28/C29)",
}
RULE = (
    "all (operator instance, timeline) pairs: timelines = every sequence of <=N on_next over the value alphabet at "
    "slots 210,220,.. followed by completion or error; non-trivial = the source emitted >=1 element and the reference "
    "output differs from a plain pass-through or from empty; distinct = (instance, timeline)"
)


def pe(term):
    return ("C", "T", None) if term == "C" else ("E", "T", "SRC")


# ---- parameter families (A, B are the first two alphabet values) -------------------------
def preds(A):
    return {
        "eqA": lambda x: x == A,
        "neA": lambda x: x != A,
        "T": lambda x: True,
        "F": lambda x: False,
    }


def ipreds(A):
    return {
        "i<1": lambda x, i: i < 1,
        "i!=1": lambda x, i: i != 1,
        "eqA|i=2": lambda x, i: x == A or i == 2,
        "ieven": lambda x, i: i % 2 == 0,
    }


def keys(A):
    return {"id": None, "const": lambda x: 7, "isA": lambda x: x == A}


COMPARERS = {"eq": None, "T": lambda a, b: True, "F": lambda a, b: False}


def instances(A, B, N):
    """Yield (id, build(env, src) -> observable, ref(xs, term) -> (outs, end))."""
    import reactivex
    from reactivex import operators as ops
    from reactivex.internal.exceptions import ArgumentOutOfRangeException
    from reactivex.notification import OnCompleted, OnError, OnNext

    P, IP, K = preds(A), ipreds(A), keys(A)
    counts = range(0, N + 2)

    def mk(factory, *args):
        # a fresh operator object per execution (operator re-use is C44's subject, not C05's)
        return lambda env, src: src.pipe(factory(*args))

    # map / map_indexed
    for name, f in {"inc": lambda x: (x, "m"), "const": lambda x: None, "id": lambda x: x}.items():
        yield f"map:{name}", mk(ops.map, f), (lambda xs, t, f=f: ([(f(x), i) for i, x in enumerate(xs)], pe(t)))
    yield "map_indexed:pair", mk(ops.map_indexed, lambda x, i: (x, i)), (lambda xs, t: ([((x, i), i) for i, x in enumerate(xs)], pe(t)))
    yield "map:none", mk(ops.map, ), (lambda xs, t: ([(x, i) for i, x in enumerate(xs)], pe(t)))
    # filter / filter_indexed
    for n, p in P.items():
        yield f"filter:{n}", mk(ops.filter, p), (lambda xs, t, p=p: ([(x, i) for i, x in enumerate(xs) if p(x)], pe(t)))
    for n, p in IP.items():
        yield f"filter_indexed:{n}", mk(ops.filter_indexed, p), (lambda xs, t, p=p: ([(x, i) for i, x in enumerate(xs) if p(x, i)], pe(t)))
    # take / skip
    for c in counts:
        def r_take(xs, t, c=c):
            if c == 0:
                return [], ("C", "S", None)
            outs = [(x, i) for i, x in enumerate(xs[:c])]
            return outs, (("C", c - 1, None) if len(xs) >= c else pe(t))

        yield f"take:{c}", mk(ops.take, c), r_take
        yield f"skip:{c}", mk(ops.skip, c), (lambda xs, t, c=c: ([(x, i) for i, x in enumerate(xs) if i >= c], pe(t)))
        yield f"take_last:{c}", mk(ops.take_last, c), (
            lambda xs, t, c=c: ([(x, "T") for x in xs[max(0, len(xs) - c):]] if t == "C" else [], pe(t))
        )
        yield f"skip_last:{c}", mk(ops.skip_last, c), (lambda xs, t, c=c: ([(xs[i], i + c) for i in range(len(xs) - c)], pe(t)))
        yield f"take_last_buffer:{c}", mk(ops.take_last_buffer, c), (
            lambda xs, t, c=c: ([(xs[max(0, len(xs) - c):], "T")] if t == "C" else [], pe(t))
        )

        def r_elat(xs, t, c=c):
            if c < len(xs):
                return [(xs[c], c)], ("C", c, None)
            return [], (("E", "T", ArgumentOutOfRangeException) if t == "C" else pe(t))

        yield f"element_at:{c}", mk(ops.element_at, c), r_elat
        for dn, d in {"None": None, "B": B}.items():
            def r_elatd(xs, t, c=c, d=d):
                if c < len(xs):
                    return [(xs[c], c)], ("C", c, None)
                return ([(d, "T")], ("C", "T", None)) if t == "C" else ([], pe(t))

            yield f"element_at_or_default:{c}:{dn}", mk(ops.element_at_or_default, c, d), r_elatd

    # take_while / skip_while families
    def r_tw(p, inclusive, indexed):
        def ref(xs, t):
            outs = []
            for i, x in enumerate(xs):
                ok = p(x, i) if indexed else p(x)
                if ok:
                    outs.append((x, i))
                else:
                    if inclusive:
                        outs.append((x, i))
                    return outs, ("C", i, None)
            return outs, pe(t)

        return ref

    def r_sw(p, indexed):
        def ref(xs, t):
            outs, running = [], False
            for i, x in enumerate(xs):
                if not running and not (p(x, i) if indexed else p(x)):
                    running = True
                if running:
                    outs.append((x, i))
            return outs, pe(t)

        return ref

    for n, p in P.items():
        for inc in (False, True):
            yield f"take_while:{n}:{inc}", mk(ops.take_while, p, inc), r_tw(p, inc, False)
        yield f"skip_while:{n}", mk(ops.skip_while, p), r_sw(p, False)
    for n, p in IP.items():
        for inc in (False, True):
            yield f"take_while_indexed:{n}:{inc}", mk(ops.take_while_indexed, p, inc), r_tw(p, inc, True)
        yield f"skip_while_indexed:{n}", mk(ops.skip_while_indexed, p), r_sw(p, True)

    # distinct / distinct_until_changed
    for kn, kf in K.items():
        for cn, cf in COMPARERS.items():
            def r_distinct(xs, t, kf=kf, cf=cf):
                seen, outs = [], []
                for i, x in enumerate(xs):
                    k = kf(x) if kf else x
                    if not any((cf(s, k) if cf else s == k) for s in seen):
                        seen.append(k)
                        outs.append((x, i))
                return outs, pe(t)

            def r_duc(xs, t, kf=kf, cf=cf):
                outs, has, cur = [], False, None
                for i, x in enumerate(xs):
                    k = kf(x) if kf else x
                    if not has or not (cf(cur, k) if cf else cur == k):
                        has, cur = True, k
                        outs.append((x, i))
                return outs, pe(t)

            yield f"distinct:{kn}:{cn}", mk(ops.distinct, kf, cf), r_distinct
            yield f"distinct_until_changed:{kn}:{cn}", mk(ops.distinct_until_changed, kf, cf), r_duc

    yield "pairwise", mk(ops.pairwise, ), (lambda xs, t: ([((xs[i - 1], xs[i]), i) for i in range(1, len(xs))], pe(t)))
    for sn, sv in {"0": (), "1": (B,), "2": (A, None)}.items():
        yield f"start_with:{sn}", mk(ops.start_with, *sv), (
            lambda xs, t, sv=sv: ([(v, "S") for v in sv] + [(x, i) for i, x in enumerate(xs)], pe(t))
        )
    for dn, d in {"None": None, "B": B, "default": "nodefault"}.items():
        dd = None if d == "nodefault" else d
        yield f"default_if_empty:{dn}", (mk(ops.default_if_empty) if d == "nodefault" else mk(ops.default_if_empty, d)), (
            lambda xs, t, dd=dd: (([(dd, "T")] if (not xs and t == "C") else [(x, i) for i, x in enumerate(xs)]), pe(t))
        )
    yield "ignore_elements", mk(ops.ignore_elements, ), (lambda xs, t: ([], pe(t)))

    for n, p in P.items():
        def r_find(xs, t, p=p, idx=False):
            for i, x in enumerate(xs):
                if p(x):
                    return [((i if idx else x), i)], ("C", i, None)
            return ([((-1 if idx else None), "T")], ("C", "T", None)) if t == "C" else ([], pe(t))

        yield f"find:{n}", mk(ops.find, lambda x, i, s, p=p: p(x)), r_find
        yield f"find_index:{n}", mk(ops.find_index, lambda x, i, s, p=p: p(x)), (lambda xs, t, p=p: r_find(xs, t, p, True))
    yield "find:i=1", mk(ops.find, lambda x, i, s: i == 1), (
        lambda xs, t: (([(xs[1], 1)], ("C", 1, None)) if len(xs) > 1 else (([(None, "T")], ("C", "T", None)) if t == "C" else ([], pe(t))))
    )

    # materialize
    def r_mat(xs, t):
        outs = [(("OnNext", x), i) for i, x in enumerate(xs)]
        outs.append((("OnCompleted",) if t == "C" else ("OnError", "SRC"), "T"))
        return outs, ("C", "T", None)

    yield "materialize", mk(ops.materialize, ), r_mat


def struct_instances(N):
    """Operators that need structured inputs: starmap/pluck/dematerialize.  Yields
    (id, alphabet, build, ref)."""
    from reactivex import operators as ops
    from reactivex.notification import OnCompleted, OnError, OnNext

    mk = lambda factory, *args: (lambda env, src: src.pipe(factory(*args)))
    tup = ((1, 2), (2, 1), (0, None))
    yield "starmap:pair", tup, mk(ops.starmap, lambda a, b: (b, a)), (lambda xs, t: ([((x[1], x[0]), i) for i, x in enumerate(xs)], pe(t)))
    yield "starmap:none", tup, mk(ops.starmap, ), (lambda xs, t: ([(x, i) for i, x in enumerate(xs)], pe(t)))
    dicts = ({"k": 1}, {"k": None}, {"k": 0, "z": 1})
    yield "pluck:k", dicts, mk(ops.pluck, "k"), (lambda xs, t: ([(x["k"], i) for i, x in enumerate(xs)], pe(t)))

    class O:
        def __init__(self, v):
            self.attr = v

        def __repr__(self):
            return f"O({self.attr!r})"

    objs = (O(1), O(None), O(0))
    yield "pluck_attr", objs, mk(ops.pluck_attr, "attr"), (lambda xs, t: ([(x.attr, i) for i, x in enumerate(xs)], pe(t)))

    err = vt.SrcError("mat")
    notes = (OnNext(1), OnNext(None), OnCompleted(), OnError(err))

    def r_demat(xs, t):
        outs = []
        for i, n in enumerate(xs):
            if n.kind == "N":
                outs.append((n.value, i))
            elif n.kind == "C":
                return outs, ("C", i, None)
            else:
                return outs, ("E", i, "SRC")
        return outs, pe(t)

    yield "dematerialize", notes, mk(ops.dematerialize, ), r_demat


def norm_mat(ev):
    """materialize's outputs are Notification objects: compare structurally (kind, value by R2)."""
    from reactivex.notification import Notification

    out = []
    for (t, k, v) in ev:
        if k == "N" and isinstance(v, Notification):
            if v.kind == "N":
                v2 = ("OnNext", v.value)
            elif v.kind == "C":
                v2 = ("OnCompleted",)
            else:
                v2 = ("OnError", "SRC" if isinstance(v.exception, vt.SrcError) else repr(v.exception))
            out.append((t, k, vt.norm_value(v2)))
        elif k == "N":
            out.append((t, k, vt.norm_value(v)))
        else:
            out.append((t, k, v))
    return out


def bounds(tier):
    # (N, alphabets): the first two values of each alphabet play A and B
    if tier == "quick":
        return 3, [(1, 2), (None, 0)]
    return 4, [(1, 2, 3), (None, 0, False)]


def all_cases(tier, seed):
    N, alphabets = bounds(tier)
    rot = seed % 3
    for ai, alpha in enumerate(alphabets):
        if ai == 0 and rot:
            alpha = tuple(x + 10 * rot for x in alpha)
        A, B = alpha[0], alpha[1]
        for (iid, build, ref) in instances(A, B, N):
            for tl in vt.timelines(N, alpha):
                yield (iid, alpha, tl, build, ref)
    for (iid, alpha, build, ref) in struct_instances(N):
        for tl in vt.timelines(min(N, 3), alpha):
            yield (iid, "struct", tl, build, ref)


def judge(iid, alpha, tl, build, ref):
    xs, term = listsem.split(tl)
    exp = listsem.expected(ref(xs, term), tl)
    env, src, rec, status = listsem.observe(build, tl)
    act = norm_mat(rec.events())
    problems = []
    if status != "ok":
        problems.append("run did not terminate within the action budget")
    m = listsem.mismatch(exp, act)
    if m:
        problems.append(m)
    if env.sched.escaped:
        problems.append(f"exception escaped into the scheduler: {env.sched.escaped[0][1]!r}")
    g = rec.grammar_violation()
    if g:
        problems.append(g)
    nontrivial = bool(xs) and [e[2] for e in exp if e[1] == "N"] != [vt.norm_value(x) for x in xs]
    return problems, nontrivial, act


def signature(iid, problems):
    return f"{iid.split(':')[0]}|{iid}"


def shard(part: core.Part, shard_i, nshards, tier, seed, deadline):
    import time

    for (iid, alpha, tl, build, ref) in core.shard_iter(all_cases(tier, seed), shard_i, nshards):
        if part.evals % 256 == 0 and time.time() > deadline:
            part.complete = False
            return
        problems, nontrivial, act = judge(iid, alpha, tl, build, ref)
        case = {"instance": iid, "alphabet": repr(alpha), "timeline": tl, "tier": tier, "seed": seed}
        part.case((iid, repr(tl)), nontrivial, outcome=listsem.show(act), sample={"instance": iid, "timeline": tl, "observed": listsem.show(act)})
        part.count("op:" + iid.split(":")[0])
        if problems:
            part.violation(signature(iid, problems), f"{iid} on {tl}: {problems[0]}", case, problems=problems)


def run(ctx: core.Ctx):
    N, alphabets = bounds(ctx.tier)
    ctx.bounds = {"N": N, "alphabets": [repr(a) for a in alphabets]}
    ctx.assumptions = ["VirtualTimeScheduler queue discipline (checked separately by C28/C29)", "harness LoggedCold source is conforming"]
    part = ctx.sharded(shard)
    ctx.cov["operators_covered"] = sorted(k[3:] for k in part.counters if k.startswith("op:"))


def replay(case):
    tl = [tuple(x) for x in case["timeline"]]
    for (iid, alpha, tl2, build, ref) in all_cases(case["tier"], case["seed"]):
        if iid == case["instance"] and repr(alpha) == case["alphabet"] and [tuple(x) for x in core.jsonable(tl2)] == [tuple(x) for x in case["timeline"]]:
            problems, _, act = judge(iid, alpha, tl2, build, ref)
            print("observed:", listsem.show(act))
            return [{"signature": signature(iid, problems), "what": problems[0], "detail": problems}] if problems else []
    print("case not found in this tier's enumeration")
    return []
