"""C42 CatchScheduler routes action exceptions to its handler (fault enumeration, differential).

All trees of recursive scheduling with <=N actions are enumerated: every node is scheduled by
schedule / schedule_relative(1) / schedule_absolute(now+1) / schedule_periodic, children always on
the scheduler *handed to the parent action*.  Every tree is run on CatchScheduler(inner) with no
raise and with one raise at every position (after j children of every action node, at tick k of
every periodic leaf) under both handler verdicts; the reference is the same (truncated) tree on
the bare inner scheduler.
"""
from __future__ import annotations

import time
from datetime import datetime, timedelta, timezone

from .. import core

PROPERTY = "C42"
LEVEL = "fault_enumeration"
META = {
    "engine": "hbfs",
    "technique": "exhaustive enumeration of labelled scheduling trees x single raise position x handler verdict on the real "
    "CatchScheduler over real virtual-time schedulers, differential against the bare inner scheduler",
    "text": "every ordered tree of <=N actions with every assignment of scheduling methods (schedule, schedule_relative, "
    "schedule_absolute, schedule_periodic on leaves), children scheduled through the scheduler handed to the action; for every "
    "raise position and verdict: the handler is called exactly once with that very exception object; verdict True => nothing "
    "escapes the inner scheduler's run, the raising periodic action is never called again and everything else runs exactly as "
    "the tree truncated at the raise does on the bare scheduler; verdict False => that exception escapes from the inner "
    "scheduler's run; without a raise the handler is never called and order, times and states equal the bare run",
    "note": "trusted: CPython, the bare virtual-time scheduler as differential reference (its own ordering is C28's subject, "
    "its periodic mechanics C35's). After an exception escaped, the inner VirtualTimeScheduler is left enabled and nothing "
    "further is demanded of that run.",
}
RULE = (
    "cases = (inner scheduler kind, labelled tree, raise position or none, handler verdict); all enumerated up to N nodes; "
    "distinct = that tuple; non-trivial = a raise was injected and the raising action had been scheduled through the scheduler "
    "handed to another action (recursive wrapper) or is periodic, or (no raise) the tree has >=2 actions; outcome = (verdict, "
    "what escaped, handler calls, shape of the invocation log)"
)
BUDGET = {"quick": 150.0, "thorough": 1500.0}

UTC = timezone.utc
TICKS = 3  # raise positions in a periodic leaf: tick 1..TICKS
PERIOD = 2  # in units; R/A children are due 1 unit after their parent
KINDS_Q = ("VirtualTimeScheduler", "HistoricalScheduler")
KINDS_T = ("VirtualTimeScheduler", "HistoricalScheduler", "TestScheduler")
ACTION_METHODS = ("S", "R", "A", "Z")  # Z = schedule_relative(0): the zero/negative due-time boundary


class Boom(Exception):
    pass


class Budget(BaseException):
    pass


# ------------------------------------------------------------------ trees

def shapes(n):
    """All ordered trees with n nodes, as nested tuples of children."""
    if n == 1:
        yield ()
        return
    # distribute n-1 nodes over an ordered forest of children
    def forests(m):
        if m == 0:
            yield ()
            return
        for first in range(1, m + 1):
            for t in shapes(first):
                for rest in forests(m - first):
                    yield (t,) + rest

    yield from forests(n - 1)


def labelled(shape):
    """All method labellings: a node is (method, children); P only on leaves."""
    def go(sh):
        if not sh:
            for m in ACTION_METHODS + ("P",):
                yield (m, ())
            return
        def kids(i):
            if i == len(sh):
                yield ()
                return
            for k in go(sh[i]):
                for rest in kids(i + 1):
                    yield (k,) + rest

        for m in ACTION_METHODS:
            for ks in kids(0):
                yield (m, ks)

    yield from go(shape)


def number(tree):
    """-> list of nodes in preorder: (id, method, [child ids])"""
    out = []

    def go(t):
        i = len(out)
        out.append([i, t[0], []])
        for c in t[1]:
            out[i][2].append(go(c))
        return i

    go(tree)
    return out


def raise_positions(nodes):
    for (i, m, kids) in nodes:
        if m == "P":
            for k in range(1, TICKS + 1):
                yield (i, k)
        else:
            for j in range(len(kids) + 1):
                yield (i, j)


def all_cases(tier, seed):
    N = 4 if tier == "quick" else 5
    kinds = KINDS_Q if tier == "quick" else KINDS_T
    for kind in kinds:
        for n in range(1, N + 1):
            for sh in shapes(n):
                for tree in labelled(sh):
                    nodes = number(tree)
                    yield (kind, tree, None, None)
                    for pos in raise_positions(nodes):
                        for verdict in (True, False):
                            yield (kind, tree, pos, verdict)


# ------------------------------------------------------------------ execution

class Cfg:
    def __init__(self, kind, seed):
        self.kind = kind
        self.unit = (1.0, 0.5, 3.0)[seed % 3]
        self.base_f = (0.0, 50.0, 1000.0)[seed % 3]
        self.base_d = (None, datetime(2001, 2, 3, 4, 5, 6, tzinfo=UTC), datetime(1999, 12, 31, 23, 59, 59, tzinfo=UTC))[seed % 3]

    def make(self):
        from reactivex.scheduler import HistoricalScheduler, VirtualTimeScheduler
        from reactivex.testing import TestScheduler

        if self.kind == "VirtualTimeScheduler":
            return VirtualTimeScheduler(self.base_f)
        if self.kind == "TestScheduler":
            return TestScheduler()
        return HistoricalScheduler(self.base_d)


def execute(cfg: Cfg, tree, pos, verdict, catch: bool):
    """Run the tree.  catch=True: on CatchScheduler(inner, handler), raising at pos.
    catch=False: reference on the bare inner scheduler, *truncated* at pos (the node returns
    after j children / the periodic leaf disposes itself at tick k).
    Returns dict(log, handler_calls, escaped, injected)."""
    from reactivex.scheduler import CatchScheduler

    inner = cfg.make()
    nodes = number(tree)
    t0 = inner.now
    unit = timedelta(seconds=cfg.unit)
    log: list = []
    handler_calls: list = []
    injected: list = []
    budget = [0]

    def handler(ex):
        handler_calls.append(ex)
        return verdict

    top = CatchScheduler(inner, handler) if catch else inner
    use_float_abs = cfg.kind != "HistoricalScheduler"

    def stamp(s):
        return (s.now - t0).total_seconds() / cfg.unit

    def do_schedule(s, i):
        """schedule node i on scheduler s with its method; returns the disposable"""
        _, m, kids = nodes[i]
        if m == "S":
            return s.schedule(make_action(i), ("st", i))
        if m == "R":
            return s.schedule_relative(cfg.unit if use_float_abs else unit, make_action(i), ("st", i))
        if m == "Z":
            return s.schedule_relative(0.0 if use_float_abs else unit * 0, make_action(i), ("st", i))
        if m == "A":
            due = s.now + unit
            return s.schedule_absolute(s.to_seconds(due) if use_float_abs else due, make_action(i), ("st", i))
        holder: list = []
        holder.append(s.schedule_periodic(cfg.unit * PERIOD if use_float_abs else unit * PERIOD, make_periodic(i, holder), 0))
        return holder[0]

    def make_action(i):
        _, m, kids = nodes[i]

        def action(s, state=None):
            budget[0] += 1
            if budget[0] > 200:
                raise Budget()
            log.append(("act", i, stamp(s), state, type(s).__name__ if catch else None))
            for j, c in enumerate(kids):
                if pos is not None and pos == (i, j):
                    if catch:
                        ex = Boom(f"node{i}@{j}")
                        injected.append(ex)
                        raise ex
                    return None
                do_schedule(s, c)
            if pos is not None and pos == (i, len(kids)):
                if catch:
                    ex = Boom(f"node{i}@{len(kids)}")
                    injected.append(ex)
                    raise ex
            return None

        return action

    def make_periodic(i, holder):
        calls = [0]

        def tick(state):
            budget[0] += 1
            if budget[0] > 200:
                raise Budget()
            calls[0] += 1
            log.append(("tick", i, stamp(inner), state, calls[0]))
            if pos is not None and pos == (i, calls[0]):
                if catch:
                    ex = Boom(f"periodic{i}#{calls[0]}")
                    injected.append(ex)
                    raise ex
                holder[0].dispose()  # reference: periodic work stops here
            return state + 1

        return tick

    escaped = None
    do_schedule(top, 0)
    horizon = t0 + unit * (len(nodes) + PERIOD * (TICKS + 1))
    try:
        inner.advance_to(inner.to_seconds(horizon) if use_float_abs else horizon)
    except Exception as e:
        escaped = e
    return {"log": log, "handler_calls": handler_calls, "escaped": escaped, "injected": injected}


def strip(log):
    """drop the scheduler-class column (only informative) for comparison"""
    return [e[:4] + ((e[4],) if e[0] == "tick" else ()) for e in log]


def judge(cfg, tree, pos, verdict):
    """-> (problems [(class, text)], nontrivial, outcome, observed)"""
    nodes = number(tree)
    got = execute(cfg, tree, pos, verdict if verdict is not None else True, catch=True)
    ref = execute(cfg, tree, pos, True, catch=False)
    problems = []
    glog, rlog = strip(got["log"]), strip(ref["log"])
    if ref["escaped"] is not None or ref["handler_calls"]:
        raise RuntimeError(f"harness: reference run escaped {ref['escaped']!r}")
    method = None
    if pos is None:
        if got["handler_calls"]:
            problems.append(("handler-called-without-raise", f"handler called {len(got['handler_calls'])}x although no action raised"))
        if got["escaped"] is not None:
            problems.append(("escaped-without-raise", f"{got['escaped']!r} escaped although no action raised"))
        if glog != rlog:
            problems.append(("differs-from-wrapped", f"actions ran as {glog}, on the bare scheduler as {rlog}"))
        nontrivial = len(nodes) >= 2
    else:
        method = nodes[pos[0]][1]
        where = "periodic" if method == "P" else ("root" if pos[0] == 0 else "recursive")
        inj = got["injected"]
        if len(inj) != 1:
            # the raising position was never reached on the catch run although the reference reached it?
            reached_ref = any(e[1] == pos[0] and (e[0] == "act" or e[4] == pos[1]) for e in rlog)
            if reached_ref or inj:
                problems.append((f"{where}|raise-point-not-reached", f"raise position {pos} reached {len(inj)}x; log {glog} vs bare {rlog}"))
        else:
            ex = inj[0]
            hc = got["handler_calls"]
            if len(hc) != 1:
                problems.append((f"{where}|handler-calls", f"handler called {len(hc)}x for one exception raised by node {pos[0]} ({method})"))
            elif hc[0] is not ex:
                problems.append((f"{where}|handler-got-other-exception", f"handler received {hc[0]!r}, the action raised {ex!r}"))
            if verdict:
                if got["escaped"] is not None:
                    problems.append((f"{where}|swallowed-but-escaped", f"handler returned True but {got['escaped']!r} escaped from the inner scheduler's run"))
                elif glog != rlog:
                    after = [e for e in glog if e[0] == "tick" and e[1] == pos[0] and e[4] > pos[1]] if method == "P" else []
                    if after:
                        problems.append((f"{where}|periodic-continues", f"periodic action called again (tick {after[0][4]}) after its exception was swallowed at tick {pos[1]}"))
                    else:
                        problems.append((f"{where}|differs-from-wrapped", f"after the swallowed raise actions ran as {glog}, truncated tree on the bare scheduler: {rlog}"))
            else:
                if got["escaped"] is None:
                    problems.append((f"{where}|not-propagated", "handler returned False but nothing escaped from the inner scheduler's run"))
                elif got["escaped"] is not ex:
                    problems.append((f"{where}|propagated-other-exception", f"{got['escaped']!r} escaped, the action raised {ex!r}"))
                # everything up to the raising invocation happened as on the bare scheduler
                cut = next((k for k, e in enumerate(rlog) if e[1] == pos[0] and (e[0] == "act" or e[4] == pos[1])), None)
                if cut is not None and glog != rlog[: cut + 1]:
                    problems.append((f"{where}|differs-from-wrapped", f"before the raise actions ran as {glog}, on the bare scheduler as {rlog[: cut + 1]}"))
        nontrivial = where in ("recursive", "periodic")
    outcome = (
        verdict,
        None if got["escaped"] is None else type(got["escaped"]).__name__,
        len(got["handler_calls"]),
        tuple((e[0], e[1], e[2]) for e in glog),
    )
    return problems, nontrivial, outcome, got


def show_tree(tree):
    return tree[0] + ("(" + ",".join(show_tree(c) for c in tree[1]) + ")" if tree[1] else "")


def parse_tree(s):
    pos = [0]

    def go():
        m = s[pos[0]]
        pos[0] += 1
        kids = []
        if pos[0] < len(s) and s[pos[0]] == "(":
            pos[0] += 1
            while True:
                kids.append(go())
                if s[pos[0]] == ",":
                    pos[0] += 1
                    continue
                pos[0] += 1  # ')'
                break
        return (m, tuple(kids))

    return go()


def signature(kind, tree, pos, verdict, problem):
    v = "no-raise" if pos is None else ("verdict-True" if verdict else "verdict-False")
    return f"catch|{v}|{problem[0]}"


def shard(part: core.Part, shard_i, nshards, tier, seed, deadline):
    cfgs: dict = {}
    for (kind, tree, pos, verdict) in core.shard_iter(all_cases(tier, seed), shard_i, nshards):
        if part.evals % 256 == 0 and time.time() > deadline:
            part.complete = False
            return
        cfg = cfgs.setdefault(kind, Cfg(kind, seed))
        problems, nontrivial, outcome, got = judge(cfg, tree, pos, verdict)
        ts = show_tree(tree)
        part.case(
            (kind, ts, pos, verdict),
            nontrivial,
            outcome=outcome,
            sample={"inner": kind, "tree": ts, "raise_at": pos, "verdict": verdict, "log": strip(got["log"]), "handler_calls": len(got["handler_calls"]), "escaped": repr(got["escaped"])}
            if pos is not None and nontrivial
            else None,
        )
        part.count("raise" if pos is not None else "no-raise")
        for p in problems:
            case = {"inner": kind, "tree": ts, "raise_at": pos, "verdict": verdict, "seed": seed}
            part.violation(signature(kind, tree, pos, verdict, p), f"{kind}, tree {ts}, raise at {pos}, verdict {verdict}: {p[1]}", case)


def run(ctx: core.Ctx):
    N = 4 if ctx.tier == "quick" else 5
    ctx.bounds = {
        "max_actions_per_tree": N,
        "methods": ["schedule", "schedule_relative(1)", "schedule_relative(0)", "schedule_absolute(now+1)", "schedule_periodic(2) [leaves]"],
        "inner_schedulers": list(KINDS_Q if ctx.tier == "quick" else KINDS_T),
        "raise_positions": "after j children of every action node (j=0..#children); tick 1..%d of every periodic leaf" % TICKS,
        "verdicts": [True, False],
        "trees": sum(1 for n in range(1, N + 1) for sh in shapes(n) for _ in labelled(sh)),
    }
    ctx.assumptions = [
        "the bare virtual-time scheduler is the reference for order and times (C28) and for periodic mechanics (C35)",
        "one raise per execution",
    ]
    ctx.sharded(shard)


def replay(case):
    cfg = Cfg(case["inner"], case["seed"])
    tree = parse_tree(case["tree"])
    pos = tuple(case["raise_at"]) if case["raise_at"] is not None else None
    problems, _, outcome, got = judge(cfg, tree, pos, case["verdict"])
    print("tree:", case["tree"], "raise at:", pos, "verdict:", case["verdict"])
    print("log:", strip(got["log"]))
    print("handler calls:", got["handler_calls"], "escaped:", repr(got["escaped"]))
    return [{"signature": signature(case["inner"], tree, pos, case["verdict"], p), "what": p[1], "detail": None} for p in problems]
