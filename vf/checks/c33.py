"""C33 Cancelling an asyncio-scheduled action is effective from any thread.

E3 with a virtual asyncio loop (a BaseEventLoop subclass whose clock is the explorer's and
whose selector wait is a controlled blocking point) run by run_forever() on a controlled
thread, so that is_running(), get_running_loop() and call_soon_threadsafe behave as in
production.  Schedulers: AsyncIOScheduler (dispose on the loop thread / before the loop
starts) and AsyncIOThreadSafeScheduler (additionally from a foreign thread while the loop
runs).  Line-level scheduling points in both scheduler files.
"""
from __future__ import annotations

import time

from .. import core, ilv, ilvrun

PROPERTY = "C33"
LEVEL = "model_checking"
META = {
    "engine": "ilv",
    "technique": "preemption- and tick-bounded exhaustive interleaving exploration of the real asyncio schedulers over a virtual asyncio event loop run on a controlled thread",
    "text": "for immediate and relative schedules and every dispose context (loop callback, foreign thread while the loop runs, before the loop starts), every interleaving of the "
    "disposing thread with the loop thread (<=PB preemptions, <=TB early clock ticks, line-level points in the two scheduler files): actions run on the loop thread, never before due "
    "on the loop clock, and never start after dispose() returned",
    "note": "trusted: CPython's asyncio.BaseEventLoop (run unmodified, atomic between controlled points), the virtual selector/clock of vf/ilv.py, controlled stand-in for concurrent.futures.Future.result()",
}
RULE = (
    "scheduler {AsyncIO, AsyncIOThreadSafe} x op {schedule, relative 1, relative 2, absolute now+1} x context {loop callback same/later callback, foreign thread (thread-safe only), "
    "before loop start, loop stopped after the timer was armed and restarted after dispose, never disposed}; all schedules within (PB,TB); non-trivial = >=1 context switch between two threads; distinct = (harness, schedule)"
)
BUDGET = {"quick": 300.0, "thorough": 2400.0}

DELAY = {"S": 0.0, "R1": 1.0, "R2": 2.0, "A1": 1.0}


class H:
    allow_thread_errors = False

    def __init__(self, kind, op, ctxt):
        self.kind, self.op, self.ctxt = kind, op, ctxt
        self.name = f"asyncio|{kind}|{op}|{ctxt}"
        self.sig = f"asyncio-{kind}"
        self.focus = ilv.focus_files("scheduler/eventloop/asynciothreadsafescheduler.py", "scheduler/eventloop/asyncioscheduler.py")

    def _schedule(self, st):
        import datetime

        run, sch = st["run"], st["sch"]

        def action(s, state=None):
            me = ilv.cur()
            st["acts"].append({"clock": run.clock, "idx": len(run.events), "tname": me.name, "harness": me.harness})
            run.log("start")
            ilv.point("in-action", voluntary=True)
            run.log("end")

        st["call"] = {"clock": run.clock, "idx": len(run.events)}
        run.log("schedule", self.op)
        if self.op == "S":
            d = sch.schedule(action)
        elif self.op == "A1":
            d = sch.schedule_absolute(sch.now + datetime.timedelta(seconds=1), action)
        else:
            d = sch.schedule_relative(DELAY[self.op], action)
        run.log("scheduled")
        return d

    def _dispose(self, st, d):
        run = st["run"]
        run.log("dispose-call")
        d.dispose()
        st["disp"] = {"clock": run.clock, "idx": len(run.events)}
        run.log("dispose-ret")

    def setup(self, run):
        from reactivex.scheduler.eventloop import AsyncIOScheduler, AsyncIOThreadSafeScheduler

        loop = ilv.make_virtual_loop()
        st = {"run": run, "loop": loop, "acts": [], "disp": None, "call": None}
        st["sch"] = (AsyncIOThreadSafeScheduler if self.kind == "safe" else AsyncIOScheduler)(loop)
        c = self.ctxt
        if c == "prestart":
            d = self._schedule(st)
            self._dispose(st, d)
        elif c == "prestart-nodispose":
            self._schedule(st)
        elif c in ("cb-same", "cb-later", "cb-none"):
            def cb():
                d = self._schedule(st)
                if c == "cb-same":
                    self._dispose(st, d)
                elif c == "cb-later":
                    loop.call_soon(lambda: self._dispose(st, d))

            loop.call_soon(cb)
        run.spawn(loop.run_forever, name="loop", harness=False)
        return st

    def bodies(self, st):
        if self.ctxt == "stop-dispose-restart":
            # history: schedule on the running loop, let the timer get armed, stop the loop before the due time, dispose while it
            # is stopped, start the loop again and let it run past the due time
            def body():
                run, loop = st["run"], st["loop"]
                me = ilv.cur()
                if not loop.is_running():
                    run.block(me, lambda: loop.is_running(), None, "wait-loop-running")
                box = {}
                loop.call_soon_threadsafe(lambda: box.setdefault("d", self._schedule(st)))
                run.block(me, lambda: "d" in box and (bool(loop._scheduled) or bool(st["acts"])), None, "wait-timer-armed")
                loop.call_soon_threadsafe(loop.stop)
                run.block(me, lambda: not loop.is_running(), None, "wait-loop-stopped")
                self._dispose(st, box["d"])
                run.spawn(loop.run_forever, name="loop", harness=False)

            return [body]
        if self.ctxt in ("foreign", "foreign-nodispose"):
            def body():
                # context (ii) is "while the loop is running": wait until run_forever() has started
                if not st["loop"].is_running():
                    ilv.run().block(ilv.cur(), lambda: st["loop"].is_running(), None, "wait-loop-running")
                ilv.point("before-schedule", voluntary=True)
                d = self._schedule(st)
                ilv.point("between-schedule-and-dispose", voluntary=True)  # the caller does other work in between
                if self.ctxt == "foreign":
                    self._dispose(st, d)

            return [body]
        return []

    def outcome(self, x):
        return (len(x.state["acts"]), x.state["disp"] is not None)

    def nontrivial(self, x):
        return x.switches > 0

    def check(self, x):
        st = x.state
        if x.outcome != "quiescent":
            return []
        P = []
        sig = self.sig
        if len(st["acts"]) > 1:
            P.append((f"{sig}|action-ran-twice", f"{len(st['acts'])} runs"))
        for a in st["acts"]:
            if a["tname"] != "loop":
                P.append((f"{sig}|ran-off-loop-thread", f"action ran on thread {a['tname']}"))
            if a["clock"] < st["call"]["clock"] + DELAY[self.op]:
                P.append((f"{sig}|ran-before-due", f"{self.op} scheduled at {st['call']['clock']} started at {a['clock']}"))
            if st["disp"] is not None and a["idx"] > st["disp"]["idx"]:
                P.append((f"{sig}|{self.op}|{self.ctxt}|ran-after-dispose-returned", f"action started (event {a['idx']}, clock {a['clock']}) after dispose() had returned (event {st['disp']['idx']}, clock {st['disp']['clock']})"))
        if st["disp"] is None and not st["acts"]:
            P.append((f"{sig}|action-never-ran", f"{self.op} in context {self.ctxt} was never disposed and never ran"))
        return P[:3]


def harnesses(tier):
    hs = []
    for kind in ("plain", "safe"):
        for op in ("S", "R1", "R2", "A1"):
            ctxts = ["prestart", "prestart-nodispose", "cb-same", "cb-later", "cb-none"]
            if kind == "safe":
                ctxts += ["foreign", "foreign-nodispose"]
            if op != "S":
                ctxts += ["stop-dispose-restart"]
            for c in ctxts:
                if tier == "quick" and op == "R2" and c not in ("foreign", "cb-later", "stop-dispose-restart"):
                    continue
                hs.append(H(kind, op, c))
    return hs


def bounds(tier):
    return (1, 1) if tier == "quick" else (2, 1)


def shard(part, shard_i, nshards, tier, seed, deadline):
    ilv.install()
    PB, TB = bounds(tier)
    for i, h in enumerate(harnesses(tier)):
        if (i + seed) % nshards == shard_i:
            ilvrun.explore_all(part, [h], 0, 1, PB, TB, deadline, horizon=6.0)


def run(ctx):
    PB, TB = bounds(ctx.tier)
    ctx.bounds = {"PB": PB, "TB": TB, "harnesses": len(harnesses(ctx.tier))}
    ctx.assumptions = ["asyncio internals run atomically between controlled points (selector wait, wake-up, clock)", "virtual loop clock = explorer clock"]
    ctx.sharded(shard, nshards=len(harnesses(ctx.tier)))
    ilvrun.finish_cov(ctx, ctx.total)


def replay(case):
    ilv.install()
    for tier in ("quick", "thorough"):
        for h in harnesses(tier):
            if h.name == case["harness"]:
                return ilvrun.replay_harness(h, case)
    return []
