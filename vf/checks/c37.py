"""C37 Source factories emit their specified sequences (E1, bounded-exhaustive).

Enumerated completely per tier: every parameter set of the catalogue below x every way of
handing over the virtual scheduler (to the factory, to subscribe, or -- for the synchronous
factories -- not at all), each run once on a fresh virtual-time world and compared with a
boring reference: list(range(...)), list(iterable), the while-loop, delays summed on the
virtual clock.

What is demanded (and nothing more): the recorded sequence of notifications (kind, value by
type and ==, error by identity); the *instant* only where the statement speaks of time
(timer: the value arrives at d; generate_with_relative_time: state k arrives at the sum of
the delays computed for states 0..k); R1 grammar; nothing escapes into the scheduler; the run
is finite.
"""
from __future__ import annotations

import itertools
import time as _time
from datetime import datetime, timedelta, timezone

from .. import core, vt

PROPERTY = "C37"
LEVEL = "exploration"
META = {
    "engine": "vtx",
    "technique": "bounded-exhaustive enumeration of factory parameter sets x scheduler hand-over modes on virtual time against "
    "reference sequences (list(range), list(iterable), while-loop, summed delays)",
    "text": "range over every (start, stop, step) of a cube incl. negative steps and empty ranges plus the 1-/2-argument forms, "
    "of/from_iterable over lists, tuples, generators, strings, dict, range, falsy items, return_value/empty/never/throw, generate "
    "and generate_with_relative_time over every (initial, condition, iterate[, delay]) of small function sets incl. zero, float, "
    "timedelta and state-dependent delays, repeat_value n=0..3 and unbounded cut by take, timer over zero/relative/timedelta/"
    "absolute due times are each run on the real factory and compared notification by notification (and instant by instant "
    "where the statement speaks of time); exhaustive within the catalogue",
    "note": "trusted: CPython, the harness in /verif/vf, the reference loops, VirtualTimeScheduler's queue discipline (C28/C29), "
    "ops.take as the cut for unbounded sequences (C05)",
}
RULE = (
    "all (factory, parameter set, scheduler mode) triples of the catalogue; non-trivial = the reference sequence has >= 2 "
    "notifications (the producer had to take at least one recursive / delayed step); distinct = (factory, parameters, mode)"
)
BUDGET = {"quick": 120.0, "thorough": 600.0}

UTC = timezone.utc
EPOCH = datetime(1970, 1, 1, tzinfo=UTC)


# ------------------------------------------------------------------ reference pieces
class Err(Exception):
    pass


def secs(d):
    return d.total_seconds() if isinstance(d, timedelta) else d


CAP = 6  # unbounded loops are cut by take(CAP)

# generate: loop function sets
G_INITS = {"0": 0, "1": 1, "-2": -2}
G_CONDS = {
    "<2": lambda x: x < 2,
    "<=2": lambda x: x <= 2,
    "!=2": lambda x: x != 2,
    "never": lambda x: False,
    "truthy(2-x)": lambda x: 2 - x,  # a truthy/falsy non-bool, as `while 2 - x:` would read it
    "always": lambda x: True,
}
G_ITERS = {"+1": lambda x: x + 1, "+2": lambda x: x + 2, "*2": lambda x: x * 2, "-1": lambda x: x - 1}

# generate_with_relative_time: delay functions (zero delays in every spelling)
DELAYS = {
    "0": lambda x: 0,
    "0.0": lambda x: 0.0,
    "5": lambda x: 5,
    "td0": lambda x: timedelta(0),
    "td2": lambda x: timedelta(seconds=2),
    "x": lambda x: x,  # state dependent: state 0 -> zero delay
    "1.5x": lambda x: 1.5 * x,
    "td(x)": lambda x: timedelta(seconds=x),
    "3-x": lambda x: max(0, 3 - x),  # positive first, zero later
    "0.25": lambda x: 0.25,
}


def while_loop(init, cond, it, cap):
    """The equivalent while-loop, cut after `cap` states. -> (states, finished)"""
    out, s = [], init
    while cond(s):
        if len(out) == cap:
            return out, False
        out.append(s)
        s = it(s)
    return out, True


# ------------------------------------------------------------------ catalogue
class Case:
    """One parameter set of one factory.
    build(rx, ops, sched_or_None) -> observable; expected = [(time|None, kind, value)]; modes = subset of fac/sub/none"""

    def __init__(self, factory, params, shape, build, expected, modes):
        self.factory, self.params, self.shape, self.build, self.expected, self.modes = factory, params, shape, build, expected, modes


def ns(values, t=None):
    return [(t, "N", v) for v in values]


def catalogue(tier, seed, SUB):
    thorough = tier == "thorough"
    R = range(-3, 4) if thorough else range(-2, 3)
    SYNC = ("fac", "sub", "none")

    # ---- range
    for a in R:
        yield Case("range", f"({a})", "1-arg", lambda rx, ops, s, a=a: rx.range(a, scheduler=s), ns(range(a)) + [(None, "C", None)], SYNC)
    for a, b in itertools.product(R, R):
        yield Case("range", f"({a},{b})", "2-arg", lambda rx, ops, s, a=a, b=b: rx.range(a, b, scheduler=s),
                   ns(range(a, b)) + [(None, "C", None)], SYNC)
    for a, b, c in itertools.product(R, R, R):
        if c == 0:
            continue
        shape = ("neg-step" if c < 0 else "pos-step") + ("-empty" if not list(range(a, b, c)) else "")
        yield Case("range", f"({a},{b},{c})", shape, lambda rx, ops, s, a=a, b=b, c=c: rx.range(a, b, c, scheduler=s),
                   ns(range(a, b, c)) + [(None, "C", None)], SYNC)

    # ---- of / from_iterable
    iterables = {
        "list[]": lambda: [],
        "list[1]": lambda: [1],
        "list[1,2,3]": lambda: [1, 2, 3],
        "list[None,0,False]": lambda: [None, 0, False],
        "tuple(1,(2,3))": lambda: (1, (2, 3)),
        "gen(x*x)": lambda: (x * x for x in range(3)),
        "gen()": lambda: (x for x in ()),
        "str'ab'": lambda: "ab",
        "str''": lambda: "",
        "range(3)": lambda: range(3),
        "dict{k,j}": lambda: {"k": 1, "j": 2},
        "iter[1,2]": lambda: iter([1, 2]),
    }
    if thorough:
        iterables.update({
            "list[[1],[2]]": lambda: [[1], [2]],
            "list[0.0,'',()]": lambda: [0.0, "", ()],
            "bytes": lambda: b"ab",
            "list*7": lambda: list(range(7)),
            "frozenset{7}": lambda: frozenset({7}),
            "map": lambda: map(lambda x: x + 1, [1, 2]),
        })
    for name, mk in iterables.items():
        exp = ns(list(mk())) + [(None, "C", None)]
        kind = name.split("[")[0].split("(")[0].split("'")[0].split("{")[0].split("*")[0]
        yield Case("from_iterable", name, kind, lambda rx, ops, s, mk=mk: rx.from_iterable(mk(), scheduler=s), exp, SYNC)
        yield Case("of", "*" + name, kind, lambda rx, ops, s, mk=mk: rx.of(*mk()), exp, ("sub", "none"))
    yield Case("of", "()", "no-args", lambda rx, ops, s: rx.of(), [(None, "C", None)], ("sub", "none"))
    yield Case("of", "('ab')", "one-str", lambda rx, ops, s: rx.of("ab"), ns(["ab"]) + [(None, "C", None)], ("sub", "none"))
    yield Case("of", "(None)", "one-None", lambda rx, ops, s: rx.of(None), ns([None]) + [(None, "C", None)], ("sub", "none"))
    yield Case("of", "([1,2])", "one-list", lambda rx, ops, s: rx.of([1, 2]), ns([[1, 2]]) + [(None, "C", None)], ("sub", "none"))

    # ---- return_value / empty / never / throw
    vals = [1, None, 0, False, "x", (1, 2)] + ([0.0, "", [], 7 + seed] if thorough else [])
    for v in vals:
        yield Case("return_value", repr(v), type(v).__name__, lambda rx, ops, s, v=v: rx.return_value(v, scheduler=s),
                   ns([v]) + [(None, "C", None)], SYNC)
        yield Case("just", repr(v), type(v).__name__, lambda rx, ops, s, v=v: rx.just(v, scheduler=s), ns([v]) + [(None, "C", None)], SYNC)
    yield Case("empty", "()", "-", lambda rx, ops, s: rx.empty(scheduler=s), [(None, "C", None)], SYNC)
    yield Case("never", "()", "-", lambda rx, ops, s: rx.never(), [], ("sub", "none"))
    e1 = Err("boom")
    yield Case("throw", "Err('boom')", "exception", lambda rx, ops, s: rx.throw(e1, scheduler=s), [(None, "E", e1)], SYNC)
    yield Case("throw", "'msg'", "str", lambda rx, ops, s: rx.throw("msg", scheduler=s), [(None, "E", ("str", "msg"))], SYNC)

    # ---- generate
    for (iname, init), (cname, cond), (tname, it) in itertools.product(G_INITS.items(), G_CONDS.items(), G_ITERS.items()):
        states, finished = while_loop(init, cond, it, CAP)
        params = f"({iname}, x{cname}, x{tname})"
        if finished:
            yield Case("generate", params, "terminating" + ("-empty" if not states else ""),
                       lambda rx, ops, s, init=init, cond=cond, it=it: rx.generate(init, cond, it),
                       ns(states) + [(None, "C", None)], ("sub", "none"))
        yield Case("generate", params + ".take(%d)" % CAP, ("terminating" if finished else "unbounded") + "+take",
                   lambda rx, ops, s, init=init, cond=cond, it=it: rx.generate(init, cond, it).pipe(ops.take(CAP)),
                   ns(states) + [(None, "C", None)], ("sub", "none"))
    # falsy / non-numeric states
    yield Case("generate", "('', len<3, +'a')", "falsy-first-state", lambda rx, ops, s: rx.generate("", lambda x: len(x) < 3, lambda x: x + "a"),
               ns(["", "a", "aa"]) + [(None, "C", None)], ("sub", "none"))
    yield Case("generate", "(None, x is None, ->0)", "None-state", lambda rx, ops, s: rx.generate(None, lambda x: x is None, lambda x: 0),
               ns([None]) + [(None, "C", None)], ("sub", "none"))

    # ---- repeat_value
    rvals = [1, None, 0] + (["x"] if thorough else [])
    for v in rvals:
        for n in range(0, 4):
            yield Case("repeat_value", f"({v!r},{n})", f"count", lambda rx, ops, s, v=v, n=n: rx.repeat_value(v, n),
                       ns([v] * n) + [(None, "C", None)], ("sub", "none"))
        for k in ((0, 1, 3, 5) if thorough else (1, 3)):
            yield Case("repeat_value", f"({v!r}).take({k})", "unbounded+take", lambda rx, ops, s, v=v, k=k: rx.repeat_value(v).pipe(ops.take(k)),
                       ns([v] * k) + [(None, "C", None)], ("sub", "none"))
            yield Case("repeat_value", f"({v!r},None).take({k})", "unbounded+take",
                       lambda rx, ops, s, v=v, k=k: rx.repeat_value(v, None).pipe(ops.take(k)), ns([v] * k) + [(None, "C", None)], ("sub", "none"))

    # ---- timer(d): 0 arrives at d
    rel = {"0": 0, "0.0": 0.0, "5": 5, "0.5": 0.5, "td0": timedelta(0), "td5": timedelta(seconds=5), "td1.5": timedelta(milliseconds=1500)}
    if thorough:
        rel.update({"1": 1, "7.25": 7.25, "td1us": timedelta(microseconds=1), "td90": timedelta(seconds=90), "5.0": 5.0})
    for name, d in rel.items():
        shape = ("timedelta" if isinstance(d, timedelta) else type(d).__name__) + ("-zero" if not secs(d) else "")
        yield Case("timer", f"({name})", "relative-" + shape, lambda rx, ops, s, d=d: rx.timer(d, scheduler=s),
                   [(SUB + secs(d), "N", 0), (None, "C", None)], ("fac", "sub"))
    absolute = {"abs+5": (EPOCH + timedelta(seconds=SUB + 5), SUB + 5), "abs=now": (EPOCH + timedelta(seconds=SUB), SUB),
                "abs+0.5": (EPOCH + timedelta(seconds=SUB, milliseconds=500), SUB + 0.5)}
    if thorough:
        z = timezone(timedelta(hours=5, minutes=30))
        absolute["abs+5@+0530"] = ((EPOCH + timedelta(seconds=SUB + 5)).astimezone(z), SUB + 5)
        absolute["abs+1us"] = (EPOCH + timedelta(seconds=SUB, microseconds=1), SUB + 1e-6)
    for name, (d, t) in absolute.items():
        yield Case("timer", f"({name})", "absolute", lambda rx, ops, s, d=d: rx.timer(d, scheduler=s), [(t, "N", 0), (None, "C", None)], ("fac", "sub"))

    # ---- generate_with_relative_time
    w_inits = {"0": 0, "1": 1} if not thorough else {"0": 0, "1": 1, "2": 2}
    w_conds = {"<3": lambda x: x < 3, "<0": lambda x: False, "always": lambda x: True}
    if thorough:
        w_conds["<=4"] = lambda x: x <= 4
    w_iters = {"+1": lambda x: x + 1, "*2": lambda x: x * 2}
    WCAP = 4
    for (iname, init), (cname, cond), (tname, it), (dname, dl) in itertools.product(w_inits.items(), w_conds.items(), w_iters.items(), DELAYS.items()):
        states, finished = while_loop(init, cond, it, WCAP)
        t, exp, zero = SUB, [], False
        for st in states:
            d = secs(dl(st))
            zero = zero or d == 0
            t = t + d
            exp.append((t, "N", st))
        exp.append((None, "C", None))
        shape = "zero-delay" if zero else ("positive-delay" if states else "empty")
        params = f"({iname}, x{cname}, x{tname}, delay={dname})"
        if finished:
            yield Case("generate_with_relative_time", params, shape,
                       lambda rx, ops, s, init=init, cond=cond, it=it, dl=dl: rx.generate_with_relative_time(init, cond, it, dl), exp, ("sub",))
        else:
            yield Case("generate_with_relative_time", params + ".take(%d)" % WCAP, shape,
                       lambda rx, ops, s, init=init, cond=cond, it=it, dl=dl: rx.generate_with_relative_time(init, cond, it, dl).pipe(ops.take(WCAP)),
                       exp, ("sub",))


def sub_time(seed):
    return vt.SUB + 100 * (seed % 3)


def all_cases(tier, seed):
    SUB = sub_time(seed)
    for c in catalogue(tier, seed, SUB):
        for mode in c.modes:
            yield (c, mode, SUB)


# ------------------------------------------------------------------ run + judge
def us(t):
    return round(t * 1_000_000)


def show(ev):
    return [(t, k, (repr(v) if not isinstance(v, BaseException) else f"{type(v).__name__}({v})")) for (t, k, v) in ev]


def observe(c: Case, mode, SUB):
    import reactivex as rx
    from reactivex import operators as ops

    env = vt.Env(budget=5000)
    rec = env.recorder("out")

    def cap(value, count):
        # a producer that never stops while running synchronously (no virtual scheduler in the loop to count
        # actions) must not hang the harness: BaseException, so that the library cannot swallow it
        if count > 500:
            raise vt.BudgetExceeded()

    rec.on_next_hook = cap
    sched_for_factory = env.sched if mode == "fac" else None
    env.subscribe_at(SUB, lambda: c.build(rx, ops, sched_for_factory), rec, pass_scheduler=(mode == "sub"))
    status = env.run()
    return env, rec, status


def judge(c: Case, mode, SUB):
    env, rec, status = observe(c, mode, SUB)
    act = rec.events()
    problems = []  # (what-tag, text)
    if status != "ok":
        problems.append(("budget", "run did not terminate within the action budget"))
    for (t, e) in env.sched.escaped:
        problems.append((f"escaped:{type(e).__name__}", f"{type(e).__name__}({e}) escaped into the scheduler at t={t}"))
        break
    exp = c.expected
    # sequence of (kind, value)
    seq_ok = len(act) == len(exp)
    if seq_ok:
        for (te, ke, ve), (ta, ka, va) in zip(exp, act):
            if ke != ka:
                seq_ok = False
            elif ke == "N":
                seq_ok = seq_ok and vt.norm_value(ve) == vt.norm_value(va)
            elif ke == "E":
                if isinstance(ve, tuple):  # throw('msg'): some exception object carrying the message
                    seq_ok = seq_ok and (va == ve[1] or (isinstance(va, BaseException) and str(va) == ve[1]))
                else:
                    seq_ok = seq_ok and va is ve
    if not seq_ok:
        # an exception that escaped into the scheduler is reported as such (root cause); the
        # sequence it cut short is its consequence, not a second failure class
        if not env.sched.escaped:
            problems.append(("values", f"expected {show(exp)} observed {show(act)}"))
    else:
        for (te, ke, ve), (ta, ka, va) in zip(exp, act):
            if te is not None and us(te) != us(ta):
                problems.append(("times", f"{ka}({va!r}) arrived at t={ta}, due at t={te} (subscribed at {SUB}); observed {show(act)}"))
                break
    g = rec.grammar_violation()
    if g:
        problems.append(("grammar", g))
    return problems, act


def signature(c: Case, mode, tag):
    return f"{c.factory}|{c.shape}|{tag}"


def shard(part: core.Part, shard_i, nshards, tier, seed, deadline):
    for (c, mode, SUB) in core.shard_iter(all_cases(tier, seed), shard_i, nshards):
        if part.evals % 64 == 0 and _time.time() > deadline:
            part.complete = False
            return
        problems, act = judge(c, mode, SUB)
        case = {"factory": c.factory, "params": c.params, "mode": mode, "tier": tier, "seed": seed}
        part.case((c.factory, c.params, mode), len(c.expected) >= 2, outcome=(c.factory, repr(show(act))),
                  sample=dict(case, observed=show(act)))
        part.count("factory:" + c.factory)
        seen = set()
        for (tag, text) in problems:
            sig = signature(c, mode, tag)
            if sig in seen:
                continue
            seen.add(sig)
            part.violation(sig, f"{c.factory}{c.params} [scheduler:{mode}]: {text}", case, problems=[p[1] for p in problems])


def run(ctx: core.Ctx):
    thorough = ctx.tier == "thorough"
    ctx.bounds = {
        "range_cube": "{-3..3}^3" if thorough else "{-2..2}^3",
        "generate": f"{len(G_INITS)} initial x {len(G_CONDS)} conditions x {len(G_ITERS)} iterate functions, unbounded cut by take({CAP})",
        "delay_functions": list(DELAYS),
        "subscribe_instant": sub_time(ctx.seed),
        "scheduler_modes": ["fac (factory argument)", "sub (subscribe argument)", "none (synchronous factories only)"],
    }
    ctx.assumptions = [
        "VirtualTimeScheduler queue discipline (C28/C29)",
        "ops.take is a correct cut for unbounded sequences (C05)",
        "instants are demanded only for timer and generate_with_relative_time; completion instants are not demanded",
    ]
    part = ctx.sharded(shard)
    ctx.cov["factories_covered"] = {k[8:]: n for k, n in sorted(part.counters.items()) if k.startswith("factory:")}


def replay(case):
    for (c, mode, SUB) in all_cases(case["tier"], case["seed"]):
        if c.factory == case["factory"] and c.params == case["params"] and mode == case["mode"]:
            problems, act = judge(c, mode, SUB)
            print("expected:", show(c.expected))
            print("observed:", show(act))
            return [{"signature": signature(c, mode, tag), "what": text, "detail": [p[1] for p in problems]} for (tag, text) in problems]
    print("case not found in this tier's enumeration")
    return []
