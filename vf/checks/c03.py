"""C03 Unsubscribing silences the subscriber and frees its sources (E1, bounded-exhaustive pipelines).

Enumerated completely per phase (vf/pipegen.py): every pipeline of the phase x {cold, hot}
source x every conforming timeline of catalogue.TLS (incl. the never-ending ones) x inner
policy, and for each such base case the zero-deviation run (dispose at the horizon) followed
by one run per dispose point derived from it:
  * for every distinct virtual instant t at which the zero-deviation run shows anything (a
    recorder callback, a source subscribe/dispose, a user-callback invocation, a main-source
    notification): dispose *first in t* (action queued before the sources exist), *last in t*
    (queued right after subscribe) and at t+5 (between instants);
  * dispose from inside the subscriber's k-th on_next, k <= 2;
  * dispose immediately after subscribe() returned.
Not enumerated because they are not executions of the property: a dispose before subscribe()
was called (first-in-t for the subscription instant itself), and a dispose from inside an
on_next that runs *during* subscribe() (the subscriber does not hold the subscription yet; such
on_next calls are recognised by their step being smaller than the step at which the
'after subscribe' run disposes).

Oracle (R4: "after dispose() returned" is decided on the global step counter, "at that
instant" on virtual time).  Let D be the step/instant at which the outer dispose() returned
and L the step/instant at which the last inner recorder that was live at D stopped being live
(its terminal or its own dispose; L = D when no inner recorder is live at D):
  (a) no callback of the outer recorder after D; no callback of an inner recorder after its own
      dispose() returned (policy sub1, horizon);
  (b) no user-callback (probe) invocation after L — between D and L the pipeline legitimately
      runs on behalf of the live window/group subscribers.  One exception, forced by R4: while a
      subscription that existed at L is still open because its release is asynchronous by design
      (subscribe_on disposes upstream through the scheduler, later in the same instant), callbacks
      upstream of it that run before that release lands are not counted;
  (c) every source subscription is closed no later than the instant of L (== the dispose
      instant when there is no live inner subscriber), and none is opened after that instant.
      Which subscriptions are "shared with a live inner subscriber" is not observable from
      outside, so every subscription is given the benefit of the doubt while one is live.
Hot sources: disposal must remove the observer — the source's log shows the unsubscription.
"""
from __future__ import annotations

from .. import core, pipegen as pg, vt

PROPERTY = "C03"
LEVEL = "exploration"
META = {
    "engine": "vtx",
    "technique": "bounded-exhaustive enumeration of operator pipelines (depth<=3 over the operator catalogue) x source kinds x structural "
    "timelines x inner-subscription policies x every dispose point derived from the undisturbed run (first/last in every event instant, between "
    "instants, inside the k-th on_next, right after subscribe) on virtual time; step-exact silence oracle and subscription-interval oracle",
    "text": "every enumerated pipeline is run on the real operators once per dispose point; after dispose() returned the subscriber gets nothing, "
    "no user callback runs (unless a window/group subscriber is still live) and every source subscription is closed in that instant; "
    "exhaustive within the phases listed in coverage.phases_completed",
    "note": "trusted: CPython, the harness in /verif/vf (logged sources, recorder, probes, catalogue), VirtualTimeScheduler's queue discipline (C28/C29)",
}
RULE = (
    "base cases = pipelines of the phase (d1: each catalogue entry; d2core: core x core; d2: all x core both orders; d3: core^3) x {cold,hot} x "
    "11 conforming structural timelines x inner policy {sub,sub1,none} when the last stage hands out windows/groups; per base case the "
    "undisturbed run + one run per dispose point (3 per distinct event instant, in-on_next k<=2, after-subscribe). non-trivial = dispose() was "
    "called while the outer subscriber had not received a terminal and >=1 source subscription was open; distinct = (base case, dispose point)"
)
BUDGET = {"quick": 150.0, "thorough": 900.0}
D3_TLS = ("a-E", "ab-C", "abc-never", "C-with-last")
KMAX_ON_NEXT = 2


def end_of(r):
    """(step, time) at which recorder r stopped being a live subscriber."""
    c = []
    t = r.terminal()
    if t is not None:
        c.append((t[0], t[1]))
    if r.disposed_step is not None:
        c.append((r.disposed_step, r.disposed_time))
    return min(c) if c else None


def judge(base, R):
    """-> (problems [(class, name, text)], nontrivial, outcome)"""
    rec = R.rec
    if R.status != "ok":
        return [], False, ("budget",)
    D, tD = rec.disposed_step, rec.disposed_time
    problems = []
    if D is None:  # cannot happen: the horizon disposes every recorder
        return [("harness", None, "outer recorder never disposed")], False, ("harness",)
    for r in pg.recorders(R):
        g = r.grammar_violation()
        if g and "after dispose() returned" in g:
            problems.append((("outer" if r is rec else "inner") + ":notified-after-dispose", None, g))
    L, tL, live = D, tD, 0
    for r in R.inner:
        if r is None:
            continue
        e = end_of(r)
        if e is None or e[0] > D:
            live += 1
            if e is None:
                problems.append(("harness", None, "inner recorder without an end"))
            elif e[0] > L:
                L, tL = e[0], max(tL, e[1])
    for (step, t, slot, k) in R.env.probe_log:
        if step > L:
            if any(s["sub_step"] < L and s["unsub_step"] is not None and s["unsub_step"] > step and s["unsub_time"] == tL for s in R.env.sublog):
                # R4: a release that is asynchronous by design (subscribe_on's ScheduledDisposable) lands later in the dispose instant;
                # until it has landed the upstream part is still subscribed and a source emitting in that very instant makes its
                # callbacks run.  Accepting "closed at that instant" by virtual time entails accepting these invocations.
                continue
            # same-instant: a handler that carries on after the downstream call in which the disposal happened; later: work that
            # escaped disposal (a timer, an inner subscription) and fires at a later instant
            problems.append(("callback-after-dispose:" + ("same-instant" if t == tL else "later"), slot, f"user callback {slot} (invocation {k}) runs at t={t:g} step={step}, after dispose() returned at t={tD:g} step={D}" + (f" and the last live inner subscriber ended at step={L}" if live else "")))
            break
    for s in R.env.sublog:
        if s["unsub_time"] is None:
            problems.append(("never-released", s["source"], f"subscription to {s['source']} opened at t={s['sub_time']:g} is never disposed (dispose() returned at t={tD:g})"))
        elif s["unsub_time"] > tL:
            problems.append(("released-late", s["source"], f"subscription to {s['source']} opened at t={s['sub_time']:g} is disposed at t={s['unsub_time']:g}, not at the dispose instant t={tD:g}" + (f" nor when the last live inner subscriber ended (t={tL:g})" if live else "")))
        elif s["sub_time"] > tL:
            problems.append(("opened-after-dispose", s["source"], f"subscription to {s['source']} opened at t={s['sub_time']:g}, after the dispose instant t={tL:g}"))
    term = rec.terminal()
    # D is ticked after the whole disposal ran, so subscriptions closed by it have unsub_step < D: "open when dispose() was called" is
    # counted as "opened before D and closed at the dispose instant or later"
    open_at_call = sum(1 for s in R.env.sublog if s["sub_step"] < D and (s["unsub_time"] is None or s["unsub_time"] >= tD))
    nontrivial = (term is None or term[0] > D) and open_at_call > 0
    outcome = (rec.kinds(), term is None or term[0] > D, open_at_call, live, tL - tD, tuple(sorted(set(p[0] for p in problems))))
    return problems, nontrivial, outcome


def instants(base, seed, R0):
    alpha, _ = pg.alphabet(seed)
    from .. import catalogue as cat

    ts = set()
    for r in pg.recorders(R0):
        ts.update(t for (_, t, _, _) in r.log)
    for s in R0.env.sublog:
        ts.add(s["sub_time"])
        if s["unsub_time"] is not None:
            ts.add(s["unsub_time"])
    ts.update(t for (_, t, _, _) in R0.env.probe_log)
    ts.update(vt.SUB + t for (t, _, _) in cat.TLS(*alpha)[base[2]])
    return sorted(t for t in ts if vt.SUB <= t < pg.HORIZON)


def dispose_points(base, seed, R0, Rafter):
    pts = []
    for t in instants(base, seed, R0):
        if t > vt.SUB:
            pts.append(("at", t, "first"))
        pts.append(("at", t, "last"))
        pts.append(("at", t + 5, "first"))
    sub_returned = Rafter.rec.disposed_step
    ns = [e for e in R0.rec.log if e[2] == "N"]
    for k in range(1, min(len(ns), KMAX_ON_NEXT) + 1):
        if ns[k - 1][0] > sub_returned:  # else: on_next during subscribe(): the subscriber has no subscription to dispose yet
            pts.append(("in_on_next", k))
    return pts


def signature(base, problem):
    return f"{pg.culprit(base[0], problem[1])}|{problem[0]}|{pg.unstaged(problem[1])}"


def one(part, base, seed, dev, R):
    problems, nontrivial, outcome = judge(base, R)
    d = dev.get("dispose")
    part.case((base, d), nontrivial, outcome=outcome, sample={"case": pg.descriptor(base, seed, **dev), "outer": R.rec.kinds(), "disposed_at": R.rec.disposed_time,
              "subscriptions": [(s["source"], s["sub_time"], s["unsub_time"]) for s in R.env.sublog]} if (nontrivial and d and d[0] == "at") else None)
    if R.status != "ok":
        part.count("budget_runs")
        if len(part.notes) < 3:
            part.notes.append(f"run exceeded the action budget: {pg.descriptor(base, seed, **dev)}")
    if R.drain == "budget":
        part.count("runs_with_endless_activity_after_horizon")
    part.count("dispose:" + (d[0] + (":" + d[2] if d[0] == "at" else "") if d else "horizon"))
    seen = set()
    for p in problems:
        sg = signature(base, p)
        if sg in seen:
            continue
        seen.add(sg)
        part.count("viol:" + sg + ":" + (d[0] + (":" + d[2] if d[0] == "at" else "") if d else "horizon"))
        part.violation(sg, f"{pg.pname(base[0])} over {base[1]} {base[2]} (inner policy {base[3]}, dispose {d or 'at horizon'}): {p[2]}",
                       pg.descriptor(base, seed, **dev), problems=[x[2] for x in problems])


def shard(part: core.Part, shard_i, nshards, tier, seed, deadline, phase):
    clock = pg.Clock(deadline)
    gen = pg.base_cases(phase, tl_names_by_depth={3: D3_TLS})
    for base in core.shard_iter(gen, shard_i, nshards):
        R0 = pg.run(base, seed)
        one(part, base, seed, {}, R0)
        part.count("base_cases")
        dev = {"dispose": ("after_subscribe",)}
        Ra = pg.run(base, seed, **dev)
        one(part, base, seed, dev, Ra)
        for d in dispose_points(base, seed, R0, Ra):
            if clock.expired():
                part.complete = False
                return
            dev = {"dispose": d}
            one(part, base, seed, dev, pg.run(base, seed, **dev))


def run(ctx: core.Ctx):
    phases = pg.QUICK if ctx.tier == "quick" else pg.THOROUGH
    use, skipped = pg.entries()
    ctx.bounds = {"phases": list(phases), "catalogue_entries": len(use), "core_entries": sum(1 for e in use if "core" in e.flags),
                  "sources": ["cold", "hot"], "timelines": "catalogue.TLS conforming (11); depth-3 pipelines: " + ",".join(D3_TLS),
                  "inner_policies": list(pg.POLICIES), "dispose_points": "first/last in every event instant, instant+5, in on_next k<=2, after subscribe, horizon",
                  "skipped_entries": skipped}
    ctx.assumptions = ["VirtualTimeScheduler queue discipline (checked separately by C28/C29)", "single thread / virtual time only (the statement's scope)",
                       "at most one external dispose per run"]
    pg.run_phases(ctx, shard, phases)


def replay(case):
    base, seed, dev = pg.from_descriptor(case)
    R = pg.run(base, seed, **dev)
    print("observed:", pg.show_run(R))
    problems, _, _ = judge(base, R)
    out, seen = [], set()
    for p in problems:
        if signature(base, p) not in seen:
            seen.add(signature(base, p))
            out.append({"signature": signature(base, p), "what": p[2], "detail": [x[2] for x in problems]})
    return out
