"""C25 A disposable's action runs at most once.

E2: all single-thread histories of dispose()/is_disposed reads (and scheduler runs for
ScheduledDisposable on virtual time).  E3: 2-3 threads calling dispose() once or twice each
on one Disposable / BooleanDisposable / ScheduledDisposable (over a real EventLoopScheduler
whose thread is a controlled thread), all interleavings up to the preemption bound with
line-level scheduling points in the disposable's file.
"""
from __future__ import annotations

import itertools
import time

from .. import core, hbfs, ilv, ilvrun

PROPERTY = "C25"
LEVEL = "model_checking"
META = {
    "engine": "ilv",
    "technique": "explicit-state BFS over call histories + preemption-bounded exhaustive thread-interleaving exploration of the real classes",
    "text": "for every history (depth<=k) and every interleaving (<=PB preemptions, line-level points) of 2-3 threads calling dispose(): the action runs at most "
    "once (exactly once at quiescence), is_disposed is true once any dispose() returned, BooleanDisposable only flips its flag, ScheduledDisposable disposes "
    "the wrapped resource exactly once and only from a scheduler action",
    "note": "trusted: CPython, controlled threading primitives of vf/ilv.py; preemption at lock operations and line boundaries of the focus files only",
}
RULE = (
    "E2: all histories over {dispose, read, run-scheduler} to depth k per class; E3: all tuples of thread programs (1-2 dispose calls each) for 2-3 threads per class, "
    "all schedules with <= PB preemptions; non-trivial = >=2 worker threads and >=1 context switch; distinct = (harness, schedule)"
)
BUDGET = {"quick": 200.0, "thorough": 1800.0}

KINDS = ("disposable", "boolean", "scheduled")


class H:
    def __init__(self, kind, progs):
        self.kind, self.progs = kind, progs
        self.name = f"{kind}|" + "|".join(str(n) for n in progs)
        self.sig = kind
        files = {"disposable": ["disposable/disposable.py"], "boolean": ["disposable/booleandisposable.py"],
                 "scheduled": ["disposable/scheduleddisposable.py", "disposable/singleassignmentdisposable.py"]}[kind]
        self.focus = ilv.focus_files(*files)

    def setup(self, run):
        from reactivex.disposable import BooleanDisposable, Disposable, ScheduledDisposable
        from reactivex.scheduler import EventLoopScheduler

        st = {"run": run, "n": 0, "after": [], "who": []}

        def action():
            st["n"] += 1
            me = ilv.cur()
            st["who"].append(me.name if me else "?")
            run.log("action")

        if self.kind == "disposable":
            st["d"] = Disposable(action)
        elif self.kind == "boolean":
            st["d"] = BooleanDisposable()
        else:
            st["sched"] = EventLoopScheduler()

            class Inner:
                def dispose(self_):
                    action()

            st["d"] = ScheduledDisposable(st["sched"], Inner())
        return st

    def bodies(self, st):
        def mk(n):
            def body():
                for _ in range(n):
                    st["d"].dispose()
                    st["after"].append(bool(st["d"].is_disposed))

            return body

        return [mk(n) for n in self.progs]

    def outcome(self, x):
        return (x.state["n"], tuple(x.state["after"]), tuple(x.state["who"]))

    def check(self, x):
        st = x.state
        if x.outcome != "quiescent":
            return []
        probs = []
        if self.kind == "boolean":
            if not all(st["after"]) or not st["d"].is_disposed:
                probs.append(("boolean|flag-not-set", f"is_disposed false after dispose() returned: {st['after']}"))
            return probs
        if st["n"] != 1:
            probs.append((f"{self.kind}|action-count", f"action ran {st['n']} times after {sum(self.progs)} dispose() calls"))
        if self.kind == "disposable" and not all(st["after"]):
            probs.append(("disposable|is_disposed-false-after-return", f"is_disposed read after dispose() returned: {st['after']}"))
        if self.kind == "scheduled":
            if any(w.startswith("h") or w == "main" for w in st["who"]):
                probs.append(("scheduled|disposed-on-caller-thread", f"wrapped resource disposed on {st['who']}, not on the scheduler"))
            if not st["d"].is_disposed:
                probs.append(("scheduled|not-disposed-at-quiescence", "is_disposed false at quiescence"))
        return probs


def harnesses(tier):
    hs = []
    for kind in KINDS:
        combos = [(1, 1), (1, 2), (2, 2)]
        if tier == "thorough":
            combos += [(1, 1, 1), (1, 1, 2)]
        else:
            combos += [(1, 1, 1)] if kind != "scheduled" else []
        for c in combos:
            hs.append(H(kind, c))
    return hs


def bound(tier, h):
    if tier == "quick":
        return 2 if len(h.progs) == 2 and h.kind != "scheduled" else 1
    return 3 if (len(h.progs) == 2 and h.kind != "scheduled") else 2


def e3_shard(part, shard, nshards, tier, seed, deadline):
    ilv.install()
    for i, h in enumerate(harnesses(tier)):
        if i % nshards == shard:
            ilvrun.explore_all(part, [h], 0, 1, bound(tier, h), 0, deadline)


# ------------------------------------------------------------------ E2
class W:
    pass


def e2(kind, depth, deadline):
    from .. import vt

    def build(h):
        from reactivex.disposable import BooleanDisposable, Disposable, ScheduledDisposable

        w = W()
        w.n, w.bad, w.calls, w.sync = 0, None, 0, False
        w.in_action = False

        def action():
            w.n += 1
            if kind == "scheduled" and not w.in_action:
                w.sync = True

        w.sched = None
        if kind == "disposable":
            w.d = Disposable(action)
        elif kind == "boolean":
            w.d = BooleanDisposable()
        else:
            w.sched = vt.VScheduler()

            class Inner:
                def dispose(self_):
                    action()

            w.d = ScheduledDisposable(w.sched, Inner())
        w.ran = 0
        for ev in h:
            if ev == "dispose":
                w.d.dispose()
                w.calls += 1
                if kind != "scheduled" and not w.d.is_disposed:
                    w.bad = "is_disposed false after dispose() returned"
            elif ev == "run":
                w.in_action = True
                w.sched.start()
                w.in_action = False
                w.ran += 1
            exp = (1 if w.calls else 0) if kind == "disposable" else (0 if kind == "boolean" else None)
            if exp is not None and w.n != exp:
                w.bad = f"action ran {w.n}x after {w.calls} dispose() calls"
            if kind == "scheduled":
                if w.sync:
                    w.bad = "wrapped resource disposed synchronously, not from a scheduler action"
                if w.n > 1:
                    w.bad = f"wrapped resource disposed {w.n}x"
                pending = w.calls > 0 and (ev == "run")
                if ev == "run" and w.calls and w.n != 1:
                    w.bad = f"after the scheduler ran: wrapped resource disposed {w.n}x"
                if ev == "run" and w.calls and not w.d.is_disposed:
                    w.bad = "is_disposed false after the scheduled disposal ran"
        return w

    def enabled(h, w):
        yield "dispose"
        if kind == "scheduled":
            yield "run"

    return hbfs.bfs(build, enabled, lambda w, h: w.bad, lambda w: (w.d, w.n, w.calls, [x for x in (w.sched._queue.items if w.sched else [])].__len__()), depth, deadline,
                    outcome=lambda w: (w.n, w.calls))


def e2_shard(part, shard, nshards, tier, seed, deadline):
    depth = 4 if tier == "quick" else 7
    for i, kind in enumerate(KINDS):
        if i % nshards != shard:
            continue
        r = e2(kind, depth, deadline)
        part.count("bfs_states", r.states)
        part.count("bfs_transitions", r.transitions)
        part.evals += r.transitions
        for o in r.outcomes:
            part.outcomes.add(core.h64((kind, o)))
        for s in r.samples[:1]:
            part.samples.append({"kind": kind, "history": s})
        for (h, p) in r.violations:
            part.violation(f"seq|{kind}|{p.split(' ')[0]}-{p.split(' ')[1]}", f"history {h} on {kind}: {p}", {"mode": "e2", "kind": kind, "history": h})


def run(ctx):
    ctx.bounds = {"e2_depth": 4 if ctx.tier == "quick" else 7, "e3": "2 threads PB 2, 3 threads PB 1" if ctx.tier == "quick" else "2 threads PB 3, 3 threads PB 2"}
    ctx.assumptions = ["preemption at lock operations and at line boundaries of the disposable's source file only (GIL-atomic lines)"]
    ctx.sharded(e2_shard, nshards=3)
    ctx.sharded(e3_shard, nshards=len(harnesses(ctx.tier)))
    ilvrun.finish_cov(ctx, ctx.total, ctx.total.counters.get("bfs_states", 0), ctx.total.counters.get("bfs_transitions", 0))


def replay(case):
    if case.get("mode") == "e2":
        box = {}
        real = hbfs.bfs

        def grab(build, *a, **k):
            box["w"] = build(list(case["history"]))
            return hbfs.Result()

        hbfs.bfs = grab
        try:
            e2(case["kind"], 0, None)
        finally:
            hbfs.bfs = real
        print("observed:", box["w"].bad)
        return [{"signature": "seq", "what": box["w"].bad}] if box["w"].bad else []
    ilv.install()
    for tier in ("quick", "thorough"):
        for h in harnesses(tier):
            if h.name == case["harness"]:
                return ilvrun.replay_harness(h, case)
    return []
