"""C41 Future, callback and blocking bridges keep their contracts (outcome/history enumeration).

Four families, each enumerated completely within its bound and judged by a small reference
model of the statement:

* from_future (also reached through start_async): every history of <= D events over
  {subscribe, dispose_i, set_result(v), set_exception, cancel, loop step} on a
  concurrent.futures.Future, an asyncio Future and an asyncio Task, the asyncio ones on a
  manually stepped event loop (never real time).  Model: an observer that is subscribed and
  not disposed when the future's done-callback runs sees [value, completed] / [error] /
  [CancelledError]; nothing otherwise; disposing while the future is pending cancels it.
* to_future (operator and fluent method, three future constructors, synchronous and
  virtual-time sources), `await obs` (manually stepped loop) and `obs.run()` (synchronous
  schedulers, and the default NewThreadScheduler path with *simulated* threads: the thread
  body runs when the caller blocks on the latch) over the sequences
  {empty, one, many, many ending in None, error at 0/1/2}: last element / the sequence's
  error / SequenceContainsNoElementsError.
* start / to_async on the virtual scheduler x {return, return None, raise} x 0..3
  arguments x subscription before/after the call ran: one result then completion (or the
  error), function called exactly once at invocation time.
* from_callback x callback argument lists of length 0..3 x {no mapper, mapper, raising
  mapper} x {callback called inside func, after subscribe returned, twice} x forwarded
  arguments x first/second subscription: exactly one value then completion.
"""
from __future__ import annotations

import asyncio
import concurrent.futures
import importlib
import itertools
import threading
import time

from .. import core, run_ilv, vt

PROPERTY = "C41"
LEVEL = "exploration"
META = {
    "engine": "hbfs",
    "technique": "exhaustive enumeration of bounded call histories / outcome combinations of the real bridge functions, each "
    "judged by a reference model of the stated contract; asyncio on a manually stepped loop, run() with simulated threads; plus stateless "
    "exhaustive exploration of thread interleavings (bounded preemptions) of run() blocking on its latch while a controlled thread produces the sequence",
    "text": "every history of <=D events on from_future for three future kinds, every (sequence, api, constructor/scheduler) "
    "combination for to_future/await/run, every (function outcome, arity, subscription instant) for start/to_async, every "
    "(callback arity, mapper, call pattern, subscription number) for from_callback is executed and compared with the model",
    "note": "trusted: CPython's asyncio/concurrent.futures, the harness; histories are replayed on fresh objects, no state merging "
    "(C-implemented futures are opaque to the heap canonicaliser, so plain enumeration is used instead of hbfs.bfs)",
}
META["text"] += "; thread part: run() blocking on its latch while the sequence is produced on a controlled thread (default and explicit NewThreadScheduler, Subject-driven): last element / the sequence's error / SequenceContainsNoElementsError in every interleaving up to the preemption bound"
RULE = (
    "cases = all histories of <=D events (from_future: subscribe/dispose/resolve/fail/cancel/loop-step over 3 future kinds x 2 "
    "entry points) + all outcome combinations listed in the module docstring; non-trivial = some observer/future/caller received "
    "a value, an error or a cancellation (the bridge mechanism ran); distinct = the case descriptor"
)
BUDGET = {"quick": 300.0, "thorough": 2400.0}


class FErr(Exception):
    """The exception a future / sequence / function fails with (compared by identity)."""


class WouldBlock(BaseException):
    """run() would block forever: the latch is not set and no simulated thread is runnable."""


# --------------------------------------------------------------------------- small helpers
class Rec:
    """Plain observer log: (position, kind, value)."""

    def __init__(self, clock):
        self.log, self.clock = [], clock

    def on_next(self, v):
        self.log.append((self.clock(), "N", v))

    def on_error(self, e):
        self.log.append((self.clock(), "E", e))

    def on_completed(self):
        self.log.append((self.clock(), "C", None))


def nv(v):
    return vt.norm_value(v)


def show_log(log):
    out = []
    for (p, k, v) in log:
        out.append(f"{k}@{p}" + (f"={type(v).__name__}:{v!r}" if k != "C" else ""))
    return "[" + ", ".join(out) + "]"


def step(loop, n=1):
    for _ in range(n):
        loop.call_soon(loop.stop)
        loop.run_forever()


def grammar(log):
    term = False
    for (_, k, _) in log:
        if term:
            return "notification after terminal"
        if k in "EC":
            term = True
    return None


# =========================================================================== A. from_future
def ff_histories(depth, manual, max_subs, values):
    """All event sequences enabled by the model, up to `depth` (pure: no real objects needed)."""

    def rec(h, nsub, disposed, status, scheduled):
        yield h
        if len(h) >= depth:
            return
        if nsub < max_subs:
            yield from rec(h + [("sub", nsub)], nsub + 1, disposed, status, scheduled or (manual and status != "pending"))
        for i in range(nsub):
            if i not in disposed:
                # disposing a live subscription while the future is pending cancels it (-> done, callbacks fire)
                yield from rec(h + [("dis", i)], nsub, disposed | {i}, "done", scheduled or (manual and status == "pending"))
        if status == "pending":
            for v in values:
                yield from rec(h + [("res", v)], nsub, disposed, "done", scheduled or (manual and nsub > 0))
            yield from rec(h + [("exc",)], nsub, disposed, "done", scheduled or (manual and nsub > 0))
            yield from rec(h + [("cancel",)], nsub, disposed, "done", scheduled or (manual and nsub > 0))
        if manual and scheduled:
            yield from rec(h + [("step",)], nsub, disposed, status, False)

    yield from rec([], 0, frozenset(), "pending", False)


def ff_model(hist, manual, err):
    """Expected observer logs [(pos, kind, value)] and final future status."""
    status = ("pending",)
    obs = []  # dict(disposed=bool, scheduled=bool, log=[])

    def outcome_events(pos):
        if status[0] == "res":
            return [(pos, "N", status[1]), (pos, "C", None)]
        if status[0] == "exc":
            return [(pos, "E", err)]
        return [(pos, "E", "CANCELLED")]

    def deliver(o, pos):
        if not o["disposed"] and not o["log"]:
            o["log"] = outcome_events(pos)

    def fire(pos):
        for o in obs:
            if manual:
                o["scheduled"] = True
            else:
                deliver(o, pos)

    for pos, ev in enumerate(hist):
        if ev[0] == "sub":
            o = {"disposed": False, "scheduled": False, "log": []}
            obs.append(o)
            if status[0] != "pending":
                if manual:
                    o["scheduled"] = True
                else:
                    deliver(o, pos)
        elif ev[0] == "dis":
            obs[ev[1]]["disposed"] = True
            if status[0] == "pending":
                status = ("cancelled",)
                fire(pos)
        elif ev[0] == "res":
            status = ("res", ev[1])
            fire(pos)
        elif ev[0] == "exc":
            status = ("exc",)
            fire(pos)
        elif ev[0] == "cancel":
            status = ("cancelled",)
            fire(pos)
        elif ev[0] == "step":
            for o in obs:
                if o["scheduled"]:
                    o["scheduled"] = False
                    deliver(o, pos)
    end = len(hist)
    for o in obs:  # final flush
        if o["scheduled"]:
            o["scheduled"] = False
            deliver(o, end)
    return [o["log"] for o in obs], status


def ff_run(case):
    import reactivex

    kind, manual, entry, hist = case["kind"], case["stepping"] == "manual", case["entry"], [tuple(e) for e in case["history"]]
    err = FErr("future failed")
    pos = [0]
    loop = None
    inner = None
    try:
        if kind == "concurrent":
            fut = concurrent.futures.Future()
        else:
            loop = asyncio.new_event_loop()
            if kind == "asyncio":
                fut = loop.create_future()
            else:  # task awaiting an inner future
                inner = loop.create_future()

                async def coro():
                    return await inner

                fut = loop.create_task(coro())
                step(loop, 3)
        src = reactivex.from_future(fut) if entry == "from_future" else reactivex.start_async(lambda: fut)
        recs, subs, raised = [], [], []

        def settle():
            if loop is not None and not manual:
                step(loop, 6)

        for p, ev in enumerate(hist):
            pos[0] = p
            try:
                if ev[0] == "sub":
                    r = Rec(lambda: pos[0])
                    recs.append(r)
                    subs.append(src.subscribe(r))
                elif ev[0] == "dis":
                    subs[ev[1]].dispose()
                elif ev[0] == "res":
                    (inner or fut).set_result(ev[1])
                elif ev[0] == "exc":
                    (inner or fut).set_exception(err)
                elif ev[0] == "cancel":
                    fut.cancel()
                elif ev[0] == "step":
                    step(loop)
            except Exception as e:  # nothing in these histories may raise into the caller
                raised.append((p, ev, e))
            settle()
        pos[0] = len(hist)
        if loop is not None:
            step(loop, 6)
        if not fut.done():
            status = ("pending",)
        elif fut.cancelled():
            status = ("cancelled",)
        elif fut.exception() is not None:
            status = ("exc",)
        else:
            status = ("res", fut.result())
        return [list(r.log) for r in recs], status, raised, err
    finally:
        if loop is not None:
            if inner is not None:
                if not fut.done():
                    fut.cancel()
                    step(loop, 3)
                if inner.done() and not inner.cancelled():
                    inner.exception()
            loop.close()


def same_value(a, b):
    return nv(a) == nv(b)


def ff_compare(exp, act, err):
    """First mismatch between an expected and an observed observer log, as (symptom, text), or None."""
    for i in range(max(len(exp), len(act))):
        if i >= len(act):
            return ("missing-" + {"N": "value", "C": "completion", "E": "error"}[exp[i][1]], f"expected {exp[i][1]} at position {exp[i][0]}, observed nothing more")
        if i >= len(exp):
            return ("unexpected-" + {"N": "value", "C": "completion", "E": "error"}[act[i][1]], f"unexpected {act[i][1]} at position {act[i][0]}")
        (ep, ek, ev), (ap, ak, av) = exp[i], act[i]
        if ek != ak:
            return (f"{ak}-instead-of-{ek}", f"expected {ek}, observed {ak} ({av!r})")
        if ek == "N" and not same_value(ev, av):
            return ("wrong-value", f"expected {ev!r}, observed {av!r}")
        if ek == "E":
            if ev == "CANCELLED":
                if not isinstance(av, (asyncio.CancelledError, concurrent.futures.CancelledError)):
                    return ("wrong-error", f"expected a CancelledError, observed {av!r}")
            elif av is not err:
                return ("wrong-error", f"expected the future's exception, observed {av!r}")
        if ep != ap:
            return ("wrong-moment", f"{ek} expected at history position {ep}, observed at {ap}")
    return None


def ff_judge(case):
    manual = case["stepping"] == "manual"
    hist = [tuple(e) for e in case["history"]]
    logs, status, raised, err = ff_run(case)
    exp_logs, exp_status = ff_model(hist, manual, err)
    problems = []
    base = f"from_future|{case['kind']}"
    for (p, ev, e) in raised:
        problems.append((f"{base}|{ev[0]}-raises", f"{ev} at position {p} raised {e!r} into the caller"))
    for i, (e, a) in enumerate(zip(exp_logs, logs)):
        m = ff_compare(e, a, err)
        if m:
            cls = "after-dispose" if any(ev == ("dis", i) for ev in hist) else "subscribed"
            problems.append((f"{base}|observer-{cls}|{m[0]}", f"observer {i}: {m[1]}; expected {show_log(e)} observed {show_log(a)}"))
        g = grammar(a)
        if g:
            problems.append((f"{base}|grammar", f"observer {i}: {g}: {show_log(a)}"))
    if exp_status[0] != status[0] or (status[0] == "res" and not same_value(status[1], exp_status[1])):
        problems.append((f"{base}|future-state|{exp_status[0]}-expected", f"future expected {exp_status}, observed {status}"))
    nontrivial = any(logs) or (status[0] == "cancelled" and any(ev[0] == "dis" for ev in hist))
    outcome = (case["kind"], [show_log(l) for l in logs], status[0])
    return problems, nontrivial, outcome


def ff_bounds(tier):
    """(max observers, depth for synchronous delivery, depth with explicit loop steps, #result values).
    With n observers a history has at most n subscribes + n disposes + 1 resolution, so depth 2n+1 exhausts the
    synchronous space; explicit steps add up to one step after each of those events."""
    return (2, 5, 8, 2) if tier == "quick" else (3, 7, 10, 3)


def ff_cases(tier, seed):
    b = 1 + 10 * (seed % 4)
    nobs, d_sync, d_manual, nvals = ff_bounds(tier)
    values = (b, None, 0)[:nvals]
    for entry in ("from_future", "start_async"):
        for kind, stepping in (("concurrent", "sync"), ("asyncio", "manual"), ("asyncio", "drain"), ("task", "drain")):
            d = d_manual if stepping == "manual" else d_sync
            for h in ff_histories(d, stepping == "manual", nobs, values):
                yield {"part": "from_future", "entry": entry, "kind": kind, "stepping": stepping, "history": [list(e) for e in h]}


# =========================================================================== B. to_future / await / run
def sequences(seed):
    b = 1 + 10 * (seed % 4)
    return {
        "empty": ([], "C"),
        "one": ([b], "C"),
        "many": ([b, b + 1, b + 2], "C"),
        "many-none-last": ([b, None], "C"),
        "many-falsy": ([b, 0], "C"),
        "error@0": ([], "E"),
        "error@1": ([b], "E"),
        "error@2": ([b, b + 1], "E"),
    }


def sync_source(vals, term, err):
    import reactivex

    if term == "C":
        return reactivex.empty() if not vals else reactivex.of(*vals)
    if not vals:
        return reactivex.throw(err)
    return reactivex.concat(reactivex.of(*vals), reactivex.throw(err))


def expected_outcome(vals, term):
    if term == "E":
        return ("error",)
    if not vals:
        return ("no-elements",)
    return ("value", vals[-1])


def classify(kind, payload, err):
    """Observed ('value', v) | ('raised', exc) -> comparable outcome."""
    from reactivex.internal.exceptions import SequenceContainsNoElementsError

    if kind == "value":
        return ("value", payload)
    if payload is err:
        return ("error",)
    if isinstance(payload, SequenceContainsNoElementsError) or payload is SequenceContainsNoElementsError:
        return ("no-elements",)
    return ("other-exception", repr(payload))


def outcome_mismatch(exp, act):
    if exp[0] != act[0]:
        return f"{act[0]}-instead-of-{exp[0]}"
    if exp[0] == "value" and not same_value(exp[1], act[1]):
        return "wrong-value"
    return None


def future_outcome(fut, err):
    if not fut.done():
        return ("pending",)
    if fut.cancelled():
        return ("cancelled",)
    e = fut.exception()
    if e is not None:
        return classify("raised", e, err)
    return ("value", fut.result())


def tf_judge(case):
    from reactivex import operators as ops

    vals, term = sequences(case["seed"])[case["seq"]]
    err = FErr("sequence failed")
    exp = expected_outcome(vals, term)
    problems = []
    base = "to_future"  # api / constructor / source kind are in the case, not in the signature (one defect = one signature)
    loop = asyncio.new_event_loop()
    asyncio.set_event_loop(loop)
    try:
        ctor = {"default": None, "concurrent": concurrent.futures.Future, "loop": loop.create_future}[case["ctor"]]

        def apply(src):
            if case["api"] == "ops":
                return src.pipe(ops.to_future(ctor)) if ctor else src.pipe(ops.to_future())
            return src.to_future(ctor) if ctor else src.to_future()

        if case["source"] == "sync":
            fut = apply(sync_source(vals, term, err))
            step(loop, 2)
            act = future_outcome(fut, err)
            m = outcome_mismatch(exp, act)
            if m:
                problems.append((f"{base}|{case['seq'].split('@')[0]}|{m}", f"expected {exp}, future holds {act}"))
            observed = act
        else:
            env = vt.Env(budget=2000)
            tl = [(10 * (i + 1), "N", v) for i, v in enumerate(vals)] + [(10 * (len(vals) + 1), term, err if term == "E" else None)]
            t_term = tl[-1][0]
            src = env.cold("src", tl)
            fut = apply(src)  # subscribes now (virtual time 0)
            probes = {}
            for t in (t_term - 1, t_term + 1):
                env.at(t, lambda t=t: probes.__setitem__(t, fut.done()))
            env.run(200)
            step(loop, 2)
            act = future_outcome(fut, err)
            m = outcome_mismatch(exp, act)
            if m:
                problems.append((f"{base}|{case['seq'].split('@')[0]}|{m}", f"expected {exp}, future holds {act}"))
            if probes.get(t_term - 1) is not False:
                problems.append((f"{base}|settled-before-terminal", f"future done before the source terminated at {t_term}: {probes}"))
            elif probes.get(t_term + 1) is not True:
                problems.append((f"{base}|not-settled-at-terminal", f"future not done right after the terminal at {t_term}: {probes}"))
            observed = (act, sorted(probes.items()))
        if fut.done() and not fut.cancelled():
            fut.exception()
        return problems, True, ("to_future", case["api"], case["ctor"], case["seq"], repr(observed))
    finally:
        asyncio.set_event_loop(None)
        loop.close()


def aw_judge(case):
    vals, term = sequences(case["seed"])[case["seq"]]
    err = FErr("sequence failed")
    exp = expected_outcome(vals, term)
    loop = asyncio.new_event_loop()
    try:
        src = sync_source(vals, term, err)
        box = []

        async def main():
            try:
                box.append(("value", await src))
            except BaseException as e:  # noqa: the awaited error, whatever its base class
                box.append(("raised", e))

        task = loop.create_task(main())
        for _ in range(60):
            step(loop)
            if task.done():
                break
        problems = []
        if not task.done():
            task.cancel()
            step(loop, 3)
            act = ("never-resolves",)
        else:
            act = classify(*box[0], err)
        m = outcome_mismatch(exp, act)
        if m:
            problems.append((f"await|{case['seq'].split('@')[0]}|{m}", f"expected {exp}, await gave {act}"))
        return problems, True, ("await", case["seq"], repr(act))
    finally:
        loop.close()


class _SimThreads:
    """Simulated threads for run(): start() queues the body; it runs when the caller blocks on the latch.
    (Running the body inside start() is not possible: EventLoopScheduler starts its thread while holding
    its non-reentrant condition lock.)"""

    def __init__(self):
        self.pending, self.started = [], 0

    def factory(self, target, *a, **kw):
        sim = self

        class T:
            daemon = True
            name = "sim"

            def start(self_inner):
                sim.started += 1
                sim.pending.append(target)

            def join(self_inner, timeout=None):
                return None

            def is_alive(self_inner):
                return False

        return T()


def _patched_run_module(sim):
    """Replace reactivex.run's threading.Event by one that never really blocks."""
    mod = importlib.import_module("reactivex.run")
    real = getattr(mod, "threading", None)
    if real is None:
        return mod, None, None

    class GuardEvent(threading.Event):
        def wait(self, timeout=None):
            while not self.is_set():
                if sim is None or not sim.pending:
                    raise WouldBlock()
                sim.pending.pop(0)()
            return True

    class Shim:
        Event = GuardEvent

        def __getattr__(self, name):
            return getattr(real, name)

    mod.threading = Shim()
    return mod, real, GuardEvent


def run_judge(case):
    from reactivex.scheduler import CurrentThreadScheduler, ImmediateScheduler, NewThreadScheduler

    vals, term = sequences(case["seed"])[case["seq"]]
    err = FErr("sequence failed")
    exp = expected_outcome(vals, term)
    mode = case["sched"]
    sim = _SimThreads() if "sim" in mode else None
    mod, real, _ = _patched_run_module(sim)
    if real is None:
        return [("run|harness", "reactivex.run has no `threading` attribute to guard: harness needs updating")], False, ("run", "unguarded")
    old_default = getattr(mod, "_default_scheduler", None)
    try:
        src = sync_source(vals, term, err)
        if mode == "immediate":
            args = (ImmediateScheduler(),)
        elif mode == "current-thread":
            args = (CurrentThreadScheduler(),)
        elif mode.startswith("new-thread-sim"):
            args = (NewThreadScheduler(thread_factory=sim.factory),)
        else:  # default-sim: run() without a scheduler, the module's default NewThreadScheduler with simulated threads
            mod._default_scheduler = NewThreadScheduler(thread_factory=sim.factory)
            args = ()
        try:
            act = classify("value", src.run(*args), err)
        except WouldBlock:
            act = ("blocks-forever",)
        except Exception as e:
            act = classify("raised", e, err)
        problems = []
        m = outcome_mismatch(exp, act)
        if m:
            problems.append((f"run|{case['seq'].split('@')[0]}|{m}", f"scheduler {mode}: expected {exp}, run() gave {act}"))
        if sim is not None and sim.started == 0:
            problems.append((f"run|{mode}|harness-no-thread", "the simulated thread factory was never used: harness assumption broken"))
        return problems, True, ("run", mode, case["seq"], repr(act))
    finally:
        mod.threading = real
        if old_default is not None:
            mod._default_scheduler = old_default


def tf_cases(tier, seed):
    seqs = list(sequences(seed))
    for seq in seqs:
        for api in ("ops", "fluent"):
            for ctor in ("default", "concurrent", "loop"):
                for source in ("sync", "cold"):
                    yield {"part": "to_future", "api": api, "ctor": ctor, "source": source, "seq": seq, "seed": seed}
        yield {"part": "await", "seq": seq, "seed": seed}
        for sched in ("immediate", "current-thread", "default-sim", "new-thread-sim"):
            yield {"part": "run", "sched": sched, "seq": seq, "seed": seed}


# =========================================================================== C. start / to_async
def sa_cases(tier, seed):
    b = 1 + 10 * (seed % 4)
    arg_lists = [[], [b], [b, None], [b, "x", 0]]
    for api in ("start", "to_async"):
        for fn in ("return", "return-none", "raise"):
            for args in (arg_lists if api == "to_async" else [[]]):
                for create in ("outside-run", "inside-run"):
                    for subs in (["same-action"], ["later"], ["same-action", "later"], ["later", "later2"]):
                        for invocations in ((1, 2) if api == "to_async" and tier != "quick" else (1,)):
                            yield {"part": "start", "api": api, "fn": fn, "args": args, "create": create, "subs": subs, "invocations": invocations}


def sa_judge(case):
    import reactivex

    env = vt.Env(budget=2000)
    err = FErr("function failed")
    calls = []

    def func(*a):
        calls.append((env.sched._clock, a))
        if case["fn"] == "raise":
            raise err
        return None if case["fn"] == "return-none" else ("result", a)

    T0 = 100.0
    recs = []
    created_at = []

    def create():
        outs = []
        for _ in range(case["invocations"]):
            if case["api"] == "start":
                outs.append(reactivex.start(func, env.sched))
            else:
                outs.append(reactivex.to_async(func, env.sched)(*case["args"]))
        created_at.append(env.sched._clock)
        for k, o in enumerate(outs):
            for s in case["subs"]:
                r = env.recorder(f"inv{k}:{s}")
                recs.append((k, s, r))
                if s == "same-action":
                    r.subscription = o.subscribe(r, scheduler=env.sched)
                else:
                    env.subscribe_at(T0 + (50 if s == "later" else 70), o, r)

    if case["create"] == "outside-run":
        create()  # virtual time 0, scheduler not running yet: the function must run when the scheduler runs
        t_exec = 0.0
    else:
        env.at(T0, create)
        t_exec = T0
    env.run(400)
    problems = []
    base = f"{case['api']}|fn={case['fn']}"
    args = tuple(case["args"]) if case["api"] == "to_async" else ()
    if len(calls) != case["invocations"] or any(a != args for (_, a) in calls):
        problems.append((f"{base}|function-calls", f"function expected to be called {case['invocations']}x with {args!r}; calls={calls!r}"))
    elif any(t != t_exec for (t, _) in calls):
        problems.append((f"{base}|function-call-time", f"function expected to run at {t_exec} (invocation time, not subscription); calls={calls!r}"))
    for (k, s, r) in recs:
        t_sub = t_exec if s == "same-action" else T0 + (50 if s == "later" else 70)
        t = max(t_exec, t_sub)
        if case["fn"] == "raise":
            exp = [(t, "E", err)]
        else:
            exp = [(t, "N", None if case["fn"] == "return-none" else ("result", args)), (t, "C", None)]
        act = r.events()
        sym = None
        for i in range(max(len(exp), len(act))):
            if i >= len(act):
                sym = "missing-" + {"N": "value", "C": "completion", "E": "error"}[exp[i][1]]
            elif i >= len(exp):
                sym = "unexpected-" + {"N": "value", "C": "completion", "E": "error"}[act[i][1]]
            elif exp[i][1] != act[i][1]:
                sym = f"{act[i][1]}-instead-of-{exp[i][1]}"
            elif exp[i][1] == "N" and not same_value(exp[i][2], act[i][2]):
                sym = "wrong-value"
            elif exp[i][1] == "E" and act[i][2] is not err:
                sym = "wrong-error"
            elif exp[i][0] != act[i][0]:
                sym = "wrong-time"
            if sym:
                break
        if sym:
            problems.append((f"{base}|subscriber-{'before' if s == 'same-action' else 'after'}-execution|{sym}", f"invocation {k} subscriber {s}: expected {exp!r}, observed {act!r}"))
        g = r.grammar_violation()
        if g:
            problems.append((f"{base}|grammar", g))
    if env.sched.escaped:
        problems.append((f"{base}|escaped", f"exception escaped into the scheduler: {env.sched.escaped[0][1]!r}"))
    outcome = (case["api"], case["fn"], [[(t, k) for (t, k, v) in r.events()] for (_, _, r) in recs], len(calls))
    return problems, bool(calls), outcome


# =========================================================================== D. from_callback
def cb_cases(tier, seed):
    b = 1 + 10 * (seed % 4)
    cb_args = [[], [b], [None], [b, "y"], [b, None, 0]]
    if tier != "quick":
        cb_args += [[[]], [(b, b)], [0], ["s", "t", "u", "v"]]
    fwd = [[], ["f1"], ["f1", None]]
    for mapper in ("none", "tag", "raises") + (("returns-none",) if tier != "quick" else ()):
        for ca in cb_args:
            for pattern in ("inside-func", "after-subscribe", "twice"):
                for fa in (fwd if tier != "quick" else fwd[:2]):
                    for nsubs in (1, 2):
                        yield {"part": "from_callback", "mapper": mapper, "cb_args": ca, "pattern": pattern, "fwd": fa, "subscriptions": nsubs}


def cb_judge(case):
    import reactivex

    err = FErr("mapper failed")
    cb_args = tuple(case["cb_args"])
    second_args = tuple(("again", a) for a in cb_args)  # same arity, other values
    received = []  # what func was called with (minus the callback)
    stored = []
    raised_into_caller = []

    def call(cb, args):
        try:
            cb(*args)
        except Exception as e:
            raised_into_caller.append(e)

    def func(*a):
        *fwd, cb = a
        received.append(tuple(fwd))
        if not callable(cb):
            raise TypeError("func did not receive a callback as its last argument")
        if case["pattern"] == "inside-func":
            call(cb, cb_args)
        elif case["pattern"] == "twice":
            call(cb, cb_args)
            call(cb, second_args)
        else:
            stored.append(cb)

    mapper = {
        "none": None,
        "tag": lambda args: ("mapped", tuple(args)),
        "returns-none": lambda args: None,
        "raises": lambda args: (_ for _ in ()).throw(err),
    }[case["mapper"]]
    pos = [0]
    obs = reactivex.from_callback(func, mapper)(*case["fwd"]) if mapper is not None else reactivex.from_callback(func)(*case["fwd"])
    recs = []
    sub_errors = []
    for k in range(case["subscriptions"]):
        pos[0] = k
        r = Rec(lambda: pos[0])
        recs.append(r)
        try:
            obs.subscribe(r)
        except Exception as e:
            sub_errors.append((k, e))
        if case["pattern"] == "after-subscribe":
            while stored:
                call(stored.pop(0), cb_args)
    problems = []
    nargs = "nargs=0" if not cb_args else "nargs>=1"
    cfg = {"none": f"no-mapper|{nargs}", "tag": "mapper", "returns-none": "mapper", "raises": "mapper-raises"}[case["mapper"]]
    for k, r in enumerate(recs):
        act = r.log
        if k > 0:
            # a further subscription is an independent execution: it must observe what the first one observed
            # (the first one is judged against the contract; this keeps one defect = one signature)
            first = [(kk, nv(v)) for (_, kk, v) in recs[0].log]
            this = [(kk, nv(v)) for (_, kk, v) in act]
            if first != this:
                problems.append((f"from_callback|resubscribe|differs-from-first-subscription", f"subscription {k} observed {show_log(act)}, the first one {show_log(recs[0].log)}"))
            continue
        base = f"from_callback|{cfg}"
        sym = text = None
        if case["mapper"] == "raises":
            if len(act) < 1 or act[0][1] != "E":
                sym, text = "missing-error", "expected on_error(the mapper's exception)"
            elif act[0][2] is not err:
                sym, text = "wrong-error", f"expected the mapper's exception, observed {act[0][2]!r}"
            elif len(act) > 1:
                sym, text = "unexpected-after-error", "notification after on_error"
        else:
            if len(act) < 1 or act[0][1] != "N":
                sym, text = "value", "expected exactly one value first"
            else:
                v = act[0][2]
                if case["mapper"] == "tag":
                    ok = same_value(v, ("mapped", cb_args))
                elif case["mapper"] == "returns-none":
                    ok = v is None
                elif len(cb_args) == 0:
                    ok = v is None or (isinstance(v, (list, tuple)) and len(v) == 0)
                elif len(cb_args) == 1:
                    ok = same_value(v, cb_args[0]) or (isinstance(v, (list, tuple)) and len(v) == 1 and same_value(v[0], cb_args[0]))
                else:
                    ok = isinstance(v, (list, tuple)) and nv(tuple(v)) == nv(cb_args)
                if not ok:
                    sym, text = "wrong-value", f"value {v!r} does not represent the callback arguments {cb_args!r}"
                elif len(act) < 2 or act[1][1] != "C":
                    sym, text = "completion", "expected completion right after the single value"
                elif len(act) > 2:
                    sym, text = "unexpected-after-completion", "notification after completion"
        if sym:
            problems.append((f"{base}|{sym}", f"subscription {k}: {text}; observed {show_log(act)}; raised into the callback's caller: {raised_into_caller!r}"))
    if not problems and raised_into_caller:
        problems.append((f"from_callback|{cfg}|raises-into-caller", f"the callback raised {raised_into_caller[0]!r} into its caller"))
    if not problems and sub_errors:
        problems.append((f"from_callback|{cfg}|subscribe-raises", f"subscribe raised {sub_errors[0][1]!r}"))
    for k, got in enumerate(received):
        if got != tuple(case["fwd"]):
            where = "forwarded-arguments" if k == 0 else "resubscribe|forwarded-arguments"
            problems.append((f"from_callback|{where}", f"subscription {k}: func expected to receive {tuple(case['fwd'])!r} + one callback, received {len(got) + 1} arguments: {got!r} + callback"))
            break
    outcome = ("from_callback", case["mapper"], len(cb_args), case["pattern"], [show_log(r.log) for r in recs])
    return problems, any(r.log for r in recs), outcome


# =========================================================================== driver
JUDGES = {"from_future": ff_judge, "to_future": tf_judge, "await": aw_judge, "run": run_judge, "start": sa_judge, "from_callback": cb_judge}


def all_cases(tier, seed):
    # cheap families first so that a deadline cut never hides them
    yield from tf_cases(tier, seed)
    yield from sa_cases(tier, seed)
    yield from cb_cases(tier, seed)
    yield from ff_cases(tier, seed)


def judge(case):
    return JUDGES[case["part"]](case)


def shard(part: core.Part, shard_i, nshards, tier, seed, deadline):
    import logging
    import warnings

    logging.getLogger("asyncio").setLevel(logging.CRITICAL)
    warnings.simplefilter("ignore", DeprecationWarning)
    for case in core.shard_iter(all_cases(tier, seed), shard_i, nshards):
        if part.evals % 128 == 0 and time.time() > deadline:
            part.complete = False
            return
        problems, nontrivial, outcome = judge(case)
        part.case(core.jsonable(case), nontrivial, outcome=outcome, sample={"case": case, "observed": core.jsonable(outcome)})
        part.count("part:" + case["part"])
        for (sig, text) in problems:
            part.violation(sig, text, case)


def run(ctx: core.Ctx):
    q = ctx.tier == "quick"
    ctx.bounds = {
        "from_future_history_depth": {"sync/drain": ff_bounds(ctx.tier)[1], "manual-step": ff_bounds(ctx.tier)[2]},
        "future_kinds": ["concurrent.futures.Future", "asyncio.Future (manual step)", "asyncio.Future (drained)", "asyncio.Task (drained)"],
        "max_observers": ff_bounds(ctx.tier)[0],
        "result_values": ff_bounds(ctx.tier)[3],
        "sequences": list(sequences(ctx.seed)),
        "to_future": "2 apis x 3 constructors x {sync, virtual-time cold}",
        "run_schedulers": ["immediate", "current-thread", "default (NewThreadScheduler with simulated threads)", "explicit NewThreadScheduler (simulated threads)"],
        "start_to_async": "3 function outcomes x arity 0..3 x created outside/inside the scheduler run x 4 subscription patterns" + ("" if q else " x 1..2 invocations"),
        "from_callback": "callback arity 0..3" + ("" if q else " (+nested/falsy/4)") + " x mapper {none, tag, raises" + ("" if q else ", returns-none") + "} x {inside-func, after-subscribe, twice} x forwarded args x 1..2 subscriptions",
    }
    ctx.assumptions = [
        "asyncio/concurrent.futures behave as documented (callbacks via call_soon / synchronously)",
        "run() enumeration part: real threads are replaced by simulated ones whose body runs when the caller blocks on the latch; preemptive interleavings of run() are explored by the E3 part",
    ]
    # E3 part first, always in forked workers: it rebinds threading inside reactivex, which must not leak into the
    # enumeration part (which installs its own simulated threads in whatever process it runs in)
    all_workers = ctx.workers
    ctx.workers = max(2, min(all_workers, 12))
    run_ilv.run_part(ctx)
    # quick is < 1 s of work, thorough ~10 s: a wide fork pool costs more than it saves on a busy machine
    ctx.workers = 1 if q else min(all_workers, 4)
    part = ctx.sharded(shard)
    ctx.cov["cases_per_family"] = {k[5:]: v for k, v in sorted(part.counters.items()) if k.startswith("part:")}


def replay(case):
    import logging

    if isinstance(case, dict) and str(case.get("harness", "")).startswith("run-blocking|"):
        return run_ilv.replay(case)
    logging.getLogger("asyncio").setLevel(logging.CRITICAL)
    problems, nontrivial, outcome = judge(case)
    print("case    :", case)
    print("observed:", outcome)
    return [{"signature": s, "what": t, "detail": {}} for (s, t) in problems]
