"""C27 RefCountDisposable releases its resource only after all dependents.

E2: BFS over all single-thread histories of get / dispose-dependent(j) / dispose-primary.
E3: 2-3 threads (primary disposer + dependants doing get;dispose or double dispose), all
interleavings up to the preemption bound with line-level points in refcountdisposable.py;
oracle on the recorded call/return history: released at most once; never before the
primary dispose() was called nor before every dependent handed out earlier had its dispose()
called; released at quiescence when primary and all handed-out dependents were disposed.
"""
from __future__ import annotations

import itertools
import time

from .. import core, hbfs, ilv, ilvrun, tlabind

PROPERTY = "C27"
LEVEL = "model_checking"
META = {
    "engine": "ilv",
    "technique": "explicit-state BFS over call histories + preemption-bounded exhaustive thread-interleaving exploration with a linearizability oracle on the real RefCountDisposable",
    "text": "for every history (depth<=k) and every interleaving (<=PB preemptions, line-level points) of 2-3 threads: the underlying resource is disposed at most once, "
    "exactly when the primary and every handed-out dependent have been disposed (by the call that completes that condition), double dispose of a dependent counts once, "
    "dependents obtained after release are inert",
    "note": "trusted: CPython, controlled threading primitives of vf/ilv.py; preemption at lock operations and line boundaries of refcountdisposable.py only",
}
RULE = (
    "E2: all histories over {get, ddispose(j), pdispose} to depth k; E3: all assignments of thread programs from {P, G D, G D D, D0, D0 D0, G, G G D D ...} to 2-3 threads "
    "with 0-1 dependents handed out in the prologue, all schedules with <= PB preemptions; non-trivial = >=2 worker threads and >=1 context switch"
)
BUDGET = {"quick": 240.0, "thorough": 2400.0}


class Model:
    def __init__(self):
        self.primary = False
        self.released = False
        self.live: set = set()
        self.inert: set = set()
        self.dead: set = set()

    def copy(self):
        m = Model()
        m.primary, m.released = self.primary, self.released
        m.live, m.inert, m.dead = set(self.live), set(self.inert), set(self.dead)
        return m

    def apply(self, op, dep):
        """returns True iff this op releases the underlying resource"""
        if op == "get":
            (self.inert if self.released else self.live).add(dep)
            return False
        if op == "pdispose":
            if not self.primary:
                self.primary = True
                if not self.live and not self.released:
                    self.released = True
                    return True
            return False
        if op == "ddispose":
            if dep in self.live:
                self.live.discard(dep)
                self.dead.add(dep)
                if self.primary and not self.live and not self.released:
                    self.released = True
                    return True
            return False
        raise ValueError(op)


# programs: sequences of ops; 'G<k>' get into slot k of the thread, 'D<k>' dispose own slot k, 'S' dispose shared pre-handed dependent, 'P' primary dispose
PROGS_Q = [("P",), ("G0", "D0"), ("S",), ("S", "S"), ("G0", "D0", "D0"), ("P", "P"), ("G0",)]
PROGS_T = PROGS_Q + [("G0", "G1", "D0", "D1"), ("G0", "P", "D0"), ("S", "G0", "D0")]


class H:
    def __init__(self, pre, progs):
        self.pre, self.progs = pre, progs
        self.name = f"refcount|pre={pre}|" + "||".join(",".join(p) for p in progs)
        self.sig = "refcount"
        self.focus = ilv.focus_files("disposable/refcountdisposable.py")
        self.sync_log = True  # lock acquisitions per function, for the trace-inclusion binding to RefCount.tla

    def setup(self, run):
        from reactivex.disposable import RefCountDisposable

        st = {"run": run, "n": 0, "calls": [], "release_in": []}
        cur_call = {}
        st["cur_call"] = cur_call

        class Under:
            def dispose(self_):
                st["n"] += 1
                me = ilv.cur()
                st["release_in"].append(cur_call.get(me.tid))
                run.log("underlying-dispose")
                if run.sync_log is not None:
                    run.sync_log.append((me.tid, "ud", 0, "harness"))

        st["r"] = RefCountDisposable(Under())
        st["shared"] = None
        m = Model()
        if self.pre:
            st["shared"] = st["r"].disposable
            m.apply("get", "shared")
        st["model0"] = m
        return st

    def bodies(self, st):
        run = st["run"]

        def mk(ti, prog):
            def body():
                slots = {}
                me = ilv.cur()
                for oi, op in enumerate(prog):
                    if op == "P":
                        mop, dep = "pdispose", None
                    elif op == "S":
                        mop, dep = "ddispose", "shared"
                    elif op[0] == "G":
                        mop, dep = "get", f"t{ti}s{op[1]}"
                    else:
                        mop, dep = "ddispose", f"t{ti}s{op[1]}"
                    rec = {"op": mop, "dep": dep, "call": len(run.events), "id": (ti, oi)}
                    st["cur_call"][me.tid] = (ti, oi)
                    run.log("call", mop, dep)
                    if mop == "pdispose":
                        st["r"].dispose()
                    elif mop == "get":
                        slots[op[1]] = st["r"].disposable
                    elif dep == "shared":
                        if st["shared"] is not None:
                            st["shared"].dispose()
                    else:
                        slots[op[1]].dispose()
                    rec["ret"] = len(run.events)
                    run.log("ret", mop, dep)
                    st["cur_call"][me.tid] = None
                    st["calls"].append(rec)

            return body

        return [mk(i, p) for i, p in enumerate(self.progs)]

    def outcome(self, x):
        return (x.state["n"], tuple(x.state["release_in"]))

    def check(self, x):
        st = x.state
        if x.outcome != "quiescent":
            return []
        if getattr(self, "part", None) is not None and not getattr(x, "_bound", False):
            x._bound = True
            bind(self.part, x)
        calls = st["calls"]
        n = len(calls)
        if st["n"] > 1:
            return [("refcount|released-twice", f"underlying disposed {st['n']} times; calls={[(c['id'], c['op'], c['dep']) for c in calls]}")]
        ev = x.events
        U = next((i for i, e in enumerate(ev) if e[2] == "underlying-dispose"), None)
        pcalls = [c for c in calls if c["op"] == "pdispose"]
        gets = [c for c in calls if c["op"] == "get"]
        deps = {c["dep"]: c for c in gets}
        if self.pre:
            deps["shared"] = {"call": -2, "ret": -1, "dep": "shared"}
        first_dd = {}
        for c in calls:
            if c["op"] == "ddispose":
                first_dd.setdefault(c["dep"], c)
                if c["call"] < first_dd[c["dep"]]["call"]:
                    first_dd[c["dep"]] = c
        desc = f"calls={[(c['id'], c['op'], c['dep']) for c in calls]}"
        if U is not None:
            if not any(c["call"] < U for c in pcalls):
                return [("refcount|released-before-primary-dispose", f"underlying disposed before the primary dispose() was called; {desc}")]
            # the release is decided somewhere inside the call during which the resource is disposed:
            # only dependents handed out before that call *started* are certainly earlier than the release
            rid = st["release_in"][0]
            rcall = next((c for c in calls if c["id"] == rid), None)
            rstart = rcall["call"] if rcall else U
            for d, g in deps.items():
                if g["ret"] < rstart and not (d in first_dd and first_dd[d]["call"] < U):
                    return [("refcount|released-before-dependent-disposed", f"underlying disposed while dependent {d} (handed out earlier) was not yet disposed; {desc}")]
        else:
            if pcalls and all(d in first_dd for d in deps):
                return [("refcount|never-released", f"primary and every handed-out dependent were disposed but the underlying was not; {desc}")]
        return []


GRAPH = None
LABEL = {
    "RefCountDisposable.dispose": "PDLock",
    "RefCountDisposable.disposable": "Get",
    "RefCountDisposable.InnerDisposable.dispose": "InnerLock",
    "RefCountDisposable.release": "RelLock",
}
BIND_T, BIND_D = 4, 3


def project(x):
    """Implementation trace -> model labels (None if the execution is outside the bound configuration)."""
    names, labels, gets = {}, [], 0
    for (tid, kind, _obj, where) in x.sync_log or ():
        if kind == "ud":
            lab = "UD"
        elif kind == "acq" and where in LABEL:
            lab = LABEL[where]
        else:
            continue
        if tid not in names:
            names[tid] = len(names) + 1
        gets += lab == "Get"
        labels.append(f"{lab}({names[tid]})")
    if len(names) > BIND_T or gets > BIND_D:
        return None
    return labels


def bind(part, x):
    if GRAPH is None:
        return
    labels = project(x)
    if labels is None:
        part.count("tla_outside_bound_config")
        return
    ok, at = GRAPH.accepts(labels, lambda l: l.startswith(("PDStart", "RelPre")))
    part.count("tla_traces_accepted" if ok else "tla_traces_rejected")
    if not ok and len(part.notes) < 3:
        part.notes.append(f"RefCount.tla rejects implementation trace {labels} at position {at} (model/code structure mismatch; verdict rests on the direct oracle)")


def harnesses(tier):
    progs = PROGS_Q if tier == "quick" else PROGS_T
    hs = []
    for pre in (False, True):
        ps = [p for p in progs if pre or "S" not in p]
        for a, b in itertools.combinations_with_replacement(ps, 2):
            hs.append(H(pre, (a, b)))
        # three threads: primary + two dependants
        deps = [p for p in ps if "P" not in p]
        for a, b in itertools.combinations_with_replacement(deps[:4] if tier == "quick" else deps, 2):
            hs.append(H(pre, (("P",), a, b)))
    return hs


def bound(tier, h):
    if tier == "quick":
        return 1
    return 2


def e3_shard(part, shard, nshards, tier, seed, deadline, dot_path=None):
    global GRAPH
    ilv.install()
    if dot_path and GRAPH is None:
        GRAPH = tlabind.Graph(open(dot_path).read())
    for i, h in enumerate(harnesses(tier)):
        if i % nshards == shard:
            h.part = part
            ilvrun.explore_all(part, [h], 0, 1, bound(tier, h), 0, deadline)
    if GRAPH is not None:
        for e in GRAPH.used:
            part.counters["tla_edge:%x" % core.h64(e)] = 1
        GRAPH.used = set()


class W:
    pass


def e2(depth, deadline, only=None):
    def build(h):
        from reactivex.disposable import RefCountDisposable

        w = W()
        w.n, w.bad = 0, None

        class Under:
            def dispose(self_):
                w.n += 1

        w.r = RefCountDisposable(Under())
        w.m = Model()
        w.deps = []
        for ev in h:
            if ev[0] == "get":
                w.deps.append(w.r.disposable)
                w.m.apply("get", len(w.deps) - 1)
            elif ev[0] == "pdispose":
                w.r.dispose()
                w.m.apply("pdispose", None)
            else:
                w.deps[ev[1]].dispose()
                w.m.apply("ddispose", ev[1])
            exp = 1 if w.m.released else 0
            if w.n != exp and w.bad is None:
                w.bad = f"after {ev}: underlying disposed {w.n}x, model says {exp}x"
        return w

    if only is not None:
        return build(only)

    def enabled(h, w):
        if len(w.deps) < 3:
            yield ("get",)
        for j in range(len(w.deps)):
            yield ("ddispose", j)
        yield ("pdispose",)

    return hbfs.bfs(build, enabled, lambda w, h: w.bad, lambda w: (w.r, w.deps, w.n), depth, deadline, outcome=lambda w: (w.n, len(w.deps), w.m.primary))


def e2_shard(part, shard, nshards, tier, seed, deadline):
    r = e2(6 if tier == "quick" else 9, deadline)
    part.count("bfs_states", r.states)
    part.count("bfs_transitions", r.transitions)
    part.evals += r.transitions
    part.complete = part.complete and r.complete
    for o in r.outcomes:
        part.outcomes.add(core.h64(o))
    for s in r.samples[:1]:
        part.samples.append({"history": s})
    for (h, p) in r.violations:
        part.violation(f"seq|refcount|{h[-1][0]}", f"history {h}: {p}", {"mode": "e2", "history": h})


def run(ctx):
    ctx.bounds = {"e2_depth": 6 if ctx.tier == "quick" else 9, "e3": "2-3 threads, PB 1" if ctx.tier == "quick" else "2-3 threads, PB 2"}
    ctx.assumptions = ["preemption at lock operations and at line boundaries of refcountdisposable.py only (GIL-atomic lines)"]
    ctx.sharded(e2_shard, nshards=1)
    # E4: TLC over all interleavings of the abstract model, then the labelled graph of the small configuration for binding
    import os
    import tempfile

    T, D = (3, 3) if ctx.tier == "quick" else (3, 4)
    cfg = tempfile.NamedTemporaryFile("w", suffix=".cfg", dir=tlabind.TLA_DIR, delete=False)
    cfg.write(f"CONSTANTS T = {T}\n          D = {D}\nINIT Init\nNEXT Next\nINVARIANTS TypeOK AtMostOnce OnlyAfterAll DecidedOnlyAfterAll CountIsLive ReleasedAtQuiescence\n")
    cfg.close()
    dot_file = None
    try:
        ver = tlabind.tlc_run("RefCount.tla", os.path.basename(cfg.name), workers=max(1, min(8, ctx.workers)))
        bnd = tlabind.tlc_run("RefCount.tla", "RefCount_bind.cfg", dump=True)
    finally:
        os.unlink(cfg.name)
    model_edges = 0
    if bnd["dot"]:
        g = tlabind.Graph(bnd["dot"])
        model_edges = g.nedges
        f = tempfile.NamedTemporaryFile("w", suffix=".dot", delete=False)
        f.write(bnd["dot"])
        f.close()
        dot_file = f.name
    if not ver["ok"]:
        ctx.total.violation("tla|RefCount.tla-invariant-violated", "TLC reports an invariant violation in RefCount.tla (the abstract model, not the code): " + ver["tail"][-600:], {"mode": "tla"})
    try:
        ctx.sharded(e3_shard, extra=(dot_file,), nshards=len(harnesses(ctx.tier)))
    finally:
        if dot_file:
            os.unlink(dot_file)
    ilvrun.finish_cov(ctx, ctx.total, ctx.total.counters.get("bfs_states", 0) + ver["distinct"], ctx.total.counters.get("bfs_transitions", 0) + ver["states_generated"])
    edges = [k for k in ctx.total.counters if k.startswith("tla_edge:")]
    acc, rej = ctx.total.counters.get("tla_traces_accepted", 0), ctx.total.counters.get("tla_traces_rejected", 0)
    ctx.cov["tla"] = {
        "model": "vf/tla/RefCount.tla", "tlc_config": f"T={T} threads, D={D} dependents, unbounded operation order", "tlc_ok": ver["ok"],
        "tlc_distinct_states": ver["distinct"], "tlc_states_generated": ver["states_generated"], "tlc_depth": ver["depth"],
        "binding_config": "T=4, D=3", "binding_graph_states": bnd["distinct"], "binding_graph_edges": model_edges,
        "impl_traces_accepted": acc, "impl_traces_rejected": rej, "impl_traces_outside_binding_config": ctx.total.counters.get("tla_outside_bound_config", 0),
        "model_edges_exercised_by_impl_traces": len(edges), "model_bound": bool(acc and not rej),
    }
    for k in edges:
        del ctx.total.counters[k]
    ctx.cov["traces_validated_against_impl"] = ctx.cov.get("traces_validated_against_impl", 0)


def replay(case):
    if case.get("mode") == "e2":
        w = e2(0, None, only=[tuple(e) for e in case["history"]])
        print("observed:", w.bad)
        return [{"signature": "seq|refcount", "what": w.bad}] if w.bad else []
    ilv.install()
    for tier in ("quick", "thorough"):
        for h in harnesses(tier):
            if h.name == case["harness"]:
                return ilvrun.replay_harness(h, case)
    return []
