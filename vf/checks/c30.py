"""C30 Trampoline scheduling is same-thread, FIFO and never nested.

Single thread (under the controlled clock so that timed entries block on the controlled
Condition): every tree of nested schedule / schedule_relative(0|1|2) / cancel calls with
<= N nodes on TrampolineScheduler, CurrentThreadScheduler() and the per-thread singleton,
compared with a (due, sequence) reference queue.  Two threads: each using the current-thread
scheduler (independence) and both sharing one TrampolineScheduler (seriality, order,
no-early-run, no lost action), all interleavings up to the preemption bound with line-level
points in trampoline.py / trampolinescheduler.py.
"""
from __future__ import annotations

import itertools
import time

from .. import core, ilv, ilvrun

PROPERTY = "C30"
LEVEL = "model_checking"
META = {
    "engine": "ilv",
    "technique": "exhaustive enumeration of nested scheduling trees on one controlled thread against a (due,sequence) reference queue + preemption-bounded exhaustive interleaving exploration of two threads",
    "text": "every tree (<=N nodes) of nested schedule/schedule_relative/cancel on the trampoline and current-thread schedulers runs its actions on the scheduling thread, one at a time, never nested, "
    "in (due, first-scheduled) order, never before due on the controlled clock, cancelled ones never; two threads with their own current-thread schedulers are independent; two threads "
    "sharing one TrampolineScheduler never run two actions at once, never early, and lose no action",
    "note": "trusted: CPython, controlled primitives of vf/ilv.py; preemption at sync operations and line boundaries of trampoline.py/trampolinescheduler.py/currentthreadscheduler.py",
}
RULE = (
    "single thread: all ordered trees with <=N nodes (N=4 quick, 5 thorough) whose nodes are schedule/relative(0|1|2), optional cancel of the latest pending child, x 3 scheduler kinds, "
    "1 execution each (+ tick deviations in thorough); two threads: pairs of small trees x {own current-thread scheduler, shared TrampolineScheduler}, all schedules with <= PB preemptions; "
    "non-trivial = >=2 actions ran; distinct = (harness, schedule)"
)
BUDGET = {"quick": 300.0, "thorough": 3000.0}

DELAY = {"S": 0.0, "R0": 0.0, "R1": 1.0, "R2": 2.0}


def trees(n):
    """All ordered forests' single trees with exactly n nodes; node = (op, (children...))."""
    if n == 0:
        return
    for op in DELAY:
        if n == 1:
            yield (op, ())
            continue
        for kids in forests(n - 1):
            yield (op, kids)


def forests(n):
    if n == 0:
        yield ()
        return
    for k in range(1, n + 1):
        for t in trees(k):
            for rest in forests(n - k):
                yield (t,) + rest


def with_cancels(tree, budget=1):
    """Variants of a tree where some node cancels its most recently scheduled child ('X' marker after it)."""
    yield tree
    op, kids = tree
    if budget and kids:
        for i in range(len(kids)):
            yield (op, kids[: i + 1] + ("X",) + kids[i + 1:])
        # 'Y' inside a child: when that child runs it cancels its next sibling (scheduled after it by the same parent,
        # typically waiting in the same batch of due items)
        for i in range(len(kids) - 1):
            c_op, c_kids = kids[i]
            yield (op, kids[:i] + ((c_op, c_kids + ("Y",)),) + kids[i + 1:])


def tname(t):
    if t in ("X", "Y"):
        return t
    op, kids = t
    return op + ("(" + ",".join(tname(k) for k in kids) + ")" if kids else "")


def size(t):
    return 0 if t in ("X", "Y") else 1 + sum(size(k) for k in t[1])


class H:
    allow_thread_errors = False

    def __init__(self, kind, progs, shared):
        self.kind, self.progs, self.shared = kind, progs, shared  # progs: per thread a tuple of root trees
        self.name = f"tramp|{kind}|shared={int(shared)}|" + "||".join(";".join(tname(t) for t in p) for p in progs)
        self.sig = "trampoline" if kind == "trampoline" else "currentthread"
        # one TrampolineScheduler object = one trampoline for all its callers; one CurrentThreadScheduler object keeps a
        # trampoline *per calling thread* ("separate trampoline and queue"), so sharing the object shares no queue
        self.shared_tramp = shared and kind == "trampoline"
        self.focus = ilv.focus_files("scheduler/trampoline.py", "scheduler/trampolinescheduler.py", "scheduler/currentthreadscheduler.py")

    def setup(self, run):
        from reactivex.scheduler import CurrentThreadScheduler, TrampolineScheduler

        st = {"run": run, "acts": [], "sched": [], "depth": {}, "inside": 0, "overlap": []}
        if self.kind == "trampoline":
            st["mk"] = (lambda s=TrampolineScheduler(): s) if self.shared else TrampolineScheduler
        elif self.kind == "currentthread":
            st["mk"] = (lambda s=CurrentThreadScheduler(): s) if self.shared else CurrentThreadScheduler
        else:
            st["mk"] = CurrentThreadScheduler.singleton
        return st

    def bodies(self, st):
        run = st["run"]

        def mk(ti, roots):
            def body():
                me = ilv.cur()
                sch = st["mk"]()
                counter = [0]

                def schedule(on, node, path, sibs=None, my=0):
                    op, kids = node
                    nid = f"t{ti}:{path}"
                    rec = {"nid": nid, "op": op, "delay": DELAY[op], "clock": run.clock, "idx": len(run.events), "cancelled": None, "t": ti}
                    st["sched"].append(rec)

                    def action(s, state=None):
                        cur = ilv.cur()
                        st["depth"][cur.tid] = st["depth"].get(cur.tid, 0) + 1
                        if st["inside"]:
                            st["overlap"].append(nid)
                        st["inside"] += 1
                        st["acts"].append({"nid": nid, "clock": run.clock, "idx": len(run.events), "thread": cur.tid, "nested": st["depth"][cur.tid] > 1, "t": ti})
                        run.log("start", nid)
                        last = None
                        ci = 0
                        mine = []
                        for k in kids:
                            if k == "X":
                                if last is not None:
                                    last[1].dispose()
                                    last[0]["cancelled"] = {"idx": len(run.events), "clock": run.clock}
                                    run.log("cancel", last[0]["nid"])
                            elif k == "Y":
                                if sibs is not None and my + 1 < len(sibs):
                                    nxt = sibs[my + 1]
                                    nxt[1].dispose()
                                    if nxt[0]["cancelled"] is None:
                                        nxt[0]["cancelled"] = {"idx": len(run.events), "clock": run.clock}
                                    run.log("cancel-sibling", nxt[0]["nid"])
                            else:
                                last = schedule(s, k, f"{path}.{ci}", mine, ci)
                                mine.append(last)
                                ci += 1
                        ilv.point("in-action", voluntary=True)
                        run.log("end", nid)
                        st["inside"] -= 1
                        st["depth"][cur.tid] -= 1

                    run.log("schedule", nid, op)
                    if op == "S":
                        d = on.schedule(action)
                    else:
                        d = on.schedule_relative(DELAY[op], action)
                    return (rec, d)

                for ri, root in enumerate(roots):
                    schedule(sch, root, str(ri))

            return body

        return [mk(i, p) for i, p in enumerate(self.progs)]

    def outcome(self, x):
        return tuple((a["nid"], a["clock"]) for a in x.state["acts"])

    def nontrivial(self, x):
        return len(x.state["acts"]) >= 2

    def expected_single(self, roots):
        """(due, seq) reference queue for one thread with no tick deviations."""
        import heapq

        clock = 0.0
        order = []
        seq = [0]

        def drain(q):
            nonlocal clock
            while q:
                due, _, nid, node, cancelled = heapq.heappop(q)
                if cancelled[0]:
                    clock = max(clock, due)  # never runs, but the drain still waits for its due time before it returns
                    continue
                clock = max(clock, due)
                order.append((nid, clock))
                op, kids = node[0], node[1]
                sibflags, my = node[2], node[3]
                last = None
                ci = 0
                mine = []
                for k in kids:
                    if k == "X":
                        if last is not None:
                            last[0] = True
                    elif k == "Y":
                        if sibflags is not None and my + 1 < len(sibflags):
                            sibflags[my + 1][0] = True
                    else:
                        flag = [False]
                        seq[0] += 1
                        heapq.heappush(q, (clock + DELAY[k[0]], seq[0], f"{nid}.{ci}", (k[0], k[1], mine, ci), flag))
                        mine.append(flag)
                        last = flag
                        ci += 1

        for ri, root in enumerate(roots):
            q = []
            seq[0] += 1
            heapq.heappush(q, (clock + DELAY[root[0]], seq[0], f"t0:{ri}", (root[0], root[1], None, 0), [False]))
            drain(q)
        return order

    def check(self, x):
        st = x.state
        if x.outcome != "quiescent":
            return []
        P = []
        sig = self.sig
        acts, sched = st["acts"], {r["nid"]: r for r in st["sched"]}
        ticked = any(t[0] == -1 for t in x.trace)
        by_t = {}
        for a in acts:
            by_t.setdefault(a["t"], []).append(a)
        tids = {t.name: t.tid for t in x.threads}
        for a in acts:
            r = sched[a["nid"]]
            if a["nested"]:
                P.append((f"{sig}|nested-action", f"{a['nid']} started while another action of the same thread was running"))
            if a["clock"] < r["clock"] + r["delay"]:
                P.append((f"{sig}|ran-before-due", f"{a['nid']} ({r['op']}) scheduled at clock {r['clock']} started at {a['clock']}"))
            if r["cancelled"] and r["cancelled"]["idx"] < a["idx"]:
                P.append((f"{sig}|cancelled-action-ran", f"{a['nid']} was cancelled before it started but ran"))
            if not self.shared_tramp and a["thread"] != tids.get(f"h{a['t'] + 1}"):
                P.append((f"{sig}|ran-on-other-thread", f"{a['nid']} scheduled by thread {a['t']} ran on thread id {a['thread']}"))
        nids = [a["nid"] for a in acts]
        if len(set(nids)) != len(nids):
            P.append((f"{sig}|action-ran-twice", f"{nids}"))
        for nid, r in sched.items():
            if not r["cancelled"] and nid not in nids:
                P.append((f"{sig}|action-lost", f"{nid} ({r['op']}) was scheduled, never cancelled, and never ran (shared={self.shared_tramp})"))
        if self.shared_tramp and st["overlap"]:
            P.append((f"{sig}|two-actions-at-once", f"{st['overlap']} started while another action was running on the shared trampoline"))
        # order
        if len(self.progs) == 1 and not ticked:
            exp = self.expected_single(self.progs[0])
            got = [(a["nid"], a["clock"]) for a in acts]
            if got != exp and not P:
                P.append((f"{sig}|order", f"ran {got}, reference (due, first-scheduled) order gives {exp}"))
        else:
            # per scheduling thread (own trampoline) / globally (shared): among two items pending together the
            # one with strictly smaller due interval, or the same thread's earlier one with equal delay base, runs first
            groups = [acts] if self.shared_tramp else list(by_t.values())
            for g in groups:
                for i, a in enumerate(g):
                    for b in g[i + 1:]:
                        ra, rb = sched[a["nid"]], sched[b["nid"]]
                        # b ran after a although b was pending (scheduled) before a started and strictly earlier due
                        if rb["idx"] < a["idx"] and rb["clock"] + rb["delay"] < ra["clock"] + ra["delay"] and not ticked and ra["idx"] < a["idx"]:
                            if not (self.shared_tramp and ra["t"] != rb["t"]):
                                P.append((f"{sig}|order", f"{b['nid']} (due {rb['clock'] + rb['delay']}) was pending with {a['nid']} (due {ra['clock'] + ra['delay']}) but ran after it"))
        return P[:3]


def harnesses(tier):
    hs = []
    N = 4 if tier == "quick" else 5
    kinds = ("trampoline", "currentthread", "singleton")
    singles = []
    for n in range(1, N + 1):
        for t in trees(n):
            if n == 5:
                singles.append(t)  # 14 336 plain trees of 5 nodes; the 57 344 cancel variants of that size are beyond any budget
                continue
            for v in with_cancels(t):
                singles.append(v)
    for kind in kinds:
        for t in singles:
            # the three kinds share one Trampoline implementation: the largest trees are run on the TrampolineScheduler only
            if kind != "trampoline" and size(t) > (3 if tier == "quick" else 4):
                continue
            hs.append(H(kind, ((t,),), False))
        # two roots scheduled one after the other from outside
        for a, b in itertools.product([t for t in singles if size(t) <= 2], repeat=2):
            if tier == "quick" and size(a) + size(b) > 3:
                continue
            hs.append(H(kind, ((a, b),), False))
    small = [t for t in singles if size(t) <= 2 and "X" not in t[1] and not any(k not in ("X", "Y") and "Y" in k[1] for k in t[1])]
    pairs = list(itertools.combinations_with_replacement(small if tier == "thorough" else [t for t in small if t[0] in ("S", "R1")], 2))
    for a, b in pairs:
        # pairs of more than 3 nodes have thousands of line-level points per execution: PB 1 alone is beyond any budget
        if size(a) + size(b) > 3:
            continue
        hs.append(H("singleton", ((a,), (b,)), False))
        hs.append(H("trampoline", ((a,), (b,)), True))
        if tier == "thorough":
            hs.append(H("currentthread", ((a,), (b,)), True))
    return hs


def small_pair(h):
    return sum(size(t) for p in h.progs for t in p) <= 3


def bounds(tier, h):
    """(PB, TB).  A clock-tick deviation is possible at every scheduling point, so TB 1 multiplies the number of executions
    by the (large) number of line-level points: it is kept for the small harnesses only."""
    nodes = sum(size(t) for p in h.progs for t in p)
    if len(h.progs) == 1:
        return (0, 0) if tier == "quick" else ((0, 1) if nodes <= 2 else (0, 0))
    if tier == "quick":
        return (1, 0)
    # two threads, thorough: pairs of 3 nodes with PB 1; pairs of 2 nodes with PB 2 (a clock tick on top of PB 2 multiplies
    # the ~10^4 schedules of such a pair by its ~120 points)
    return (2, 0) if nodes <= 2 else (1, 0)


def shard(part, shard_i, nshards, tier, seed, deadline):
    ilv.install()
    for i, h in enumerate(harnesses(tier)):
        if (i + seed) % nshards == shard_i:
            PB, TB = bounds(tier, h)
            ilvrun.explore_all(part, [h], 0, 1, PB, TB, deadline, horizon=20.0)


def run(ctx):
    hs = harnesses(ctx.tier)
    ctx.bounds = {"tree_nodes": 4 if ctx.tier == "quick" else 5, "two_threads(PB,TB)": (1, 0) if ctx.tier == "quick" else "pairs of 3 nodes (1, 0); pairs of 2 nodes (2, 0)", "single_thread(PB,TB)": "(0, 1) up to 2 nodes, (0, 0) above", "harnesses": len(hs)}
    ctx.assumptions = ["controlled clock; Condition.wait(timeout) = blocked until notified or clock >= deadline", "preemption at sync operations and line boundaries of the trampoline files"]
    ctx.sharded(shard, nshards=min(len(hs), max(1, ctx.workers) * 8))
    ilvrun.finish_cov(ctx, ctx.total)


def replay(case):
    ilv.install()
    for tier in ("quick", "thorough"):
        for h in harnesses(tier):
            if h.name == case["harness"]:
                return ilvrun.replay_harness(h, case)
    return []
