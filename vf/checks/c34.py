"""C34 Real-time schedulers never run an action early or after cancellation.

E3 with a controlled clock: Timeout (controlled threading.Timer), NewThread, ThreadPool
(controlled executor) and EventLoop schedulers; one scheduling thread performs every set of
<= 2 schedules from {relative 0|1|2, absolute now+1} with an optional cancel right away or
at clock 1; all interleavings up to the preemption / tick bounds.  ImmediateScheduler is
enumerated sequentially (synchronous run, WouldBlockException for every positive delay).
"""
from __future__ import annotations

import datetime
import itertools
import time

from .. import core, ilv, ilvrun

PROPERTY = "C34"
LEVEL = "model_checking"
META = {
    "engine": "ilv",
    "technique": "preemption- and clock-tick-bounded exhaustive interleaving exploration of the real Timeout/NewThread/ThreadPool/EventLoop schedulers under a controlled clock; sequential enumeration for ImmediateScheduler",
    "text": "for every program of <=2 relative/absolute schedules with optional cancellation and every interleaving of the scheduling thread with timer/worker threads (<=PB preemptions, "
    "<=TB early clock ticks): no action starts before its due time on the scheduler clock, none starts if its disposable was disposed before the due time, each runs at most once and "
    "accepted uncancelled actions run by quiescence; ImmediateScheduler runs synchronously and raises WouldBlockException for positive delays",
    "note": "trusted: CPython, controlled primitives of vf/ilv.py (Timer = thread waiting on its finished event, as in the stdlib); the clock is the explorer's variable: properties are decided for the library's logic, not for OS timer accuracy",
}
RULE = (
    "4 scheduler kinds x programs of 1-2 schedules from {R0,R1,R2,A1} x cancel option per schedule {none, at once, at clock 1} (quick: 1 schedule all options + selected 2-schedule programs); "
    "all schedules within (PB,TB); non-trivial = >=1 context switch between scheduling thread and a worker/timer thread; plus ImmediateScheduler grid"
)
BUDGET = {"quick": 300.0, "thorough": 3000.0}

KINDS = ("timeout", "newthread", "threadpool", "eventloop")
FOCUS = {
    "timeout": ["scheduler/timeoutscheduler.py"],
    "newthread": ["scheduler/newthreadscheduler.py"],
    "threadpool": ["scheduler/threadpoolscheduler.py", "scheduler/newthreadscheduler.py"],
    "eventloop": ["scheduler/eventloopscheduler.py"],
}


class H:
    allow_thread_errors = False

    def __init__(self, kind, prog):
        self.kind, self.prog = kind, prog  # prog: tuple of (op, cancel) with cancel in ('-', '0', '1')
        self.name = f"{kind}|" + ",".join(f"{o}{c}" for o, c in prog)
        self.sig = kind
        self.focus = ilv.focus_files(*FOCUS[kind])

    def setup(self, run):
        from reactivex import scheduler as S

        st = {"run": run, "calls": [], "acts": {}}
        if self.kind == "timeout":
            st["sch"] = S.TimeoutScheduler()
        elif self.kind == "newthread":
            st["sch"] = S.NewThreadScheduler()
        elif self.kind == "threadpool":
            st["sch"] = S.ThreadPoolScheduler(2)
        else:
            st["sch"] = S.EventLoopScheduler()
        return st

    def bodies(self, st):
        run, sch = st["run"], st["sch"]

        def body():
            later = []
            for i, (op, cancel) in enumerate(self.prog):
                aid = f"a{i}"
                delay = {"R0": 0.0, "R1": 1.0, "R2": 2.0, "A1": 1.0}[op]

                def action(s, state=None, aid=aid):
                    me = ilv.cur()
                    st["acts"].setdefault(aid, []).append({"clock": run.clock, "idx": len(run.events), "harness": me.harness})
                    run.log("start", aid)
                    ilv.point("in-action", voluntary=True)
                    run.log("end", aid)

                rec = {"aid": aid, "op": op, "delay": delay, "call_clock": run.clock, "cancel": None}
                run.log("call", op, aid)
                if op == "A1":
                    d = sch.schedule_absolute(sch.now + datetime.timedelta(seconds=1), action)
                else:
                    d = sch.schedule_relative(delay, action) if op != "R0" or i % 2 else sch.schedule(action)
                rec["ret_clock"] = run.clock
                run.log("ret", op, aid)
                st["calls"].append(rec)
                if cancel == "0":
                    d.dispose()
                    rec["cancel"] = {"clock": run.clock, "idx": len(run.events)}
                    run.log("cancelled", aid)
                elif cancel == "1":
                    later.append((rec, d))
            if later:
                if run.clock < 1.0:
                    run.block(ilv.cur(), lambda: False, 1.0, "sleep")
                for rec, d in later:
                    d.dispose()
                    rec["cancel"] = {"clock": run.clock, "idx": len(run.events)}
                    run.log("cancelled", rec["aid"])

        return [body]

    def outcome(self, x):
        return tuple(sorted((a, len(v)) for a, v in x.state["acts"].items()))

    def check(self, x):
        st = x.state
        if x.outcome != "quiescent":
            return []
        P = []
        for c in st["calls"]:
            runs = st["acts"].get(c["aid"], [])
            due_lo = c["call_clock"] + c["delay"]
            if len(runs) > 1:
                P.append((f"{self.kind}|action-ran-twice", f"{c['aid']} ran {len(runs)} times"))
            for r in runs:
                if r["clock"] < due_lo:
                    P.append((f"{self.kind}|ran-before-due", f"{c['aid']} ({c['op']}) scheduled at clock {c['call_clock']} started at clock {r['clock']}"))
                if r["harness"]:
                    P.append((f"{self.kind}|ran-on-caller-thread", f"{c['aid']} ran synchronously on the scheduling thread"))
                if c["cancel"] and c["cancel"]["clock"] < due_lo and r["idx"] > c["cancel"]["idx"]:
                    P.append((f"{self.kind}|ran-after-cancel-before-due", f"{c['aid']} ({c['op']}) cancelled at clock {c['cancel']['clock']} < due {due_lo} but started at clock {r['clock']}"))
            if not runs and not c["cancel"]:
                P.append((f"{self.kind}|action-never-ran", f"{c['aid']} ({c['op']}) accepted, never cancelled, never ran"))
        return P[:3]


def harnesses(tier):
    hs = []
    ops = ("R0", "R1", "R2", "A1")
    cancels = ("-", "0", "1")
    for kind in KINDS:
        for op in ops:
            for c in cancels:
                hs.append(H(kind, ((op, c),)))
        if tier == "quick":
            two = [(("R1", "-"), ("R0", "-")), (("R2", "1"), ("R1", "-")), (("R1", "0"), ("R1", "-")), (("A1", "1"), ("R0", "0"))]
        else:
            two = [((a, ca), (b, cb)) for a in ops for b in ops for ca in cancels for cb in cancels]
        for p in two:
            hs.append(H(kind, p))
    return hs


def bounds(tier, h=None):
    n = len(h.prog) if h is not None else 1
    if tier == "quick":
        return (1, 1) if n == 1 else (1, 0)
    return (2, 1) if n == 1 else (1, 1)


def immediate_grid(part):
    from reactivex.internal.exceptions import WouldBlockException
    from reactivex.scheduler import ImmediateScheduler

    sch = ImmediateScheduler()
    for form in ("schedule", "relative", "absolute"):
        for delay in (-1.0, 0.0, 0.000001, 1.0, datetime.timedelta(0), datetime.timedelta(seconds=1), datetime.timedelta(microseconds=1)):
            ran = []
            exc = None
            try:
                if form == "schedule":
                    sch.schedule(lambda s, st=None: ran.append(1))
                elif form == "relative":
                    sch.schedule_relative(delay, lambda s, st=None: ran.append(1))
                else:
                    d = delay if isinstance(delay, datetime.timedelta) else datetime.timedelta(seconds=delay)
                    sch.schedule_absolute(sch.now + d, lambda s, st=None: ran.append(1))
            except WouldBlockException:
                exc = "WouldBlock"
            secs = delay.total_seconds() if isinstance(delay, datetime.timedelta) else delay
            positive = form != "schedule" and secs > 0
            case = {"mode": "immediate", "form": form, "delay": repr(delay)}
            part.case(("immediate", form, repr(delay)), True, outcome=(bool(ran), exc))
            if form == "absolute" and 0 < secs < 0.01:
                continue  # now + 1us may already be past when the scheduler re-reads the real clock: no claim
            if positive and (exc != "WouldBlock" or ran):
                part.violation("immediate|positive-delay-not-rejected", f"ImmediateScheduler {form}({delay!r}) ran={bool(ran)} exc={exc}", case)
            if not positive and (exc or len(ran) != 1):
                part.violation("immediate|not-synchronous", f"ImmediateScheduler {form}({delay!r}) ran={len(ran)} exc={exc}", case)


def shard(part, shard_i, nshards, tier, seed, deadline):
    ilv.install()
    if shard_i == 0:
        immediate_grid(part)
    for i, h in enumerate(harnesses(tier)):
        if (i + seed) % nshards == shard_i:
            PB, TB = bounds(tier, h)
            ilvrun.explore_all(part, [h], 0, 1, PB, TB, deadline, horizon=6.0)


def run(ctx):
    ctx.bounds = {"one_schedule(PB,TB)": bounds(ctx.tier), "two_schedules(PB,TB)": (1, 0) if ctx.tier == "quick" else (1, 1), "harnesses": len(harnesses(ctx.tier))}
    ctx.assumptions = ["controlled clock (explorer variable) replaces datetime.now for Scheduler.now", "Timer modelled as in the stdlib: wait(interval) on its finished event, then run unless cancelled"]
    ctx.sharded(shard, nshards=min(len(harnesses(ctx.tier)), max(1, ctx.workers) * 6))
    ilvrun.finish_cov(ctx, ctx.total)


def replay(case):
    if case.get("mode") == "immediate":
        p = core.Part()
        immediate_grid(p)
        return [{"signature": v["signature"], "what": v["what"]} for v in p.violations if v["case"] == case]
    ilv.install()
    for tier in ("quick", "thorough"):
        for h in harnesses(tier):
            if h.name == case["harness"]:
                return ilvrun.replay_harness(h, case)
    return []
