"""C12 Switching forwards only the latest inner sequence (E1, bounded-exhaustive).

Enumerated completely per tier: every operator form of the switch family x every outer
timeline (<=K inner arrivals spread / in one instant / mixed, so that inner lifetimes
overlap the next arrival, end exactly in it, or end before it; outer completes in the
instant of the last arrival, of the latest inner's element, of its completion, late, errors,
or never terminates) x every tuple of inner timelines from a structural set (cold:
synchronous, short, long, erroring - i.e. errors in stale and in current inners -, never
ending, empty, terminal with the last element; hot inners).  Oracle: `seqref.SwitchModel`
explored over every order of simultaneous events (R3): an inner element is forwarded iff its
inner is the latest one, the previous inner's subscription is closed in the instant the next
arrives, completion iff the outer completed and the latest inner completed, errors of the
current inner and of the outer terminate.
"""
from __future__ import annotations

import itertools
import time

from .. import core, seqref, switch_ilv, vt
from . import c11

PROPERTY = "C12"
LEVEL = "exploration"
META = {
    "engine": "vtx",
    "technique": "bounded-exhaustive enumeration of (switch-family operator form, outer timeline, inner timelines) on virtual time "
    "against a nondeterministic switch reference simulator closed over all orders of simultaneous events; plus stateless exhaustive exploration of thread interleavings (bounded preemptions) with the outer sequence and the inners emitting from their own threads",
    "text": "switch_latest, switch_map (mapper and default identity), switch_map_indexed and flat_map_latest are run on every outer "
    "timeline with <=K inner arrivals and every tuple of inner timelines of the structural set (overlapping lifetimes, errors in stale "
    "and current inners, outer completion before/with/after the latest inner); the recorded output and the inner subscription log "
    "(each inner subscribed in its arrival instant, closed in the instant its successor arrives or it terminates) must be a member of "
    "the reference's closure ('as soon as' is judged by virtual instant, rule R4); exhaustive within the stated bounds",
    "note": "trusted: CPython, the harness in /verif/vf (vt.py sources, seqref.py simulator), VirtualTimeScheduler's queue discipline "
    "(checked by C28/C29); inner sources honour disposal (a source that ignores disposal is silenced by the library's subscribe wrapper "
    "before switch_latest's own id test is reached, so that test is not separately observable)",
}
META["text"] += "; thread part: switch_latest/switch_map with the outer sequence and two inners on their own threads, every interleaving up to the preemption bound: no element of a superseded inner that was emitted after the hand-over, every element of the latest inner, completion only after outer and latest inner"
RULE = (
    "all (operator form, arrival pattern, outer terminal, inner timeline tuple) combinations within the bounds; non-trivial = by the "
    "reference an inner that has been running since an earlier instant is replaced (its subscription is closed because a newer inner arrived); distinct = the full descriptor; cases_with_ties counts executions "
    "in which the oracle had to branch over simultaneous events"
)
BUDGET = {"quick": 300.0, "thorough": 2400.0}

OPS = ("switch_latest", "switch_map", "switch_map_default", "switch_map_indexed", "flat_map_latest")
RESOLVED = ("switch_latest", "switch_map_default")


def bounds(tier):
    if tier == "quick":
        return {"K": 2, "K_small": 3, "inners": c11.QUICK_INNERS, "outer_terms": [("C", 0), ("C", 10), ("C", 20), ("C", 150), ("E", 10), (None, 0)]}
    return {"K": 3, "K_small": 4, "inners": c11.ALL_INNERS,
            "outer_terms": [("C", 0), ("C", 10), ("C", 20), ("C", 30), ("C", 150), ("E", 10), ("E", 150), (None, 0)]}


def all_cases(tier, seed):
    B = bounds(tier)
    sub = vt.SUB + 10 * (seed % 4)

    def shapes():
        for K in range(0, B["K"] + 1):
            yield from itertools.product(B["inners"], repeat=K)
        for K in range(B["K"] + 1, B["K_small"] + 1):
            yield from itertools.product(c11.SMALL_INNERS, repeat=K)

    for shape in shapes():
        K = len(shape)
        names = [f"i{p}" for p in range(K)]
        inners = {names[p]: c11.inner_set(*c11.vals(seed, p), sub)[shape[p]] for p in range(K)}
        for arr in c11.ARRIVALS[K]:
            for term in B["outer_terms"]:
                src = dict(inners)
                src["o"] = ["cold", c11.outer_timeline(arr, names, term)]
                for op in OPS:
                    yield {"op": op, "params": {}, "sources": src, "outer": "o", "inner_names": names, "arr": arr, "oterm": list(term),
                           "shape": list(shape), "sub": sub, "take": None, "ps": True, "resolve": (["o"] if op in RESOLVED else [])}
    # the same inner (cold: a new run per arrival; hot: re-joined) for every outer element
    for K in range(2, B["K"] + 2):
        for iname in B["inners"]:
            for arr in c11.ARRIVALS[K]:
                for term in B["outer_terms"]:
                    src = {"i0": c11.inner_set(*c11.vals(seed, 0), sub)[iname]}
                    src["o"] = ["cold", c11.outer_timeline(arr, ["i0"] * K, term)]
                    for op in ("switch_map", "flat_map_latest"):
                        yield {"op": op, "params": {"same": True}, "sources": src, "outer": "o", "inner_names": ["i0"], "arr": arr,
                               "oterm": list(term), "shape": [iname] * K, "sub": sub, "take": None, "ps": True, "resolve": []}


def build(env, S, case):
    from reactivex import operators as ops

    op = case["op"]
    names = case["inner_names"]
    outer = S[case["outer"]]
    if op == "switch_latest":
        return outer.pipe(ops.switch_latest())
    if op == "switch_map_default":
        return outer.pipe(ops.switch_map())
    if op == "switch_map":
        return outer.pipe(ops.switch_map(lambda name: S[name]))
    if op == "switch_map_indexed":
        return outer.pipe(ops.switch_map_indexed(lambda _name, i: S[names[i]]))
    if op == "flat_map_latest":
        return outer.pipe(ops.flat_map_latest(lambda name: S[name]))
    raise ValueError(op)


def model(case):
    return seqref.SwitchModel(case["outer"])


def signature(case, cls):
    same = "same" if case["params"].get("same") else ""
    return f"{case['op']}|{same}|outer={case['oterm'][0]}|inners={c11.features(case)}|{cls}"


def key_of(case):
    return (case["op"], repr(case["params"]), repr(case["shape"]), repr(case["arr"]), repr(case["oterm"]))


def run_case(case):
    return seqref.judge(case, build, model)


def switched(stats):
    """Number of inner subscriptions, open since an earlier instant, that the reference closes because a newer inner arrived."""
    return sum(1 for s in stats["witness"].sublog if s[3] == "op" and s[2] > s[1])


def shard(part: core.Part, shard_i, nshards, tier, seed, deadline):
    for case in core.shard_iter(all_cases(tier, seed), shard_i, nshards):
        if part.evals % 128 == 0 and time.time() > deadline:
            part.complete = False
            return
        problems, ob, stats = run_case(case)
        sw = switched(stats)
        part.case(key_of(case), sw >= 1, outcome=seqref.outcome_of(ob),
                  sample={"op": case["op"], "params": case["params"], "sources": case["sources"],
                          "observed": seqref.show_out(ob.out), "subscriptions": seqref.show_subs(ob.subs)})
        part.count("op:" + case["op"])
        part.count("switches_of_running_inner", sw)
        if stats.get("branch_states"):
            part.count("cases_with_ties")
            part.count("tie_branch_states", stats["branch_states"])
        for (cls, text) in problems:
            part.violation(signature(case, cls), f"{case['op']} inners={case['shape']} arrivals={case['arr']} "
                           f"outer_terminal={case['oterm']}: {text}", case, problems=problems)


def run(ctx: core.Ctx):
    B = bounds(ctx.tier)
    ctx.bounds = {
        "inners_full_set": B["K"], "inners_small_set": B["K_small"], "inner_set": list(B["inners"]), "small_set": list(c11.SMALL_INNERS),
        "outer_terminals(kind, offset after last arrival)": B["outer_terms"],
        "arrival_patterns": {str(k): v for k, v in c11.ARRIVALS.items() if k <= B["K_small"]},
    }
    ctx.assumptions = [
        "VirtualTimeScheduler queue discipline (checked separately by C28/C29)",
        "harness sources are conforming and honour disposal; whether a hot inner's event in the very instant of its subscription reaches the new subscriber is left open (both accepted)",
        "virtual-time part: single-threaded",
    ]
    switch_ilv.run_part(ctx)  # E3: outer and inners on their own threads
    part = ctx.sharded(shard)
    ctx.cov["operators_covered"] = sorted(k[3:] for k in part.counters if k.startswith("op:"))


def replay(case):
    if isinstance(case, dict) and str(case.get("harness", "")).startswith("switch-threads|"):
        return switch_ilv.replay(case)
    case = dict(case)
    case["sources"] = {n: [k, [tuple(x) for x in tl]] for n, (k, tl) in case["sources"].items()}
    problems, ob, stats = run_case(case)
    print("case:", case["op"], case["params"], "sources=", case["sources"])
    print("observed output:", seqref.show_out(ob.out))
    print("observed subscriptions:", seqref.show_subs(ob.subs))
    can = seqref.canonical(seqref.Sim(case, model(case)).start())
    print("one admissible output:", seqref.show_out(can.out))
    print("one admissible subscription log:", seqref.show_subs([(s[0], s[1], s[2]) for s in can.sublog]))
    return [{"signature": signature(case, cls), "what": text, "detail": problems} for (cls, text) in problems]
