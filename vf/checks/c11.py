"""C11 Merging keeps each inner order and completes when all complete (E1, bounded-exhaustive).

Enumerated completely per tier: every operator form of the merge family x every outer
timeline (<=K inner arrivals spread / in one instant / mixed; outer completes in the instant
of the last arrival, in the instant of an inner's element, of an inner's completion, late,
errors, or never terminates) x every tuple of inner timelines from a structural set (cold:
synchronous, short, long, erroring, never ending, empty, terminal with the last element;
hot inners) x max_concurrent 1..3.  Oracle: `seqref.MergeModel` explored over every order of
simultaneous events (R3); the real run must equal one member: output instants/values and the
log of inner subscriptions (opening order = arrival order, subscribe instants, close
instants).  Independently, by global step, never more than max_concurrent inners run.
"""
from __future__ import annotations

import itertools
import time

from .. import core, merge_ilv, seqref, vt

PROPERTY = "C11"
LEVEL = "exploration"
META = {
    "engine": "vtx",
    "technique": "bounded-exhaustive enumeration of (merge-family operator form, outer timeline, inner timelines, max_concurrent) on "
    "virtual time against a nondeterministic merge reference simulator closed over all orders of simultaneous events; plus stateless exhaustive exploration of thread interleavings (bounded preemptions) with the outer sequence and every inner emitting from their own threads",
    "text": "merge (function, operator with sources, operator with max_concurrent), merge_all, flat_map (mapper, constant observable, "
    "iterable results), flat_map_indexed and concat_map are run on every outer timeline with <=K inner arrivals and every tuple of "
    "inner timelines of the structural set; the recorded output (instants, values, terminal) and the inner subscription log (arrival "
    "order, subscribe and close instants) must be a member of the reference's closure, and at no step may more than max_concurrent "
    "inners be running; exhaustive within the stated bounds",
    "note": "trusted: CPython, the harness in /verif/vf (vt.py sources, seqref.py simulator), VirtualTimeScheduler's queue discipline "
    "(checked by C28/C29); the thread part: controlled primitives of vf/ilv.py, preemption at sync operations and line boundaries of the focus files",
}
META["text"] += "; thread part: merge_all, flat_map, merge(max_concurrent=1,2), concat_map with the outer sequence and every inner on their own threads, every interleaving up to the preemption bound: exactly the emitted elements in per-inner order, every handed-out inner started, completion after all, at most max_concurrent subscribed"
RULE = (
    "all (operator form, max_concurrent, arrival pattern, outer terminal, inner timeline tuple) combinations within the bounds; "
    "non-trivial = by the reference >=2 inner subscriptions are opened and >=1 element is forwarded; distinct = the full descriptor; the counter "
    "cases_with_ties counts executions in which the oracle had to branch over simultaneous events"
)
BUDGET = {"quick": 300.0, "thorough": 2400.0}


# ------------------------------------------------------------------ alphabets

def inner_set(x, y, sub):
    return {
        "sync": ["cold", [(None, "N", x), (None, "C", None)]],
        "short": ["cold", [(10, "N", x), (20, "C", None)]],
        "long": ["cold", [(10, "N", x), (30, "N", y), (40, "C", None)]],
        "err": ["cold", [(10, "N", x), (20, "E", "E")]],
        "never": ["cold", [(20, "N", x)]],
        "empty": ["cold", [(20, "C", None)]],
        "hot": ["hot", [(sub + 25, "N", x), (sub + 45, "N", y), (sub + 65, "C", None)]],
        "lastC": ["cold", [(20, "N", x), (20, "C", None)]],
        "syncE": ["cold", [(None, "E", "E")]],
        "hotE": ["hot", [(sub + 45, "N", x), (sub + 65, "E", "E")]],
    }


QUICK_INNERS = ("sync", "short", "long", "err", "never", "empty", "hot")
ALL_INNERS = QUICK_INNERS + ("lastC", "syncE", "hotE")
SMALL_INNERS = ("sync", "short", "long", "err", "hot")

ARRIVALS = {
    0: [[]],
    1: [[10]],
    2: [[10, 30], [10, 10]],
    3: [[10, 30, 50], [10, 10, 10], [10, 10, 30], [10, 30, 30]],
    4: [[10, 30, 50, 70], [10, 10, 30, 30], [10, 10, 10, 10]],
}


def bounds(tier):
    if tier == "quick":
        return {"K": 2, "K_small": 3, "inners": QUICK_INNERS, "ncs": [1, 2], "outer_terms": [("C", 0), ("C", 20), ("C", 150), ("E", 10), (None, 0)],
                "ps": [True]}
    return {"K": 3, "K_small": 4, "inners": ALL_INNERS, "ncs": [1, 2, 3],
            "outer_terms": [("C", 0), ("C", 10), ("C", 20), ("C", 150), ("E", 10), ("E", 150), (None, 0)], "ps": [True, False]}


def vals(seed, p):
    base = 100 * (seed % 7)
    return base + 10 * (p + 1) + 1, base + 10 * (p + 1) + 2


def outer_timeline(arr, names, term):
    tl = [(arr[i], "N", names[i]) for i in range(len(arr))]
    kind, off = term
    if kind is not None:
        last = arr[-1] if arr else 10
        tl.append((last + off, kind, "E" if kind == "E" else None))
    return tl


def outer_ops(B):
    yield ("merge_all", {})
    for n in B["ncs"]:
        yield ("merge_mc", {"n": n})
    yield ("flat_map", {})
    yield ("flat_map_indexed", {})
    yield ("concat_map", {})


def all_cases(tier, seed):
    B = bounds(tier)
    sub = vt.SUB + 10 * (seed % 4)

    def shapes():
        for K in range(0, B["K"] + 1):
            yield from itertools.product(B["inners"], repeat=K)
        for K in range(B["K"] + 1, B["K_small"] + 1):
            yield from itertools.product(SMALL_INNERS, repeat=K)

    for ps in B["ps"]:
        for shape in shapes():
            K = len(shape)
            names = [f"i{p}" for p in range(K)]
            inners = {names[p]: inner_set(*vals(seed, p), sub)[shape[p]] for p in range(K)}
            common = {"shape": list(shape), "sub": sub, "take": None, "ps": ps}
            # static forms: all inners arrive in the subscription instant, the outer completes there
            static = dict(inners)
            static["o"] = ["iter", [(None, "N", n) for n in names]]
            if K >= 1:
                yield dict(common, op="rx_merge", params={}, sources=static, outer="o", inner_names=names, arr=[], oterm=["C", 0])
                yield dict(common, op="merge_op", params={}, sources=static, outer="o", inner_names=names, arr=[], oterm=["C", 0])
            if not ps:
                continue  # only the static forms create a source of their own that could use the subscribe-time scheduler
            for arr in ARRIVALS[K]:
                for term in B["outer_terms"]:
                    src = dict(inners)
                    src["o"] = ["cold", outer_timeline(arr, names, term)]
                    for (op, params) in outer_ops(B):
                        yield dict(common, op=op, params=params, sources=src, outer="o", inner_names=names, arr=arr, oterm=list(term),
                                   resolve=(["o"] if op in ("merge_all", "merge_mc") else []))
        # the same cold inner for every outer element; iterable results
        for K in range(1, (B["K"] + 2) if ps else 0):
            for iname in B["inners"]:
                for arr in ARRIVALS[K]:
                    for term in B["outer_terms"]:
                        src = {"i0": inner_set(*vals(seed, 0), sub)[iname]}
                        src["o"] = ["cold", outer_timeline(arr, ["i0"] * K, term)]
                        yield {"op": "flat_map_const", "params": {}, "sources": src, "outer": "o", "inner_names": ["i0"], "arr": arr,
                               "oterm": list(term), "shape": [iname] * K, "sub": sub, "take": None, "ps": ps}
            for arr in ARRIVALS[K]:
                for term in B["outer_terms"]:
                    for sizes in itertools.product((0, 1, 2), repeat=K):
                        names = [f"i{p}" for p in range(K)]
                        src = {names[p]: ["iter", [(None, "N", vals(seed, p)[j]) for j in range(sizes[p])]] for p in range(K)}
                        src["o"] = ["cold", outer_timeline(arr, names, term)]
                        yield {"op": "flat_map_iter", "params": {}, "sources": src, "outer": "o", "inner_names": names, "arr": arr,
                               "oterm": list(term), "shape": [f"iter{s}" for s in sizes], "sub": sub, "take": None, "ps": ps}


# ------------------------------------------------------------------ real pipeline / model

def build(env, S, case):
    import reactivex
    from reactivex import operators as ops

    op, P = case["op"], case["params"]
    names = case["inner_names"]
    if op == "rx_merge":
        return reactivex.merge(*[S[n] for n in names])
    if op == "merge_op":
        return S[names[0]].pipe(ops.merge(*[S[n] for n in names[1:]]))
    outer = S[case["outer"]]
    if op == "merge_all":
        return outer.pipe(ops.merge_all())
    if op == "merge_mc":
        return outer.pipe(ops.merge(max_concurrent=P["n"]))
    if op in ("flat_map", "flat_map_iter"):
        return outer.pipe(ops.flat_map(lambda name: S[name]))
    if op == "flat_map_indexed":
        return outer.pipe(ops.flat_map_indexed(lambda _name, i: S[names[i]]))
    if op == "flat_map_const":
        return outer.pipe(ops.flat_map(S["i0"]))
    if op == "concat_map":
        return outer.pipe(ops.concat_map(lambda name: S[name]))
    raise ValueError(op)


def limit_of(case):
    if case["op"] == "merge_mc":
        return case["params"]["n"]
    if case["op"] == "concat_map":
        return 1
    return None


def model(case):
    return seqref.MergeModel(case["outer"], limit_of(case))


def concurrency(case, ob):
    n = limit_of(case)
    if n is None:
        return []
    m = seqref.max_live(ob.raw_subs, set(case["inner_names"]))
    if m > n:
        return [("concurrency", f"{m} inner sequences were running at one step with max_concurrent={n}: {seqref.show_subs(ob.subs)}")]
    return []


def features(case):
    f = set()
    for n in case["inner_names"]:
        kind, tl = case["sources"][n]
        if kind == "hot":
            f.add("H")
        if kind == "iter":
            f.add("I")
        if any(t is None for (t, _, _) in tl):
            f.add("S")
        if any(k == "E" for (_, k, _) in tl):
            f.add("E")
        if kind != "iter" and not any(k in "EC" for (_, k, _) in tl):
            f.add("-")
    return "".join(sorted(f))


def signature(case, cls):
    P = case["params"]
    par = ",".join(f"{k}={P[k]}" for k in sorted(P))
    return f"{case['op']}|{par}|outer={case['oterm'][0]}|inners={features(case)}|{cls}"


def key_of(case):
    return (case["op"], repr(case["params"]), repr(case["shape"]), repr(case["arr"]), repr(case["oterm"]), case["ps"])


def run_case(case):
    return seqref.judge(case, build, model, extra=concurrency)


def shard(part: core.Part, shard_i, nshards, tier, seed, deadline):
    for case in core.shard_iter(all_cases(tier, seed), shard_i, nshards):
        if part.evals % 128 == 0 and time.time() > deadline:
            part.complete = False
            return
        problems, ob, stats = run_case(case)
        w = stats["witness"]
        inner_subs = [s for s in w.sublog if s[0] != case["outer"]]
        nontrivial = len(inner_subs) >= 2 and any(k == "N" for (_, k, _) in w.out)
        part.case(key_of(case), nontrivial, outcome=seqref.outcome_of(ob),
                  sample={"op": case["op"], "params": case["params"], "sources": case["sources"],
                          "observed": seqref.show_out(ob.out), "subscriptions": seqref.show_subs(ob.subs)})
        part.count("op:" + case["op"])
        if stats.get("branch_states"):
            part.count("cases_with_ties")
            part.count("tie_branch_states", stats["branch_states"])
        for (cls, text) in problems:
            part.violation(signature(case, cls), f"{case['op']} {case['params']} inners={case['shape']} arrivals={case['arr']} "
                           f"outer_terminal={case['oterm']}: {text}", case, problems=problems)


def run(ctx: core.Ctx):
    B = bounds(ctx.tier)
    ctx.bounds = {
        "inners_full_set": B["K"], "inners_small_set": B["K_small"], "inner_set": list(B["inners"]), "small_set": list(SMALL_INNERS),
        "max_concurrent": [None] + B["ncs"], "outer_terminals(kind, offset after last arrival)": B["outer_terms"],
        "arrival_patterns": {str(k): v for k, v in ARRIVALS.items() if k <= B["K_small"]},
        "scheduler_passed_to_subscribe": "True; static forms (merge(*sources)) also without" if len(B["ps"]) > 1 else "True",
    }
    ctx.assumptions = [
        "VirtualTimeScheduler queue discipline (checked separately by C28/C29)",
        "harness sources are conforming and honour disposal; whether a hot inner's event in the very instant of its subscription reaches the new subscriber is left open (both accepted)",
        "virtual-time part: single-threaded (serialisation of concurrent sources is C43)",
    ]
    merge_ilv.run_part(ctx)  # E3: outer and inners on their own threads
    part = ctx.sharded(shard)
    ctx.cov["operators_covered"] = sorted(k[3:] for k in part.counters if k.startswith("op:"))


def replay(case):
    if isinstance(case, dict) and str(case.get("harness", "")).startswith("merge-threads|"):
        return merge_ilv.replay(case)
    case = dict(case)
    case["sources"] = {n: [k, [tuple(x) for x in tl]] for n, (k, tl) in case["sources"].items()}
    problems, ob, stats = run_case(case)
    print("case:", case["op"], case["params"], "sources=", case["sources"])
    print("observed output:", seqref.show_out(ob.out))
    print("observed subscriptions:", seqref.show_subs(ob.subs))
    can = seqref.canonical(seqref.Sim(case, model(case)).start())
    print("one admissible output:", seqref.show_out(can.out))
    print("one admissible subscription log:", seqref.show_subs([(s[0], s[1], s[2]) for s in can.sublog]))
    return [{"signature": signature(case, cls), "what": text, "detail": problems} for (cls, text) in problems]
