"""C43 Combinators serialize concurrently emitting sources.

E3: for each combinator, 2 (thorough: also 3) source threads each drive their own Subject
through every sequence of <= 2 notifications ending in completion or error; the subscription
is set up in a non-preemptible prologue; the downstream observer (and every window
observer) is a monitor with a scheduling point between enter and exit.  All interleavings up
to the preemption bound, line-level points in the combinator's file(s) and
internal/concurrency.py.  Oracle: no two downstream calls overlap; grammar R1; for the time/count windows additionally
no window ends before its timespan elapsed or its count was reached (unless the source ended).
"""
from __future__ import annotations

import itertools
import time

from .. import core, ilv, ilvrun

PROPERTY = "C43"
LEVEL = "model_checking"
META = {
    "engine": "ilv",
    "technique": "preemption-bounded exhaustive interleaving exploration of real combinators fed by 2-3 source threads, with an overlap/grammar monitor downstream",
    "text": "for merge (also with max_concurrent), merge_all, flat_map (outer sequence on its own thread, completing or failing), zip, combine_latest, with_latest_from, amb, window_with_time, window_with_time_or_count: every pair (triple) of short per-source "
    "sequences ending in completion or error, every interleaving (<=PB preemptions, line-level points in the operator's files): downstream calls never overlap and obey on_next* (on_error|on_completed)?",
    "note": "trusted: CPython, controlled primitives of vf/ilv.py; sources emit serially from their own thread; preemption at sync operations and line boundaries of the focus files (not inside a line)",
}
RULE = (
    "operators x all tuples of per-source sequences from {C, E, NC, NE, NNC} (quick: {C,E,NC,NE}) x 2 threads (thorough also 3 for merge/zip/combine_latest), schedules with <= PB preemptions "
    "(+<=1 clock tick for the time windows); non-trivial = >=1 context switch between source threads; distinct = (harness, schedule)"
)
BUDGET = {"quick": 400.0, "thorough": 3000.0}

FOCUS = {
    "merge": ["operators/_merge.py", "observable/merge.py", "internal/concurrency.py"],
    "merge_all": ["operators/_merge.py", "internal/concurrency.py"],
    "merge_all:outer": ["operators/_merge.py", "internal/concurrency.py"],
    "flat_map:outer": ["operators/_flatmap.py", "operators/_merge.py", "internal/concurrency.py"],
    "switch_latest:outer": ["operators/_switchlatest.py", "internal/concurrency.py"],
    "merge_all:outerE": ["operators/_merge.py", "internal/concurrency.py"],
    "flat_map:outerE": ["operators/_flatmap.py", "operators/_merge.py", "internal/concurrency.py"],
    "switch_latest:outerE": ["operators/_switchlatest.py", "internal/concurrency.py"],
    "merge_mc:outer": ["operators/_merge.py", "internal/concurrency.py"],
    "merge_mc:outerE": ["operators/_merge.py", "internal/concurrency.py"],
    "flat_map": ["operators/_flatmap.py", "operators/_merge.py", "internal/concurrency.py"],
    "zip": ["observable/zip.py", "internal/concurrency.py"],
    "combine_latest": ["observable/combinelatest.py", "internal/concurrency.py"],
    "with_latest_from": ["observable/withlatestfrom.py", "internal/concurrency.py"],
    "amb": ["operators/_amb.py", "observable/amb.py", "internal/concurrency.py"],
    "window_with_time": ["operators/_windowwithtime.py", "internal/concurrency.py"],
    "window_with_time_or_count": ["operators/_windowwithtimeorcount.py", "internal/concurrency.py"],
}


class Boom(Exception):
    pass


class H:
    def __init__(self, op, seqs):
        self.op, self.seqs = op, seqs
        self.name = f"{op}|" + "||".join("".join(s) for s in seqs)
        self.sig = op
        self.focus = ilv.focus_files(*FOCUS[op])
        self.timed = op.startswith("window")
        self.allow_horizon = False
        # switch_latest is not among C43's operators: its harnesses are run by C12 with C12's oracles only
        self.check_overlap = not op.startswith("switch_latest")

    def setup(self, run):
        import reactivex
        from reactivex import operators as ops
        from reactivex.scheduler import EventLoopScheduler
        from reactivex.subject import Subject

        st = {"run": run, "inside": 0, "overlaps": [], "logs": {}, "mons": []}
        n = len(self.seqs)
        subs = [Subject() for _ in range(n)]
        st["subs"] = subs

        st["wmeta"] = {}

        def monitor(name):
            log = []
            st["logs"][name] = log
            meta = st["wmeta"][name] = {"open": run.clock, "n": 0, "close": None, "close_idx": None}

            class Down:
                def _c(self_, kind, v):
                    me = ilv.cur()
                    if st["inside"]:
                        st["overlaps"].append((name, kind, me.name))
                    st["inside"] += 1
                    log.append(kind)
                    if kind == "N":
                        meta["n"] += 1
                    elif meta["close"] is None:
                        meta["close"], meta["close_idx"] = run.clock, len(run.events)
                    run.log("enter", name, kind, me.name)
                    ilv.point("in-downstream", voluntary=True)
                    run.log("exit", name, kind)
                    st["inside"] -= 1

                def on_next(self_, v):
                    from reactivex import Observable

                    if isinstance(v, Observable):
                        # a window: subscribe a monitor to it inside the delivery (counts as part of this call)
                        v.subscribe(monitor(f"{name}.w{len(st['logs'])}"))
                    self_._c("N", v)

                def on_error(self_, e):
                    self_._c("E", e)

                def on_completed(self_):
                    self_._c("C", None)

            return Down()

        op = self.op
        if op == "merge":
            o = reactivex.merge(*subs)
        elif op == "merge_all":
            o = reactivex.of(*subs).pipe(ops.merge_all())
        elif op.startswith("switch_latest:outer"):
            st["outer"] = Subject()
            o = st["outer"].pipe(ops.switch_latest())
        elif ":outer" in op:
            # the outer sequence is driven by its own thread too: it hands out the inner subjects and completes (":outerE": fails)
            st["outer"] = Subject()
            base = op.split(":")[0]
            # (an identity stage in between: the operator's source must not be the Subject itself, whose own lock would
            # serialize the outer notifications with the inner ones by coincidence)
            o = st["outer"].pipe(ops.map(lambda x: x), {"merge_all": ops.merge_all, "flat_map": lambda: ops.flat_map(lambda x: x), "merge_mc": lambda: ops.merge(max_concurrent=2)}[base]())
        elif op == "flat_map":
            o = reactivex.of(*range(n)).pipe(ops.flat_map(lambda i: subs[i]))
        elif op == "zip":
            o = reactivex.zip(*subs)
        elif op == "combine_latest":
            o = reactivex.combine_latest(*subs)
        elif op == "with_latest_from":
            o = subs[0].pipe(ops.with_latest_from(*subs[1:]))
        elif op == "amb":
            o = reactivex.amb(*subs)
        elif op == "window_with_time":
            st["sch"] = EventLoopScheduler()
            o = subs[0].pipe(ops.window_with_time(1.0, scheduler=st["sch"]))
        elif op == "window_with_time_or_count":
            st["sch"] = EventLoopScheduler()
            o = subs[0].pipe(ops.window_with_time_or_count(1.0, 2, scheduler=st["sch"]))
        st["d"] = o.subscribe(monitor("out"))
        return st

    def bodies(self, st):
        def mk(i, seq):
            def body():
                s = st["subs"][i]
                for j, k in enumerate(seq):
                    if self.timed and j == 1 and ilv.run().clock < 1.0:
                        # meet the window timer: continue emitting exactly when the first period elapses
                        ilv.run().block(ilv.cur(), lambda: False, 1.0, "sleep")
                    if self.timed and j > 0:
                        ilv.point("between-emissions", voluntary=True)  # the source does other work between two notifications
                    if k == "N":
                        s.on_next(i)
                    elif k == "C":
                        st.setdefault("src_term_idx", len(ilv.run().events))
                        s.on_completed()
                    else:
                        st.setdefault("src_term_idx", len(ilv.run().events))
                        s.on_error(Boom(i))

            return body

        bodies = [mk(i, s) for i, s in enumerate(self.seqs)]
        if ":outer" in self.op:
            def outer_body():
                for sub in st["subs"]:
                    st["outer"].on_next(sub)
                st["outer_done"] = True
                if self.op.endswith("E"):
                    st["outer"].on_error(Boom("outer"))
                else:
                    st["outer"].on_completed()

            bodies.insert(0, outer_body)
        if self.timed:
            # the window timer keeps re-arming itself: stop it once the source is done and one period has passed
            def stopper():
                ilv.run().block(ilv.cur(), lambda: False, ilv.run().clock + 1.5, "sleep")
                st["d"].dispose()

            bodies.append(stopper)
        return bodies

    def outcome(self, x):
        return tuple(sorted((k, "".join(v)) for k, v in x.state["logs"].items()))

    def check(self, x):
        st = x.state
        if x.outcome != "quiescent":
            return []
        P = []
        if st["overlaps"] and self.check_overlap:
            P.append((f"{self.op}|overlapping-downstream-calls", f"downstream entered concurrently: {st['overlaps'][:3]} logs={ {k: ''.join(v) for k, v in st['logs'].items()} }"))
        if self.timed:
            # a window that ended before the source terminated must have lived its timespan (1.0) or, for
            # time-or-count, be full (count 2): nothing else may close it
            term = st.get("src_term_idx", 10**9)
            for name, m in st["wmeta"].items():
                if name == "out" or m["close"] is None or m["close_idx"] >= term:
                    continue
                full = self.op == "window_with_time_or_count" and m["n"] >= 2
                if not full and m["close"] - m["open"] < 1.0 - 1e-9:
                    P.append((f"{self.op}|window-closed-early", f"window {name} opened at clock {m['open']} closed at {m['close']} with {m['n']} elements (timespan 1.0" + (", count 2)" if self.op.endswith("count") else ")")))
        if not self.timed and all(q[-1] == "C" for q in self.seqs) and not self.op.endswith(":outerE"):
            # every combinator of the list completes at the latest when all of its sources have completed (merge family: C11's
            # rule; zip/combine_latest/with_latest_from/amb: C13's rules) — here under threads: a completion must not get lost
            if "".join(st["logs"]["out"])[-1:] != "C":
                P.append((f"{self.op}|never-completed", f"every source completed but downstream received {''.join(st['logs']['out'])!r} and no completion"))
        for name, log in st["logs"].items():
            s = "".join(log)
            t = [i for i, k in enumerate(s) if k in "EC"]
            if t and t[0] != len(s) - 1:
                P.append((f"{self.op}|grammar", f"observer {name} received {s}"))
        return P


SEQ_Q = [("C",), ("E",), ("N", "C"), ("N", "E")]
SEQ_T = SEQ_Q + [("N", "N", "C"), ("N", "N", "E")]


def harnesses(tier):
    hs = []
    seqs = SEQ_Q if tier == "quick" else SEQ_T
    for op in ("merge", "merge_all", "flat_map", "zip", "combine_latest", "with_latest_from", "amb"):
        sym = op not in ("with_latest_from",)
        pairs = itertools.combinations_with_replacement(seqs, 2) if sym else itertools.product(seqs, repeat=2)
        for a, b in pairs:
            hs.append(H(op, (a, b)))
        if tier == "thorough" and op in ("merge", "zip", "combine_latest"):
            for tr in itertools.combinations_with_replacement(SEQ_Q, 3):
                hs.append(H(op, tr))
    for op in ("merge_all:outer", "flat_map:outer", "merge_mc:outer", "merge_all:outerE", "flat_map:outerE", "merge_mc:outerE"):
        inner = [("C",), ("N", "C"), ("N", "E")] if tier == "quick" else SEQ_T
        if tier == "quick" and op.endswith("E"):
            inner = [("N", "C")] if op != "merge_all:outerE" else [("N", "C"), ("N", "E")]
        for a in inner:
            hs.append(H(op, (a,)))
        if tier == "thorough":
            for a, b in itertools.combinations_with_replacement(SEQ_Q, 2):
                hs.append(H(op, (a, b)))
    for op in ("window_with_time", "window_with_time_or_count"):
        if tier == "quick":
            seqs_w = [("N", "N", "C")] if op == "window_with_time" else [("N", "C"), ("N", "N", "C")]
        else:
            seqs_w = [("N", "C"), ("N", "N", "C"), ("N", "N", "N", "C"), ("N", "E"), ("N", "N", "E")]
        for s in seqs_w:
            hs.append(H(op, (s,)))
    return hs


def switch_harnesses(tier):
    """switch_latest with the outer sequence and the inner on their own threads: run by C12 (not a C43 operator)."""
    inner = [("C",), ("N", "C"), ("N", "E")] if tier == "quick" else SEQ_T
    return [H(op, (a,)) for op in ("switch_latest:outer", "switch_latest:outerE") for a in inner]


def bounds(tier, h):
    """(PB, TB).  Thorough: PB 2 for the harnesses whose sources issue <= 3 notifications in total (a PB-2 search of a longer one
    is 10^4-10^5 executions at line granularity), PB 1 for the others."""
    if h.timed:
        # (a clock-tick deviation on top of PB 1 multiplies the schedules by the ~10^3 points of a window harness: the thorough
        # tier did not complete with it)
        return (1, 0)
    if tier == "quick" or len(h.seqs) == 3:
        return (1, 0)
    return (2, 0) if sum(len(q) for q in h.seqs) <= 3 else (1, 0)


def shard(part, shard_i, nshards, tier, seed, deadline):
    ilv.install()
    hs = harnesses(tier)
    for i, h in enumerate(hs):
        if (i + seed) % nshards == shard_i:
            PB, TB = bounds(tier, h)
            ilvrun.explore_all(part, [h], 0, 1, PB, TB, deadline, horizon=6.0)


def run(ctx):
    ctx.bounds = {"quick": "PB 1 (windows: PB 1, TB 1)", "thorough": "PB 2 for harnesses with <= 3 source notifications, PB 1 otherwise (windows PB 1 over more sequences)"}[ctx.tier]
    ctx.assumptions = ["each source emits serially from its own thread", "preemption at sync operations and line boundaries of the operator's files and internal/concurrency.py"]
    ctx.sharded(shard, nshards=len(harnesses(ctx.tier)))
    ilvrun.finish_cov(ctx, ctx.total)
    ctx.cov["harnesses"] = len(harnesses(ctx.tier))


def replay(case):
    ilv.install()
    for tier in ("quick", "thorough"):
        for h in harnesses(tier):
            if h.name == case["harness"]:
                return ilvrun.replay_harness(h, case)
    return []
