"""C36 Time values convert consistently between representations (bounded input enumeration).

Enumerated completely per tier: a grid G of microsecond counts around the places where the
conversions can go wrong (0, sign change, second / day boundaries, 2^31 s, 10^15 us), each
written as float seconds, int seconds (whole seconds only), timedelta and aware datetime in
UTC, +05:30 and -08:00; thorough adds non-aligned floats at the rounding ties and values
where a double can no longer hold a microsecond.

Judged, with exact integer / Fraction arithmetic as the reference:
  * conv   : every conversion of an aligned value denotes the same instant / span
             (n microseconds since the epoch)   -- the docstrings' meaning of the conversions
  * rt     : the six round trips float<->timedelta<->datetime are exact for aligned values
  * mono   : for every ordered pair of one representation each conversion preserves <=
             (and < for distinct aligned values)
  * ident  : a value already in the target representation is returned unchanged
  * now    : `now` of every scheduler class constructible offline is aware with zero offset
conv, rt and now are evaluated under three process-local time zones (TZ as found, UTC+05:30,
UTC-08:00): nothing in the property may depend on the machine's zone.

Float care: exactness through a float is demanded only inside the zone |t| <= 2^32 s where
the double nearest to n/10^6 s is closer to n us than to any other microsecond; beyond it the
float round trip is only required to stay within the float's own half-ulp (+1 us); non-aligned
floats are only required to convert monotonically (how a tie rounds is not stated anywhere).
"""
from __future__ import annotations

import math
import os
import time as _time
import types
from datetime import datetime, timedelta, timezone
from fractions import Fraction

from .. import core

PROPERTY = "C36"
LEVEL = "exploration"
META = {
    "engine": "enum",
    "technique": "bounded-exhaustive input enumeration (no scheduler run): grid of boundary time values x representations x "
    "conversions, all ordered pairs, judged by exact integer/Fraction arithmetic",
    "text": "every value of a grid of microsecond counts around 0, +-1 us, second and day boundaries, 2^31 s and 10^15 us "
    "(both signs; thorough: rounding ties, +-0.25/0.5/0.75 us neighbours and values beyond double precision), written as "
    "float/int seconds, timedelta and aware datetime in three zones, is pushed through to_seconds/to_datetime/to_timedelta: "
    "meaning, six round trips, monotonicity over all ordered pairs, identity conversions; `now` of every scheduler class "
    "constructible offline is aware UTC; exhaustive over the grid, silent off it",
    "note": "plain input enumeration (DESIGN 'enum'); trusted: CPython datetime/Fraction arithmetic, the exactness zone "
    "argument in the module docstring",
}
RULE = (
    "all grid values x representations x {to_seconds,to_datetime,to_timedelta} (conv/ident), all six round trips per aligned "
    "value (rt), all ordered pairs x<=y inside one representation family x 3 conversions (mono), every constructible scheduler "
    "class (now); non-trivial = conv/rt whose target representation differs from the input's, mono pairs with x != y, now of a "
    "distinct scheduler configuration; distinct = (kind, inputs, conversion)"
)
BUDGET = {"quick": 120.0, "thorough": 600.0}

US = 10**6
EPOCH = datetime(1970, 1, 1, tzinfo=timezone.utc)
ZONES = {"utc": timezone.utc, "+0530": timezone(timedelta(hours=5, minutes=30)), "-0800": timezone(timedelta(hours=-8))}
EXACT_ZONE_US = (2**32) * US  # |n| below this: the nearest double to n/1e6 rounds back to n


LOCAL_ZONES = (None, "VRF-5:30", "VRW8")  # process-local zone (TZ): as found, UTC+05:30, UTC-08:00 (POSIX strings, no tzdata needed)


class local_zone:
    """Run a judgement with the process-local time zone set to `lz` (nothing in the property may depend on it)."""

    def __init__(self, lz):
        self.lz = lz

    def __enter__(self):
        if self.lz is not None:
            self.old = os.environ.get("TZ")
            os.environ["TZ"] = self.lz
            _time.tzset()

    def __exit__(self, *a):
        if self.lz is not None:
            if self.old is None:
                os.environ.pop("TZ", None)
            else:
                os.environ["TZ"] = self.old
            _time.tzset()


# ------------------------------------------------------------------ grid
def grid(tier, seed):
    """Return (aligned microsecond counts in the float-exact zone, large aligned counts, non-aligned quarter offsets)."""
    base = [0, 1, 999_999, US, US + 1, 86_400 * US - 1, 86_400 * US, 86_400 * US + 1,
            (2**31) * US - 1, (2**31) * US, (2**31) * US + 1, 10**15 - 1, 10**15, 10**15 + 1]
    # the seed only picks one extra representative anchor (an odd number of microseconds inside a day)
    extra = [3_723_000_007 + 2 * (seed % 5)]
    if tier == "thorough":
        base += [2, 499_999, 500_000, 500_001, 1_500_000, 59_999_999, 60 * US, 3600 * US + 1, 86_399 * US + 999_999,
                 365 * 86_400 * US + 1, (2**31 - 1) * US + 999_999, (2**32) * US - 1]
    pos = sorted(set(base + extra))
    exact = sorted(set(pos + [-x for x in pos]))
    large = []
    offsets = [Fraction(1, 4), Fraction(-1, 4)]
    if tier == "thorough":
        lp = [(2**33) * US + 1, 2**53 - 1, 2**53 + 1, 10**17 + 1, 2 * 10**17 + 999_999]
        large = sorted(set(lp + [-x for x in lp if x < 6 * 10**16]))  # clip: datetime starts at year 1
        offsets = [Fraction(1, 4), Fraction(-1, 4), Fraction(1, 2), Fraction(-1, 2), Fraction(3, 4), Fraction(-3, 4)]
    return exact, large, offsets


class V:
    """One input value: representation family, the value, its meaning in microseconds (Fraction), flags."""

    __slots__ = ("fam", "rep", "val", "us", "aligned", "exact", "label")

    def __init__(self, fam, rep, val, us, aligned, exact, label):
        self.fam, self.rep, self.val, self.us, self.aligned, self.exact, self.label = fam, rep, val, us, aligned, exact, label


def values(tier, seed):
    exact, large, offsets = grid(tier, seed)
    out = []
    for n in exact + large:
        ex = abs(n) < EXACT_ZONE_US
        f = n / US  # correctly rounded: the double nearest to n microseconds
        out.append(V("s", "float", f, Fraction(n), True, ex, f"float:{n}us"))
        if n % US == 0 and ex:
            out.append(V("s", "int", n // US, Fraction(n), True, ex, f"int:{n}us"))
        out.append(V("td", "timedelta", timedelta(microseconds=n), Fraction(n), True, ex, f"timedelta:{n}us"))
        for zn, z in ZONES.items():
            try:
                d = (EPOCH + timedelta(microseconds=n)).astimezone(z)
            except OverflowError:
                continue
            out.append(V("dt", "datetime" + zn, d, Fraction(n), True, ex, f"datetime{zn}:{n}us"))
    seen = {v.val for v in out if v.fam == "s"}
    for n in exact:
        for off in offsets:
            q = Fraction(n) + off
            f = float(q / US)
            if f in seen:
                continue
            seen.add(f)
            fq = Fraction(f) * US  # what the double really denotes, in microseconds
            if fq.denominator == 1:
                continue  # landed on an aligned value after all
            out.append(V("s", "float", f, fq, False, True, f"float:{n}{'+' if off > 0 else '-'}{abs(off)}us"))
    return out


# ------------------------------------------------------------------ judging helpers
CONVS = ("to_seconds", "to_datetime", "to_timedelta")
TARGET_FAM = {"to_seconds": "s", "to_datetime": "dt", "to_timedelta": "td"}


def S():
    from reactivex.scheduler.scheduler import Scheduler

    return Scheduler


def conv(name, x):
    return getattr(S(), name)(x)


def as_us(name, y):
    """Exact meaning of a conversion result in microseconds since the epoch / span (Fraction), or a problem string."""
    if name == "to_seconds":
        if isinstance(y, bool) or not isinstance(y, (int, float)):
            return f"to_seconds returned {type(y).__name__} {y!r}, not a number"
        if isinstance(y, float) and not math.isfinite(y):
            return f"to_seconds returned {y!r}"
        return Fraction(y) * US
    if name == "to_datetime":
        if not isinstance(y, datetime):
            return f"to_datetime returned {type(y).__name__} {y!r}"
        if y.tzinfo is None or y.utcoffset() is None:
            return f"to_datetime returned a naive datetime {y!r}"
        d = y - EPOCH
        return Fraction((d.days * 86_400 + d.seconds) * US + d.microseconds)
    if not isinstance(y, timedelta):
        return f"to_timedelta returned {type(y).__name__} {y!r}"
    return Fraction((y.days * 86_400 + y.seconds) * US + y.microseconds)


def half_ulp_us(us: Fraction) -> Fraction:
    """Half an ulp of the double nearest to `us` microseconds expressed in seconds, in microseconds."""
    f = float(us / US)
    return Fraction(math.ulp(f)) * US / 2


def shape(prob: str) -> str:
    return prob.split(":")[0]


# ------------------------------------------------------------------ the individual judgements
def judge_conv(v: V, name: str):
    """conv / ident: meaning of one conversion of one value."""
    try:
        y = conv(name, v.val)
    except Exception as e:  # a representable value must convert
        return f"raised: {type(e).__name__}: {e}", None
    m = as_us(name, y)
    if isinstance(m, str):
        return "type: " + m, repr(y)
    if TARGET_FAM[name] == v.fam:
        # already in the target representation: "simply returned unchanged"
        if type(y) is not type(v.val) or y != v.val or (v.fam == "dt" and y.utcoffset() != v.val.utcoffset()):
            return f"changed: {name}({v.val!r}) returned {y!r}, documented to return the argument unchanged", repr(y)
        return None, repr(y)
    if not v.aligned:
        # a non-aligned float must land on one of the two neighbouring microseconds (which one is not stated)
        if name != "to_seconds" and not (math.floor(v.us) <= m <= math.ceil(v.us)):
            return f"far: {name}({v.val!r}) = {y!r} is not a neighbouring microsecond of {float(v.us)} us", repr(y)
        return None, repr(y)
    through_float = v.fam == "s" or name == "to_seconds"
    if v.exact or not through_float:
        if name == "to_seconds":
            want = int(v.us) / US  # the double nearest to the exact value
            if float(y) != want:
                return f"value: to_seconds({v.val!r}) = {y!r}, the nearest double to {int(v.us)} us is {want!r}", repr(y)
        elif m != v.us:
            return f"value: {name}({v.val!r}) = {y!r} denotes {int(m)} us, the input denotes {int(v.us)} us", repr(y)
    else:
        tol = half_ulp_us(v.us) + 1
        if abs(m - v.us) > tol:
            return f"value-large: {name}({v.val!r}) = {y!r} is {float(abs(m - v.us))} us away (float tolerance {float(tol)})", repr(y)
    return None, repr(y)


ROUND_TRIPS = [  # (input family, first conversion, second conversion)
    ("s", "to_timedelta", "to_seconds"),
    ("s", "to_datetime", "to_seconds"),
    ("td", "to_seconds", "to_timedelta"),
    ("td", "to_datetime", "to_timedelta"),
    ("dt", "to_seconds", "to_datetime"),
    ("dt", "to_timedelta", "to_datetime"),
]


def judge_rt(v: V, c1: str, c2: str):
    try:
        mid = conv(c1, v.val)
        back = conv(c2, mid)
    except Exception as e:
        return f"raised: {type(e).__name__}: {e}", None
    m = as_us(c2, back)
    if isinstance(m, str):
        return "type: " + m, repr(back)
    through_float = v.fam == "s" or c1 == "to_seconds"
    if v.exact or not through_float:
        if v.fam == "s":
            same = float(back) == float(v.val)  # the same double (a double is not exactly n us; compare as doubles)
        else:
            same = (back == v.val) and m == v.us
        if not same:
            return f"inexact: {c2}({c1}({v.val!r})) = {back!r} (via {mid!r})", repr(back)
    else:
        tol = half_ulp_us(v.us) + 1
        if abs(m - v.us) > tol:
            return f"inexact-large: {c2}({c1}({v.val!r})) = {back!r} is {float(abs(m - v.us))} us away (float tolerance {float(tol)})", repr(back)
    return None, repr(back)


def judge_mono(x: V, y: V, name: str):
    """x <= y natively (same family). Conversion must preserve the order."""
    try:
        cx, cy = conv(name, x.val), conv(name, y.val)
    except Exception as e:
        return f"raised: {type(e).__name__}: {e}", None
    try:
        le, lt = cx <= cy, cx < cy
    except Exception as e:
        return f"incomparable: {name} results {cx!r} / {cy!r}: {e}", None
    out = f"{cx!r}<{cy!r}" if lt else (f"{cx!r}=={cy!r}" if le else f"{cx!r}>{cy!r}")
    if not le:
        return f"order: {x.val!r} <= {y.val!r} but {name} gives {cx!r} > {cy!r}", out
    through_float = x.fam == "s" or name == "to_seconds"
    strict_due = x.aligned and y.aligned and x.us != y.us and ((x.exact and y.exact) or not through_float)
    if strict_due and not lt:
        return f"collapse: distinct aligned {x.val!r} < {y.val!r} but {name} gives {cx!r} == {cy!r}", out
    return None, out


# ------------------------------------------------------------------ schedulers' now
def scheduler_recipes(tier, seed):
    """(label, constructor) for every scheduler class of the library constructible without its toolkit running.
    Toolkit-bound schedulers only store the handle they are given; `now` never touches it, so a stub is enough."""
    import asyncio

    import reactivex.scheduler as rs
    import reactivex.scheduler.eventloop as rel
    import reactivex.scheduler.mainloop as rml
    from reactivex.testing import TestScheduler

    stub = types.SimpleNamespace(Timer=object)
    rec = []

    def add(label, mk):
        rec.append((label, mk))

    for cls in (rs.ImmediateScheduler, rs.CurrentThreadScheduler, rs.TrampolineScheduler, rs.NewThreadScheduler,
                rs.TimeoutScheduler, rs.EventLoopScheduler):
        add(cls.__name__, cls)
    for cls in (rs.ImmediateScheduler, rs.CurrentThreadScheduler, rs.TimeoutScheduler):
        add(cls.__name__ + ".singleton", cls.singleton)
    add("ThreadPoolScheduler", lambda: rs.ThreadPoolScheduler(1))
    add("CatchScheduler(Immediate)", lambda: rs.CatchScheduler(rs.ImmediateScheduler(), lambda e: True))
    add("CatchScheduler(VirtualTime)", lambda: rs.CatchScheduler(rs.VirtualTimeScheduler(), lambda e: True))
    add("CatchScheduler(Historical)", lambda: rs.CatchScheduler(rs.HistoricalScheduler(), lambda e: True))
    add("VirtualTimeScheduler", rs.VirtualTimeScheduler)
    add("TestScheduler", TestScheduler)
    add("HistoricalScheduler", rs.HistoricalScheduler)

    def with_loop(cls):
        def mk():
            loop = asyncio.new_event_loop()
            try:
                return cls(loop)
            finally:
                loop.close()

        return mk

    add("AsyncIOScheduler", with_loop(rel.AsyncIOScheduler))
    add("AsyncIOThreadSafeScheduler", with_loop(rel.AsyncIOThreadSafeScheduler))
    for cls in (rel.EventletScheduler, rel.GEventScheduler, rel.IOLoopScheduler, rel.TwistedScheduler,
                rml.GtkScheduler, rml.PyGameScheduler, rml.QtScheduler, rml.TkinterScheduler, rml.WxScheduler):
        add(cls.__name__ + "(stub)", (lambda c=cls: c(stub)))
    # virtual clocks at grid values: now must be that instant, aware, UTC
    exact, large, _ = grid(tier, seed)
    for n in exact:
        add(f"VirtualTimeScheduler@{n}us", (lambda n=n: rs.VirtualTimeScheduler(n / US)), )
        add(f"TestScheduler@{n}us", (lambda n=n: _test_at(TestScheduler, n)))
        add(f"HistoricalScheduler@{n}us", (lambda n=n: rs.HistoricalScheduler(EPOCH + timedelta(microseconds=n))))
    return rec


def _test_at(cls, n):
    s = cls()
    s._clock = n / US  # what advance_to leaves in the clock (a float); no run needed to read `now`
    return s


def clock_of(label):
    if "@" in label:
        return int(label.split("@")[1][:-2])
    return None


def covered_scheduler_classes():
    """Names of all Scheduler subclasses the library exports (to show which ones the recipes reach)."""
    import reactivex.scheduler as rs
    import reactivex.scheduler.eventloop as rel
    import reactivex.scheduler.mainloop as rml
    from reactivex.scheduler.scheduler import Scheduler

    names = []
    for mod in (rs, rel, rml):
        for n in mod.__all__:
            c = getattr(mod, n)
            if isinstance(c, type) and issubclass(c, Scheduler):
                names.append(n)
    return names + ["TestScheduler"]


def judge_now(label, mk):
    try:
        s = mk()
    except Exception as e:
        return "skip", f"not constructible here: {type(e).__name__}: {e}"
    try:
        n = s.now
    except Exception as e:
        return f"raised: {label}.now raised {type(e).__name__}: {e}", None
    finally:
        ex = getattr(s, "executor", None)
        if ex is not None:
            ex.shutdown(wait=False)
    if not isinstance(n, datetime):
        return f"type: {label}.now is {type(n).__name__} {n!r}", None
    if n.tzinfo is None or n.utcoffset() is None:
        return f"naive: {label}.now = {n!r} has no timezone", "naive"
    if n.utcoffset() != timedelta(0):
        return f"offset: {label}.now = {n!r} has UTC offset {n.utcoffset()}", "offset"
    c = clock_of(label)
    if c is not None and n - EPOCH != timedelta(microseconds=c):
        return f"clock: {label}.now = {n!r}, the virtual clock stands at {c} us after the epoch", "clock"
    return None, ("virtual:" + n.isoformat()) if c is not None else "aware-utc"


# ------------------------------------------------------------------ enumeration
def all_cases(tier, seed):
    vals = values(tier, seed)
    for lz in LOCAL_ZONES:
        for v in vals:
            for name in CONVS:
                yield ("conv", lz, v, name)
        for v in vals:
            if v.aligned:
                for (fam, c1, c2) in ROUND_TRIPS:
                    if fam == v.fam:
                        yield ("rt", lz, v, c1, c2)
    fams = {"s": [], "td": [], "dt": []}
    for v in vals:
        fams[v.fam].append(v)
    for fam, vs in fams.items():
        vs = sorted(vs, key=lambda v: (v.us, v.rep))
        for i, x in enumerate(vs):
            for y in vs[i:]:
                if x.val <= y.val:  # native order of the representation (ties in both directions appear once)
                    for name in CONVS:
                        yield ("mono", None, x, y, name)
    for lz in LOCAL_ZONES:
        for (label, mk) in scheduler_recipes(tier, seed):
            yield ("now", lz, label, mk)


def lzs(lz):
    return "" if lz is None else f"|TZ={lz}"


def run_case(c):
    """-> (key, nontrivial, outcome, problem, signature, case-dict)"""
    kind, lz = c[0], c[1]
    with local_zone(lz):
        return _run_case(kind, lz, c[2:])


def _run_case(kind, lz, c):
    if kind == "conv":
        v, name = c
        prob, out = judge_conv(v, name)
        key = ("conv", lz, v.label, name)
        sig = f"conv|{name}|{v.rep}|{shape(prob)}{lzs(lz)}" if prob else None
        return key, TARGET_FAM[name] != v.fam, out, prob, sig, {"kind": "conv", "local_zone": lz, "value": v.label, "conversion": name}
    if kind == "rt":
        v, c1, c2 = c
        prob, out = judge_rt(v, c1, c2)
        key = ("rt", lz, v.label, c1, c2)
        sig = f"rt|{v.fam}|{c1}>{c2}|{shape(prob)}{lzs(lz)}" if prob else None
        return key, True, out, prob, sig, {"kind": "rt", "local_zone": lz, "value": v.label, "first": c1, "second": c2}
    if kind == "mono":
        x, y, name = c
        prob, out = judge_mono(x, y, name)
        key = ("mono", lz, x.label, y.label, name)
        sig = f"mono|{x.fam}|{name}|{shape(prob)}" if prob else None
        return key, x.val != y.val, out, prob, sig, {"kind": "mono", "local_zone": lz, "x": x.label, "y": y.label, "conversion": name}
    label, mk = c
    prob, out = judge_now(label, mk)
    key = ("now", lz, label)
    if prob == "skip":
        return key, False, "skipped", None, None, {"kind": "now", "local_zone": lz, "scheduler": label, "skipped": out}
    cls = label.split("@")[0].split("(")[0].split(".")[0]
    sig = f"now|{cls}|{shape(prob)}{lzs(lz)}" if prob else None
    return key, True, out, prob, sig, {"kind": "now", "local_zone": lz, "scheduler": label}


def shard(part: core.Part, shard_i, nshards, tier, seed, deadline):
    for c in core.shard_iter(all_cases(tier, seed), shard_i, nshards):
        if part.evals % 512 == 0 and _time.time() > deadline:
            part.complete = False
            return
        key, nontrivial, out, prob, sig, case = run_case(c)
        case.update(tier=tier, seed=seed)
        part.case(key, nontrivial, outcome=(key[0], key[-1] if key[0] != "now" else "", out), sample=dict(case, observed=out))
        part.count("kind:" + key[0])
        if case.get("skipped"):
            part.count("now_skipped:" + key[2])
        if key[0] == "now":
            part.count("nowcls:" + key[2].split("@")[0].split("(")[0].split(".")[0])
        if prob:
            part.violation(sig, prob.split(": ", 1)[-1], case, problem=prob)


def run(ctx: core.Ctx):
    exact, large, offsets = grid(ctx.tier, ctx.seed)
    ctx.bounds = {
        "aligned_microsecond_counts_float_exact_zone": len(exact),
        "aligned_counts_beyond_double_precision": len(large),
        "non_aligned_offsets_us": [str(o) for o in offsets],
        "zones": list(ZONES),
        "process_local_zones": [str(z) for z in LOCAL_ZONES],
        "grid": [str(x) for x in exact + large],
    }
    ctx.assumptions = [
        "exactness through a float is demanded only for |t| < 2^32 s (nearest double is within 0.24 us of the aligned value)",
        "non-aligned floats: only monotonicity and landing on a neighbouring microsecond are demanded (tie rounding is unstated)",
        "toolkit-bound schedulers are constructed with a stub handle; only their `now` is read",
    ]
    part = ctx.sharded(shard)
    reached = sorted(k[7:] for k in part.counters if k.startswith("nowcls:"))
    ctx.cov["scheduler_classes_reached"] = reached
    ctx.cov["scheduler_classes_exported_not_reached"] = sorted(set(covered_scheduler_classes()) - set(reached))
    ctx.cov["evaluations_by_kind"] = {k[5:]: n for k, n in part.counters.items() if k.startswith("kind:")}


def replay(case):
    for c in all_cases(case["tier"], case["seed"]):
        key, nontrivial, out, prob, sig, cd = run_case(c) if _matches(c, case) else (None,) * 6
        if key is None:
            continue
        print("case:", cd, "\nobserved:", out)
        return [{"signature": sig, "what": prob, "detail": cd}] if prob else []
    print("case not found in this tier's enumeration")
    return []


def _matches(c, case):
    k = c[0]
    if k != case.get("kind") or c[1] != case.get("local_zone"):
        return False
    c = c[2:]
    if k == "conv":
        return c[0].label == case["value"] and c[1] == case["conversion"]
    if k == "rt":
        return c[0].label == case["value"] and c[1] == case["first"] and c[2] == case["second"]
    if k == "mono":
        return c[0].label == case["x"] and c[1].label == case["y"] and c[2] == case["conversion"]
    return c[0] == case["scheduler"]
