"""C23 An AsyncSubject delivers only the final value (E2, model checking).

BFS over call histories of a fresh real `AsyncSubject` with 3 observers (plain or
scripted, see vf/subjref.py).  Reference: value/has_value model - nothing before
termination; on completion each current subscriber gets the last value (if any) then
completion, later subscribers the same; on error only the error.  Scripted observers
fire inside the on_next that is delivered *during completion*; the statement does not say
whether value+completion go out observer by observer or value-to-all first, so both
disciplines are accepted (two model alternatives, the implementation must agree with one
of them consistently).
"""
from __future__ import annotations

from .. import core, subjref, subj_ilv
from ..subjref import P, US

PROPERTY = "C23"
LEVEL = "model_checking"
META = {
    "engine": "hbfs",
    "technique": "explicit-state BFS over call histories of a real AsyncSubject with heap-canonical state de-duplication, judged by a value/has_value reference model; plus stateless exhaustive exploration of thread interleavings (bounded preemptions) of subscribe() / dispose() racing the emitting thread, judged against the sequential placements on the same real class",
    "text": "every history over sub(i)/unsub(i)/next(a|b)/error/complete/dispose (+ callback-only subscribe after dispose) up to the depth "
    "bound, values incl. falsy ones (0/None/False), for every listed configuration of plain and scripted (re-entrant) observers, is replayed "
    "on a fresh real AsyncSubject; per-observer logs and exceptions raised to the caller must equal the model's after every event. Instances "
    "whose finite state space BFS closes before the depth bound cover histories of any length over the menu",
    "note": "trusted: CPython, vf/hbfs.py canonicaliser, vf/subjref.py (reference model, scripted observers), AutoDetachObserver wrapping by Observable.subscribe",
}
META["text"] += "; thread part: subscribe() and dispose() racing the emitting thread, judged against the sequential placements on the same class; no exception escapes"
RULE = (
    "one BFS per configuration (which of the 3 observers is scripted and how; error object plain or falsy); events = sub(i), unsub(i), "
    "next(a), next(b), error, complete, dispose, subbare (after dispose); a case = one transition (history replayed from scratch on fresh "
    "objects); non-trivial = the last event delivered >=1 notification to an observer or raised to the caller; distinct = (configuration, history)"
)
BUDGET = {"quick": 300.0, "thorough": 1200.0}


def script_sets(tier: str) -> list:
    quick = [
        [P, P, P],
        [US(0), P, P],
        [["unsub", 1], P, P],
        [P, ["unsub", 0], P],
        [["sub", 2], P, P],
        [["unsub", 1], ["unsub", 0], P],
        [["sub", 2], P, US(2)],
        [["sub", 2], P, ["unsub", 0]],
    ]
    if tier == "quick":
        return quick
    out = []
    for s0 in (P, US(0), ["unsub", 1], ["sub", 2]):
        for s1 in (P, US(1), ["unsub", 0], ["sub", 2], ["unsub", 2]):
            for s2 in (P, US(2), ["unsub", 0], ["sub", 1]):
                out.append([s0, s1, s2])
    return out


def configs(tier: str, seed: int):
    vals = subjref.alphabet(seed)
    cfgs = [{"kind": "async", "scripts": s, "values": vals, "err": "plain"} for s in script_sets(tier)]
    cfgs.append({"kind": "async", "scripts": [P, P, P], "values": vals, "err": "falsy"})
    depth = 7 if tier == "quick" else 30
    depths = [depth] * len(cfgs)
    # self-check of the state key (subjref.audit_merges): every merge re-validated by extending both histories
    audits = [[["unsub", 1], ["unsub", 0], P]] if tier == "quick" else [[P, P, P], [["unsub", 1], ["unsub", 0], P], [["sub", 2], P, US(2)]]
    for s in audits:
        cfgs.append({"kind": "async", "scripts": s, "values": vals, "err": "plain", "audit": 4 if tier == "quick" else 5})
        depths.append(0)
    return cfgs, depths


def run(ctx: core.Ctx):
    cfgs, depths = configs(ctx.tier, ctx.seed)
    ctx.bounds = {"depth": max(depths), "observers": 3, "configurations": [subjref.cfg_tag(c) for c in cfgs if not c.get("audit")], "values": repr(cfgs[0]["values"])}
    ctx.assumptions = [
        "observers subscribe through the public Observable.subscribe (AutoDetachObserver in front of every observer)",
        "single thread: every lock is free between events",
        "cross-observer delivery order = subscription order; value+completion either observer by observer or value-to-all first (both accepted)",
    ]
    subjref.run_configs(ctx, cfgs, depths)
    subj_ilv.run_part(ctx, "AsyncSubject")  # E3: subscribe() racing the emitting thread


def replay(case):
    if isinstance(case, dict) and str(case.get("harness", "")).startswith("subject-race|"):
        return subj_ilv.replay("AsyncSubject", case)
    return subjref.replay_case(case)
