"""C07 Slicing an observable behaves like slicing a list (bounded input enumeration).

Enumerated completely per tier: every (start, stop) in {None, -(N+1)..N+1}^2, every
step in {None, 1..N+1}, every input length 0..N, completed and erroring inputs, two
value sets (distinct ints; pairwise distinct falsy values) and the tier's placements of
the input on virtual time; each case runs BOTH forms `source[a:b:c]` and
`ops.slice(a, b, c)` on the real code.  Plus the integer form `source[i]`,
i in -(N+1)..N+1, judged by the documented mapping start=i, stop=i+1 (= list[i:i+1]).
Oracle: Python list slicing.

What the statement fixes and therefore what is compared: the emitted elements, the kind
of termination and that a source error is passed through.  It does not fix instants, so
instants are not compared, except that nothing may be delivered after the instant of the
source's terminal notification.

Erroring input `xs` followed by an error (the list "list(source)" does not exist): with
  certain(xs)    = longest common prefix of (xs + cont)[a:b:c] over all continuations cont
  determined(xs) = (xs + cont)[a:b:c] is the same list for every continuation
(both computed by brute force over continuation lengths 0..K), the accepted results are
  * on_error(the source's error) at the error's instant after a prefix of certain(xs), or
  * completion after exactly xs[a:b:c] if determined(xs) (e.g. take-like early
    completion when 0 <= stop <= len(xs) and start >= 0) -- the operator legitimately
    unsubscribed before the error.
Anything else (no terminal, a different error, elements that no continuation justifies)
is a violation.
"""
from __future__ import annotations

import time as _time

from .. import core, vt

PROPERTY = "C07"
LEVEL = "exploration"
META = {
    "engine": "vtx",
    "technique": "bounded-exhaustive enumeration of (start, stop, step, input length, termination, value set, placement) on the real "
    "slice operator in both spellings, judged by Python list slicing",
    "text": "all start/stop in {None,-(N+1)..N+1}, all steps {None,1..N+1}, all input lengths 0..N, completed and erroring inputs, "
    "source[a:b:c], ops.slice(a,b,c) and source[i] are executed on the real code on virtual time and the emitted elements and the "
    "termination are compared with list slicing; exhaustive within N (4 quick, 6 thorough)",
    "note": "trusted: CPython list slicing, the harness in /verif/vf (LoggedCold source, recorder), VirtualTimeScheduler's queue "
    "discipline (checked by C28/C29). Instants are not compared (the statement does not fix them) except 'nothing after the source's terminal'",
}
RULE = (
    "all tuples (start, stop, step, n, terminal, value set, placement): start, stop in {None,-(N+1)..N+1}, step in {None,1..N+1}, "
    "n in 0..N input elements, terminal in {completed, error}, values = n distinct ints or n distinct falsy values, placement = "
    "one element per instant (quick) + all in one instant + synchronous inside subscribe (thorough); each tuple runs source[a:b:c] "
    "and ops.slice(a,b,c); plus source[i] for i in -(N+1)..N+1. non-trivial = n>=1 and the list slice differs from the "
    "whole input (the slice really selects); distinct = the tuple"
)
BUDGET = {"quick": 150.0, "thorough": 1200.0}

FALSY = (None, 0, False, "", (), 0.0, b"", frozenset())


def bounds(tier):
    if tier == "quick":
        return 4, ("spread",)
    return 6, ("spread", "burst", "sync")


def values_of(vs, n, seed):
    if vs == "ints":
        base = 100 * (seed % 5)
        return [base + i for i in range(n)]
    return list(FALSY[:n])


def timeline(xs, term, placement):
    n = len(xs)
    if placement == "spread":
        tl = [(10 * (i + 1), "N", x) for i, x in enumerate(xs)]
        tl.append((10 * (n + 1), term, "E" if term == "E" else None))
    elif placement == "burst":
        tl = [(10, "N", x) for x in xs]
        tl.append((10, term, "E" if term == "E" else None))
    else:  # sync: delivered inside subscribe
        tl = [(None, "N", x) for x in xs]
        tl.append((None, term, "E" if term == "E" else None))
    return tl


def all_cases(tier, seed):
    N, placements = bounds(tier)
    rng = [None] + list(range(-(N + 1), N + 2))
    steps = [None] + list(range(1, N + 2))
    for placement in placements:
        for vs in ("ints", "falsy"):
            for n in range(N + 1):
                for term in ("C", "E"):
                    for a in rng:
                        for b in rng:
                            for c in steps:
                                yield ("slice", placement, vs, n, term, a, b, c)
                    for i in range(-(N + 1), N + 2):
                        yield ("index", placement, vs, n, term, i, None, None)


# ------------------------------------------------------------------ oracle

class _Cont:
    """A continuation element: distinct from every input value."""

    def __init__(self, k):
        self.k = k

    def __repr__(self):
        return f"<cont{self.k}>"


def causal(xs, sl, K):
    """(certain, determined) for the prefix xs of a source that has not completed."""
    full = [(xs + [_Cont(k) for k in range(m)])[sl] for m in range(K + 1)]
    determined = all(len(f) == len(full[0]) and all(x is y for x, y in zip(f, full[0])) for f in full)
    certain = []
    for pos in range(min(len(f) for f in full)):
        x = full[0][pos]
        if all(f[pos] is x for f in full) and not isinstance(x, _Cont):
            certain.append(x)
        else:
            break
    return certain, determined


def shape(kind, a, b):
    def cls(v):
        return "none" if v is None else ("neg" if v < 0 else "nonneg")

    if kind == "index":
        return cls(a)
    return f"{cls(a)}-start-{cls(b)}-stop"


def run_form(kind, form, tl, a, b, c):
    from reactivex import operators as ops

    env = vt.Env(budget=20000)
    src = env.cold("src", tl)
    rec = env.recorder("out")
    if kind == "index":
        build = lambda: src[a]
    elif form == "getitem":
        build = lambda: src[a:b:c]
    else:
        build = lambda: src.pipe(ops.slice(a, b, c))
    env.subscribe_at(vt.SUB, build, rec)
    status = env.run()
    return env, src, rec, status


def judge_form(kind, form, placement, xs, term, a, b, c, N):
    """Returns (problems [(kind, text)], observed summary)."""
    tl = timeline(xs, term, placement)
    sl = slice(a, a + 1, 1) if kind == "index" else slice(a, b, c)
    env, src, rec, status = run_form(kind, form, tl, a, b, c)
    ev = rec.events()
    got = [v for (t, k, v) in ev if k == "N"]
    terminal = next(((t, k, v) for (t, k, v) in ev if k in "CE"), None)
    t_end = vt.SUB + (tl[-1][0] or 0)
    problems = []
    if status != "ok":
        problems.append(("no-termination", "run did not finish within the action budget"))
    g = rec.grammar_violation()
    if g:
        problems.append(("grammar", g))
    if env.sched.escaped:
        problems.append(("escaped", f"exception escaped into the scheduler: {env.sched.escaped[0][1]!r}"))

    def same(got_vals, want_vals):
        return [vt.norm_value(v) for v in got_vals] == [vt.norm_value(v) for v in want_vals]

    want = xs[sl]
    if term == "C":
        if not same(got, want):
            problems.append(("wrong-result", f"emitted {got!r}, list slicing gives {want!r}"))
        if terminal is None:
            problems.append(("wrong-result", "never terminated although the source completed"))
        elif terminal[1] != "C":
            problems.append(("wrong-result", f"terminated with on_error({terminal[2]!r}) although the source completed"))
    else:
        certain, determined = causal(xs, sl, 3 * (N + 2))
        if terminal is None:
            problems.append(("wrong-result", "never terminated although the source failed"))
        elif terminal[1] == "E":
            if not (isinstance(terminal[2], vt.SrcError) and terminal[2].tag == ("src", "E")):
                problems.append(("wrong-result", f"on_error({terminal[2]!r}) is not the source's error"))
            if not same(got, certain[: len(got)]) or len(got) > len(certain):
                problems.append(("wrong-result", f"emitted {got!r} before the source's error; no more than a prefix of {certain!r} is justified by the input so far"))
        else:
            if not determined:
                problems.append(("wrong-result", f"completed after {got!r} although the source failed and the slice was not yet determined by {xs!r}"))
            elif not same(got, want):
                problems.append(("wrong-result", f"emitted {got!r} and completed, list slicing gives {want!r}"))
    late = [e for e in ev if e[0] > t_end]
    if late:
        problems.append(("late", f"notification at t={late[0][0]} after the source's terminal instant {t_end}"))
    obs = "[" + " ".join((repr(v) if k == "N" else ("|" if k == "C" else "#")) for (t, k, v) in ev) + "]"
    return problems, obs


# what went wrong, most specific first; "wrong-result" = emitted elements or kind of termination differ from list slicing
PRIORITY = ["no-termination", "escaped", "grammar", "wrong-result", "late"]


def first_kind(problems):
    ks = [k for k, _ in problems]
    for p in PRIORITY:
        if p in ks:
            return p
    return None


def judge(case, seed, N):
    """Runs every form of one case.  Returns (violations [(signature, what, problems)], nontrivial, outcome)."""
    kind, placement, vs, n, term, a, b, c = case
    xs = values_of(vs, n, seed)
    out, viols = [], []
    if kind == "index":
        probs, obs = judge_form("index", "getitem", placement, xs, term, a, None, None, N)
        out.append(obs)
        if probs:
            k = first_kind(probs)
            viols.append((f"getitem-int|{shape(kind, a, b)}|{k}", f"source[{a}] on {n} element(s)+{term}: {probs[0][1]}", probs))
        want = xs[a : a + 1]
    else:
        p_ops, o_ops = judge_form("slice", "ops", placement, xs, term, a, b, c, N)
        p_get, o_get = judge_form("slice", "getitem", placement, xs, term, a, b, c, N)
        out += [o_ops, o_get]
        desc = f"[{'' if a is None else a}:{'' if b is None else b}:{'' if c is None else c}] on {n} element(s)+{term}"
        if p_ops:
            viols.append((f"slice|{shape(kind, a, b)}|{first_kind(p_ops)}", f"ops.slice{(a, b, c)} i.e. {desc}: {p_ops[0][1]}", p_ops))
        if p_get and (not p_ops or first_kind(p_get) != first_kind(p_ops) or o_get != o_ops):
            viols.append((f"getitem|{shape(kind, a, b)}|{first_kind(p_get)}", f"source{desc}: {p_get[0][1]}", p_get))
        want = xs[a:b:c]
    nontrivial = n >= 1 and [vt.norm_value(v) for v in want] != [vt.norm_value(v) for v in xs]
    return viols, bool(nontrivial), (term, tuple(out))


def shard(part: core.Part, shard_i, nshards, tier, seed, deadline):
    N, _ = bounds(tier)
    for case in core.shard_iter(all_cases(tier, seed), shard_i, nshards):
        if part.evals % 256 == 0 and _time.time() > deadline:
            part.complete = False
            return
        viols, nontrivial, outcome = judge(case, seed, N)
        rec = {"case": list(case), "tier": tier, "seed": seed}
        part.case(case, nontrivial, outcome=outcome, sample={"case": list(case), "input": repr(values_of(case[2], case[3], seed)), "observed(ops,getitem)": list(outcome[1])})
        part.count("kind:" + case[0])
        part.count("runs", 1 if case[0] == "index" else 2)
        for (sig, what, probs) in viols:
            part.violation(sig, what, rec, problems=[list(p) for p in probs])


def run(ctx: core.Ctx):
    N, placements = bounds(ctx.tier)
    ctx.bounds = {"N": N, "start_stop": f"None,-{N + 1}..{N + 1}", "step": f"None,1..{N + 1}", "lengths": f"0..{N}", "placements": list(placements), "value_sets": ["ints", "falsy"], "forms": ["source[a:b:c]", "ops.slice(a,b,c)", "source[i]"]}
    ctx.assumptions = ["harness LoggedCold source is conforming", "VirtualTimeScheduler queue discipline (checked separately by C28/C29)"]
    ctx.sharded(shard)


def replay(case):
    c = tuple(case["case"])
    N, _ = bounds(case["tier"])
    viols, _, outcome = judge(c, case["seed"], N)
    print("case:", c, "input:", values_of(c[2], c[3], case["seed"]))
    print("observed (ops.slice, getitem):", outcome[1])
    return [{"signature": s, "what": w, "detail": [list(p) for p in probs]} for (s, w, probs) in viols]
