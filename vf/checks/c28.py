"""C28 Virtual time runs actions in due order on a monotone clock (E2, model checking).

Breadth-first search over call histories of the real VirtualTimeScheduler (float clock),
TestScheduler and HistoricalScheduler (datetime clock).  Every history is replayed on a fresh
scheduler next to a reference model (a stable queue ordered by (due, insertion) and a clock);
the oracle runs after every event, so every prefix is judged.  States are merged on the
canonical heap (vf.hbfs.canon) of scheduler + model + pending handles.
"""
from __future__ import annotations

import collections
import os
import shutil
import signal
import tempfile
import time
from datetime import datetime, timedelta, timezone

from .. import core, hbfs

PROPERTY = "C28"
LEVEL = "model_checking"
META = {
    "engine": "hbfs",
    "technique": "explicit-state BFS over call histories of the real virtual-time schedulers, each event judged against a "
    "reference model (stable (due, insertion) queue + clock); heap-canonical state merging",
    "text": "three exhaustive searches per scheduler class (VirtualTimeScheduler float clock, TestScheduler, HistoricalScheduler "
    "datetime clock): FULL menu {schedule_absolute(now|now+1|now+2), schedule_relative(0|1|2), schedule()} x action script {noop, "
    "schedule rel 0, schedule rel 1, cancel the oldest pending, stop()} + cancel(i) + advance_to(now+1|+2) + advance_by(1|2) + "
    "sleep(1) + start() + stop() to depth D_full; MEDIUM menu (two schedule forms x all scripts, cancel(0|1), start, advance_to, "
    "advance_by, sleep) to depth D_medium; NARROW menu (6 events: same-instant and later noop, self-rescheduling, cancelling, "
    "start, advance_to) to depth D_narrow; every state at the depth bound is closed with every run event. On every prefix of "
    "every history the invocation order, the clock read inside each action (clock and now), clock monotonicity, 'cancelled "
    "never run', 'advance_* run exactly the due ones and end at the target' and 'sleep/schedule/cancel run nothing' are compared "
    "with the reference model; exhaustive within the stated depths",
    "note": "trusted: CPython, vf/hbfs.canon (merges only isomorphic heaps), the 60-line reference model in this file. "
    "The clock left by start() is not fixed by the statement (cancelled items still move it): it is only required not to "
    "move backwards and the model re-synchronises to it. stop() called by an action ends the current run after that action "
    "(advance_* still leaves the clock at its target). Zero-length advances are not in the menu (DESIGN.md C28).",
}
RULE = (
    "cases = transitions (state, event) of the BFS: for each of the three menus (see bounds) all histories up to the menu's depth D "
    "from the empty scheduler, states de-duplicated by canonical heap, plus every closing run event (start/advance_to/advance_by) "
    "applied to every depth-D state; "
    "distinct = (scheduler kind, canonical pre-state, event); non-trivial = the event made the scheduler invoke >=2 actions "
    "(the ordering mechanism was exercised); outcome = (event kind, scripts and clock offsets of the invoked actions)"
)
BUDGET = {"quick": 150.0, "thorough": 1500.0}

SCRIPTS = ("noop", "r0", "r1", "cx", "st")
UTC = timezone.utc
KINDS = ("VirtualTimeScheduler", "TestScheduler", "HistoricalScheduler")
RUN_EVENTS = (("start",), ("adv_to", 1), ("adv_to", 2), ("adv_by", 1), ("adv_by", 2))
MAX_INVOCATIONS = 64  # per event; the deepest history schedules < 20 actions


class Runaway(BaseException):
    """More invocations in one event than any history of this depth can cause, or the
    per-event wall watchdog fired (BaseException: the library swallows Exception)."""


# ------------------------------------------------------------------ configurations

class Kind:
    """Concrete representation of times for one scheduler class (chosen by the seed)."""

    def __init__(self, name: str, seed: int):
        self.name = name
        self.unit = (1.0, 2.0, 0.5)[seed % 3]
        if name == "VirtualTimeScheduler":
            self.base = (None, 100.0, 1000.0)[seed % 3]  # None: default constructor (clock 0)
        elif name == "TestScheduler":
            self.base = None
        else:
            self.base = (None, datetime(2000, 1, 1, tzinfo=UTC), datetime(1999, 12, 31, 23, 59, 59, tzinfo=UTC))[seed % 3]
        # HistoricalScheduler accepts timedelta and float seconds as relative time: seed picks
        self.rel_as_float = name != "HistoricalScheduler" or seed % 2 == 1

    def make(self):
        from reactivex.scheduler import HistoricalScheduler, VirtualTimeScheduler
        from reactivex.testing import TestScheduler

        if self.name == "VirtualTimeScheduler":
            return VirtualTimeScheduler() if self.base is None else VirtualTimeScheduler(self.base)
        if self.name == "TestScheduler":
            return TestScheduler()
        return HistoricalScheduler() if self.base is None else HistoricalScheduler(self.base)

    def T(self, x: float):
        """model time (units since the initial clock) -> absolute time in the scheduler's type"""
        if self.name == "HistoricalScheduler":
            b = self.base or datetime.fromtimestamp(0, tz=UTC)
            return b + timedelta(seconds=x * self.unit)
        return (self.base or 0.0) + x * self.unit

    def D(self, k: float):
        s = k * self.unit
        return s if self.rel_as_float else timedelta(seconds=s)

    def off(self, reading) -> float:
        """absolute time in the scheduler's type -> model time"""
        if isinstance(reading, datetime):
            b = self.base or datetime.fromtimestamp(0, tz=UTC)
            return (reading - b).total_seconds() / self.unit
        return (reading - (self.base or 0.0)) / self.unit


# ------------------------------------------------------------------ world = SUT + model

class Shared:
    """What the scheduled actions share with the harness (part of the canonical state)."""

    def __init__(self, rel0, rel1):
        self.log: list = []  # invocations of the event being applied: (act, clock reading, now reading)
        self.handles: list = []  # pending (act, disposable) in insertion order
        self.rel0, self.rel1 = rel0, rel1
        self.rel2 = rel1 + rel1
        self.invocations = 0


class Act:
    def __init__(self, shared: Shared, script: str):
        self.c = shared
        self.script = script
        self.child = Act(shared, "noop") if script in ("r0", "r1") else None

    def __call__(self, scheduler, state=None):
        c = self.c
        c.invocations += 1
        if c.invocations > MAX_INVOCATIONS:
            raise Runaway("more than %d invocations in one event" % MAX_INVOCATIONS)
        c.log.append((self, scheduler.clock, scheduler.now))
        hs = c.handles
        for i in range(len(hs)):
            if hs[i][0] is self:
                del hs[i]
                break
        s = self.script
        if s == "r0":
            hs.append((self.child, scheduler.schedule_relative(c.rel0, self.child)))
        elif s == "r1":
            hs.append((self.child, scheduler.schedule_relative(c.rel1, self.child)))
        elif s == "cx":
            if hs:
                hs.pop(0)[1].dispose()
        elif s == "st":
            scheduler.stop()
        elif s == "sl":
            scheduler.sleep(c.rel2)  # a running action moves the clock itself
        return None


class World:
    def __init__(self, kind: Kind):
        self.kind = kind
        self.sched = kind.make()
        self.c = Shared(kind.D(0), kind.D(1))
        # reference model: clock in units, queue = [(due, act)] stable by (due, insertion), pending in insertion order
        self.m_clock = 0.0
        self.m_q: list = []
        self.m_pending: list = []
        self.problem: tuple[str, str] | None = None  # (class, text)
        self.trace: list = []  # per event: (event, [(script, clock offset)], clock after)
        self.last_invoked = 0
        self.last_outcome = None
        self.conflict = False

    # -- model ---------------------------------------------------------------
    def m_enqueue(self, due: float, act: Act) -> None:
        q = self.m_q
        i = len(q)
        while i > 0 and q[i - 1][0] > due:
            i -= 1
        q.insert(i, (due, act))
        self.m_pending.append(act)

    def m_remove(self, act: Act) -> None:
        self.m_pending.remove(act)
        for i, (_, a) in enumerate(self.m_q):
            if a is act:
                del self.m_q[i]
                return

    def m_run(self, target: float | None) -> list:
        expected = []
        q = self.m_q
        while q:
            due, act = q[0]
            if target is not None and due > target:
                break
            del q[0]
            self.m_pending.remove(act)
            if due > self.m_clock:
                self.m_clock = due
            expected.append((act, self.m_clock))
            s = act.script
            if s == "r0":
                self.m_enqueue(self.m_clock, act.child)
            elif s == "r1":
                self.m_enqueue(self.m_clock + 1, act.child)
            elif s == "cx":
                if self.m_pending:
                    self.m_remove(self.m_pending[0])
            elif s == "st":
                break
            elif s == "sl":
                self.m_clock += 2
        self.conflict = False
        if target is not None:
            if self.m_clock > target:
                # an action slept past the target: "leaves the clock at the target" and "the clock never moves backwards"
                # cannot both hold; the statement does not say which wins, so the final clock of this event is not judged
                self.conflict = True
            else:
                self.m_clock = target
        return expected

    # -- one event on both ---------------------------------------------------
    def apply(self, ev) -> None:
        k, sched, c = self.kind, self.sched, self.c
        c.log.clear()
        c.invocations = 0
        self.conflict = False
        before = sched.clock
        pend_before = list(self.m_pending)
        name = ev[0]
        expected: list = []
        exact_clock = True
        err = None
        try:
            if name in ("abs", "rel", "imm"):
                script = ev[-1]
                act = Act(c, script)
                if name == "abs":
                    d = sched.schedule_absolute(k.T(self.m_clock + ev[1]), act)
                    due = self.m_clock + ev[1]
                elif name == "rel":
                    d = sched.schedule_relative(k.D(ev[1]), act)
                    due = self.m_clock + ev[1]
                else:
                    d = sched.schedule(act)
                    due = self.m_clock
                c.handles.append((act, d))
                self.m_enqueue(due, act)
            elif name == "cancel":
                act, d = c.handles.pop(ev[1])
                d.dispose()
                self.m_remove(act)
            elif name == "adv_to":
                target = self.m_clock + ev[1]
                sched.advance_to(k.T(target))
                expected = self.m_run(target)
                exact_clock = not self.conflict
            elif name == "adv_by":
                target = self.m_clock + ev[1]
                sched.advance_by(k.D(ev[1]))
                expected = self.m_run(target)
                exact_clock = not self.conflict
            elif name == "sleep":
                sched.sleep(k.D(ev[1]))
                self.m_clock += ev[1]
            elif name == "start":
                sched.start()
                expected = self.m_run(None)
                exact_clock = False
            elif name == "stop":
                sched.stop()
            else:
                raise ValueError(ev)
        except Exception as e:  # the menu contains no call that may raise
            err = e
        after = sched.clock
        log = list(c.log)
        c.log.clear()
        c.invocations = 0  # per-event scratch, not part of the state
        self.last_invoked = len(log)
        self.trace.append((ev, [(a.script, k.off(t)) for (a, t, _) in log], k.off(after)))
        self.last_outcome = (name, tuple((a.script, k.off(t) - k.off(before)) for (a, t, _) in log), k.off(after) - k.off(before))
        if err is not None:
            self.problem = ("exception", f"{name} raised {err!r}")
            return
        self.problem = self.judge(ev, log, expected, before, after, pend_before, exact_clock)
        if not exact_clock and self.problem is None:
            # start(): the final clock is not pinned; sleep past an advance target: not judged.  Follow the SUT.
            self.m_clock = k.off(after) if getattr(self, "conflict", False) else max(self.m_clock, k.off(after))

    def judge(self, ev, log, expected, before, after, pend_before, exact_clock):
        k = self.kind
        name = ev[0]
        got = [a for (a, _, _) in log]
        exp = [a for (a, _) in expected]
        # order / membership
        if [id(a) for a in got] != [id(a) for a in exp]:
            if name == "sleep" or name in ("abs", "rel", "imm", "cancel", "stop"):
                return ("ran-outside-run", f"{name} invoked {len(got)} action(s); it must run nothing")
            allowed = {id(a) for a in pend_before}
            for a in pend_before:
                if a.child is not None:
                    allowed.add(id(a.child))
            seen = set()
            for a in got:
                if id(a) not in allowed or id(a) in seen:
                    return ("ran-cancelled-or-twice", f"{name} invoked an action that was cancelled or had already run ({a.script})")
                seen.add(id(a))
            if sorted(map(id, got)) == sorted(map(id, exp)):
                gi = [exp.index(a) for a in got]
                return ("order", f"{name} ran the due actions in order {gi}, expected 0..{len(exp) - 1} (due time, then first scheduled first)")
            if len(got) < len(exp) and [id(a) for a in got] == [id(a) for a in exp[: len(got)]]:
                return ("due-not-run", f"{name} ran {len(got)} of the {len(exp)} actions that were due")
            if len(got) > len(exp) and [id(a) for a in got[: len(exp)]] == [id(a) for a in exp]:
                return ("ran-not-due", f"{name} ran {len(got)} actions, only {len(exp)} were due")
            return ("wrong-actions", f"{name} ran {[a.script for a in got]}, expected {[a.script for a in exp]}")
        # clock at each invocation, and monotonicity over all readings of this event
        prev = before
        for (a, t, now), (_, x) in zip(log, expected):
            if t < prev:
                return ("clock-backwards", f"clock went from {prev!r} to {t!r} inside {name}")
            prev = t
            if t != k.T(x):
                return ("clock-at-invocation", f"action ({a.script}) due at model time {x} saw clock {t!r}, expected {k.T(x)!r}")
            if now != self.sched.to_datetime(k.T(x)):
                return ("now-at-invocation", f"action ({a.script}) saw now={now!r}, expected {self.sched.to_datetime(k.T(x))!r}")
        if after < prev and not getattr(self, "conflict", False):
            return ("clock-backwards", f"clock went from {prev!r} to {after!r} at the end of {name}")
        if exact_clock:
            if after != k.T(self.m_clock):
                return ("clock-after", f"clock after {name} is {after!r}, expected {k.T(self.m_clock)!r}")
        return None


def build(kind: Kind, history) -> World:
    w = World(kind)
    signal.setitimer(signal.ITIMER_REAL, 30.0)
    try:
        for ev in history:
            w.apply(tuple(ev))
            if w.problem is not None:
                break
    except Runaway as e:
        w.problem = ("runaway", str(e))
    finally:
        signal.setitimer(signal.ITIMER_REAL, 0.0)
    return w


def _alarm(signum, frame):
    raise Runaway("an event did not return within 30 s (hang)")


def roots(w: World):
    return (w.sched, w.c.handles, w.m_clock, w.m_q, w.m_pending)


def menu_full():
    evs = []
    for s in SCRIPTS:
        evs.append(("imm", s))
        for k in (0, 1, 2):
            evs.append(("abs", k, s))
        for k in (0, 1, 2):
            evs.append(("rel", k, s))
    evs += [("start",), ("adv_to", 1), ("adv_to", 2), ("adv_by", 1), ("adv_by", 2), ("sleep", 1), ("stop",)]
    return evs


def menu_medium():
    evs = []
    for s in SCRIPTS + ("sl",):  # "sl": the action calls scheduler.sleep(2) itself
        evs += [("abs", 0, s), ("rel", 1, s)]
    evs += [("start",), ("adv_to", 1), ("adv_by", 2), ("sleep", 1)]
    return evs


def menu_narrow():
    return [("abs", 0, "noop"), ("abs", 1, "noop"), ("imm", "r0"), ("rel", 0, "cx"), ("start",), ("adv_to", 1)]


RUN3 = (("start",), ("adv_to", 1), ("adv_to", 2))
# label -> (events, how many of the oldest pending handles cancel(i) may address, closing run events)
MENUS = {
    "full": (menu_full(), 8, RUN_EVENTS),
    "medium": (menu_medium(), 2, RUN3),
    "narrow": (menu_narrow(), 0, RUN3),
}
LABELS = ("full", "medium", "narrow")


def enabled(w: World, menu, cancel_limit):
    evs = list(menu)
    for i in range(min(len(w.c.handles), cancel_limit)):
        evs.append(("cancel", i))
    return evs


def sig(kind: Kind, ev, problem) -> str:
    return f"{kind.name}|{ev[0]}|{problem[0]}"


# ------------------------------------------------------------------ search

class Search:
    def __init__(self, kind: Kind, label):
        self.kind, self.label = kind, label
        self.menu, self.cancel_limit, self.closing = MENUS[label]
        self.transitions = 0
        self.states: set[str] = set()
        self.max_depth = 0
        self.merges = 0

    def step(self, part, h, k_pre, ev, tier, seed, want_canon=True):
        """Execute history h+[ev]; judge; report.  Returns (world, canon key or None)."""
        h2 = h + [ev]
        w = build(self.kind, h2)
        self.transitions += 1
        self.max_depth = max(self.max_depth, len(h2))
        if part is not None:
            part.case(
                (self.kind.name, k_pre, ev),
                w.last_invoked >= 2,
                outcome=w.last_outcome,
                sample={"scheduler": self.kind.name, "menu": self.label, "history": h2, "trace": w.trace} if len(h2) >= 4 and w.last_invoked >= 2 else None,
            )
            part.count("transitions:" + self.kind.name)
            part.count("depth%d" % len(h2))
            if w.last_invoked:
                part.count("invocations", w.last_invoked)
            if w.problem is not None:
                case = {"scheduler": self.kind.name, "history": h2, "seed": seed, "tier": tier}
                part.violation(sig(self.kind, ev, w.problem), f"{self.kind.name} after {h2}: {w.problem[1]}", case, trace=w.trace)
        if w.problem is not None or not want_canon:
            return w, None
        return w, hbfs.canon(roots(w))

    def run(self, part, root_histories, depth, closing, deadline, tier, seed, collect_frontier_at=None):
        """Multi-root BFS.  All roots have the same length.  Returns the list of new states found at
        depth collect_frontier_at (not expanded) if given, else []."""
        frontier: collections.deque = collections.deque()
        out = []
        for h in root_histories:
            w = build(self.kind, h)
            k = hbfs.canon(roots(w))
            if k in self.states:
                continue
            self.states.add(k)
            frontier.append((h, k))
        n = 0
        while frontier:
            h, k = frontier.popleft()
            n += 1
            if n % 16 == 0 and time.time() > deadline:
                if part is not None:
                    part.complete = False
                return out
            w = build(self.kind, h)
            if len(h) >= depth:
                if closing:
                    for ev in self.closing:
                        self.step(part, h, k, ev, tier, seed, want_canon=False)
                continue
            for ev in enabled(w, self.menu, self.cancel_limit):
                w2, k2 = self.step(part, h, k, ev, tier, seed)
                if k2 is None:
                    continue
                if k2 in self.states:
                    self.merges += 1
                    continue
                self.states.add(k2)
                h2 = h + [ev]
                if collect_frontier_at is not None and len(h2) >= collect_frontier_at:
                    out.append(h2)
                else:
                    frontier.append((h2, k2))
        return out


def bounds(tier):
    # depth of the exhaustive search per menu; every depth-D state is then closed with the menu's run events
    return {"quick": {"full": 3, "medium": 4, "narrow": 6}, "thorough": {"full": 4, "medium": 5, "narrow": 8}}[tier]


PREFIX = 2
_prefix_cache: dict = {}


def prefix_roots(kindname, label, tier, seed, part):
    """Depth-PREFIX BFS, identical in every worker; only the caller holding `part` reports it."""
    key = (kindname, label, tier, seed)
    if key in _prefix_cache and part is None:
        return _prefix_cache[key]
    kind = Kind(kindname, seed)
    s = Search(kind, label)
    fr = s.run(part, [[]], PREFIX, False, time.time() + 600, tier, seed, collect_frontier_at=PREFIX)
    _prefix_cache[key] = (fr, s)
    return fr, s


def work_items(tier, seed):
    """Deterministic list of (kind, menu label, root index) — roots are the depth-PREFIX frontier."""
    items = []
    for kn in KINDS:
        for label in LABELS:
            fr, _ = prefix_roots(kn, label, tier, seed, None)
            for i in range(len(fr)):
                items.append((kn, label, i))
    return items


def shard(part: core.Part, shard_i, nshards, tier, seed, deadline, tmpdir):
    signal.signal(signal.SIGALRM, _alarm)
    B = bounds(tier)
    mine: dict = {}
    for (kn, label, i) in core.shard_iter(work_items(tier, seed), shard_i, nshards):
        mine.setdefault((kn, label), []).append(i)
    digests: list[str] = []
    stats = {"transitions": 0, "merges": 0}
    for kn in KINDS:
        for label in LABELS:
            depth = B[label]
            if shard_i == 0:
                # the shared prefix is reported exactly once
                fr, s0 = prefix_roots(kn, label, tier, seed, part)
                digests.extend(s0.states)
                stats["transitions"] += s0.transitions
                stats["merges"] += s0.merges
            idx = mine.get((kn, label))
            if not idx:
                continue
            fr, s0 = prefix_roots(kn, label, tier, seed, None)
            kind = Kind(kn, seed)
            s = Search(kind, label)
            s.states = set(s0.states)  # states of the shared prefix are already expanded
            for i in idx:
                s.states.discard(hbfs.canon(roots(build(kind, fr[i]))))
            s.run(part, [fr[i] for i in idx], depth, True, deadline, tier, seed)
            digests.extend(s.states - s0.states)
            stats["transitions"] += s.transitions
            stats["merges"] += s.merges
    for k_, v in stats.items():
        part.count(k_, v)
    with open(os.path.join(tmpdir, f"states-{shard_i}.txt"), "w") as fh:
        fh.write("\n".join(digests))


def run(ctx: core.Ctx):
    B = bounds(ctx.tier)
    ctx.bounds = {
        "schedulers": list(KINDS),
        "depth_per_menu": B,
        "menus": {lb: {"events": [list(e) for e in MENUS[lb][0]], "cancel_i_below": MENUS[lb][1], "closing_run_events": [list(e) for e in MENUS[lb][2]]} for lb in LABELS},
        "max_history_length": max(B.values()) + 1,
    }
    ctx.assumptions = [
        "single-threaded use of the scheduler (threads are C31/C34's subject)",
        "the clock left by start() is not pinned by the statement; only monotonicity is required of it",
        "stop() inside an action ends the current run after that action",
        "zero-length advances (advance_to(now), advance_by(0)) are outside the menu (pinned as no-ops upstream)",
    ]
    tmpdir = tempfile.mkdtemp(prefix="vf_c28_")
    try:
        part = ctx.sharded(shard, extra=(tmpdir,))
        states: set[str] = set()
        for f in os.listdir(tmpdir):
            with open(os.path.join(tmpdir, f)) as fh:
                states.update(x for x in fh.read().split("\n") if x)
    finally:
        shutil.rmtree(tmpdir, ignore_errors=True)
    ctx.cov["states"] = len(states)
    ctx.cov["transitions"] = part.counters.get("transitions", 0)
    ctx.cov["traces_validated_against_impl"] = part.counters.get("transitions", 0)
    ctx.cov["max_depth"] = max([int(k[5:]) for k in part.counters if k.startswith("depth")] or [0])
    ctx.cov["merges"] = part.counters.get("merges", 0)
    ctx.cov["actions_invoked"] = part.counters.get("invocations", 0)
    ctx.cov["explanation"] = (
        "states = distinct canonical heaps (scheduler + model + pending handles) over all shards and scheduler kinds, "
        "depth-(D+1) closing states not included; every transition is one history executed on the real scheduler and "
        "validated event by event against the reference model"
    )


def replay(case):
    signal.signal(signal.SIGALRM, _alarm)
    kind = Kind(case["scheduler"], case["seed"])
    h = [tuple(e) for e in case["history"]]
    w = build(kind, h)
    for (ev, invoked, after) in w.trace:
        print(f"  {ev}: invoked {invoked} clock-after={after}")
    if w.problem is None:
        return []
    print("problem:", w.problem)
    return [{"signature": sig(kind, h[len(w.trace) - 1], w.problem), "what": w.problem[1], "detail": core.jsonable(w.trace)}]
