"""C22 A ReplaySubject replays exactly its retained values, in order (E2, model checking).

BFS over call histories of a fresh real `ReplaySubject(buffer_size, window, scheduler)`
on a virtual-time scheduler with 3 observers, one BFS instance per (buffer_size, window,
script configuration).  Extra events tick(5|10) move the virtual clock (windows 5/10 are
shorter than the histories, ages exactly equal to the window occur; 1000 is longer than
any history).  The subject's per-subscriber ScheduledObserver delivers through the
scheduler, so after every event the scheduler is run to quiescence inside the current
instant before the logs are compared.

Reference (vf/subjref.py, sched mode): a new subscriber's FIFO starts with the retained
values (the last buffer_size values whose age at subscription is <= window) followed by
the terminal if one occurred; later notifications are appended to the FIFO of every
subscription registered when the call is made; an unsubscribed subscription gets nothing
more.  The statement fixes order per subscriber only: the order in which two different
subscribers' FIFOs are drained in one instant is left open, so the scripted observers
admitted here are the ones whose effect does not depend on it (self-unsubscription, and
subscribing a plain observer nobody else touches).
"""
from __future__ import annotations

from .. import core, subjref, subj_ilv
from ..subjref import P, US

PROPERTY = "C22"
LEVEL = "model_checking"
META = {
    "engine": "hbfs",
    "technique": "explicit-state BFS over call histories of a real ReplaySubject on a virtual-time scheduler with heap-canonical state "
    "de-duplication, judged by a plain-list reference model (retained suffix by count and age, per-subscriber FIFO); plus stateless exhaustive exploration of thread interleavings (bounded preemptions) of subscribe() / dispose() racing the emitting thread, judged against the sequential placements on the same real class",
    "text": "every history over sub(i)/unsub(i)/next(a|b)/error/complete/dispose/tick(5|10) (+ callback-only subscribe after dispose) up to "
    "the depth bound, for every buffer_size in {None,0,1,2[,3]} x window in {None,[5,]10,1000} (ages below, equal to and above the window) and "
    "every listed configuration of plain and scripted (re-entrant) observers, is replayed on a fresh real ReplaySubject; after every event the "
    "virtual scheduler is drained within the instant and per-observer logs and exceptions raised to the caller must equal the model's; "
    "exhaustive within the depth bound (the state space is unbounded: clock and buffer grow)",
    "note": "trusted: CPython, vf/hbfs.py canonicaliser, vf/subjref.py (reference model, scripted observers), VirtualTimeScheduler's queue "
    "discipline (C28/C29), AutoDetachObserver wrapping by Observable.subscribe",
}
META["text"] += "; thread part: subscribe() (meeting two retained values) and dispose() racing the emitting thread, judged against the sequential placements on the same class; no exception escapes"
RULE = (
    "one BFS per configuration (buffer_size, window, which of the 3 observers is scripted and how); events = sub(i), unsub(i), next(a), "
    "next(b), error, complete, dispose, tick(5), tick(10) (windowed configurations), subbare (after dispose); a case = one transition "
    "(history replayed from scratch on fresh objects incl. a fresh scheduler); non-trivial = the last event delivered >=1 notification "
    "to an observer or raised to the caller; distinct = (configuration, history)"
)
BUDGET = {"quick": 300.0, "thorough": 1800.0}

SCRIPTS = [
    [P, P, P],
    [US(0), P, P],              # unsubscribes itself on its first on_next (possibly in the middle of its replay)
    [["sub", 2], P, P],         # subscribes a new observer from inside on_next
    [["sub", 2], US(1), P],
    [US(0), US(1), P],
]


def grid(tier: str):
    if tier == "quick":
        return [None, 0, 1, 2], [None, 10, 1000]
    return [None, 0, 1, 2, 3], [None, 5, 10, 1000]


def configs(tier: str, seed: int):
    vals = subjref.alphabet(seed)
    sizes, windows = grid(tier)
    cfgs, depths = [], []
    for bs in sizes:
        for w in windows:
            for si, s in enumerate(SCRIPTS):
                if tier == "quick" and si in (2, 4):
                    continue  # quick: plain, self-unsubscribing, and subscribing+self-unsubscribing observers
                cfgs.append({"kind": "replay", "bs": bs, "window": w, "scripts": s, "values": vals, "err": "plain"})
                depths.append(5 if tier == "quick" else (8, 7, 6, 7, 6)[si])
    # self-check of the state key (subjref.audit_merges): every merge re-validated by extending both histories
    for (bs, w, s) in ([(1, 10, SCRIPTS[3])] if tier == "quick" else [(1, 10, SCRIPTS[3]), (2, 10, SCRIPTS[0]), (None, 1000, SCRIPTS[1])]):
        cfgs.append({"kind": "replay", "bs": bs, "window": w, "scripts": s, "values": vals, "err": "plain", "audit": 3 if tier == "quick" else 4})
        depths.append(0)
    return cfgs, depths


def run(ctx: core.Ctx):
    cfgs, depths = configs(ctx.tier, ctx.seed)
    sizes, windows = grid(ctx.tier)
    real = [d for d in depths if d]  # audit instances carry depth 0 here
    ctx.bounds = {"depth": {subjref.script_tag({"scripts": s}): sorted({d for c, d in zip(cfgs, depths) if d and c["scripts"] == s}) for s in SCRIPTS if any(d and c["scripts"] == s for c, d in zip(cfgs, depths))}, "observers": 3, "buffer_size": repr(sizes),
                  "window": repr(windows), "ticks": [5, 10], "script_configurations": sorted({subjref.script_tag(c) for c in cfgs}),
                  "configurations": len(real), "values": repr(cfgs[0]["values"])}
    ctx.assumptions = [
        "observers subscribe through the public Observable.subscribe (AutoDetachObserver in front of every observer)",
        "single thread; the scheduler is a virtual-time scheduler run to quiescence after every event (no event happens while notifications are in flight, except from inside a callback)",
        "age == window counts as within the window",
        "order between different subscribers' deliveries in one instant is not constrained (only order-insensitive scripts are used)",
    ]
    subjref.run_configs(ctx, cfgs, depths)
    subj_ilv.run_part(ctx, "ReplaySubject")  # E3: subscribe() / dispose() racing the emitting thread


def replay(case):
    if isinstance(case, dict) and str(case.get("harness", "")).startswith("subject-race|"):
        return subj_ilv.replay("ReplaySubject", case)
    return subjref.replay_case(case)
