"""C01 Every subscriber sees a well-formed notification sequence (E1, bounded-exhaustive pipelines).

Enumerated completely per phase (vf/pipegen.py): every pipeline of the phase x {cold, hot,
rogue} source x timelines of catalogue.TLS (the three non-conforming timelines — element after
the terminal, error then element then completion, two completions — with the rogue source,
which also ignores disposal; the 11 conforming ones with cold and hot) x inner policy, and for
each such base case: the fault-free run, then one run per fault position
  * every probe slot (user callback) of the pipeline armed at its k-th invocation,
    k <= min(invocations of that slot in the fault-free run, 3);
  * the subscriber's own on_next raising at its k-th call (k <= min(calls, 3)), its on_error
    raising, its on_completed raising (when the fault-free run delivered one).
Slots and invocation counts are read from the fault-free run, so nothing is guessed.

Oracle (R1): for the outer recorder and for every recorder subscribed to a window/group handed
to it: on_next* (on_error | on_completed)?, no call after the terminal one, no call after the
recorder's own dispose() returned.  Non-conforming sources violate the grammar upstream on
purpose; the oracle is only about what reaches subscribers.  Exceptions that escape into the
scheduler or into the hot emitter are not this property's business (C09).
"""
from __future__ import annotations

from .. import core, pipegen as pg, vt

PROPERTY = "C01"
LEVEL = "exploration"
META = {
    "engine": "vtx",
    "technique": "bounded-exhaustive enumeration of operator pipelines (depth<=3 over the operator catalogue) x conforming and non-conforming "
    "sources x structural timelines x inner-subscription policies x every single fault position (user callback or subscriber callback raising "
    "at its k-th invocation) on virtual time; grammar oracle on every subscriber",
    "text": "every enumerated pipeline/source/timeline/fault combination is executed on the real operators; each subscriber (outer and "
    "window/group subscribers) must see on_next* followed by at most one terminal and nothing afterwards; exhaustive within the phases "
    "listed in coverage.phases_completed",
    "note": "trusted: CPython, the harness in /verif/vf (sources, recorder, probes, catalogue), VirtualTimeScheduler's queue discipline (C28/C29)",
}
RULE = (
    "base cases = pipelines of the phase (d1: each catalogue entry; d2core: core x core; d2: all x core both orders; d3: core^3) x "
    "({cold,hot} x 11 conforming timelines + rogue x 3 non-conforming timelines) x inner policy {sub,sub1,none} when the last stage hands out "
    "windows/groups; per base case the fault-free run + one run per (probe slot, k<=min(count,3)) + one per subscriber callback fault. "
    "non-trivial = some subscriber received >=1 notification and, for a fault run, the armed fault was actually raised, and, for a rogue run, "
    "the source delivered a notification after its first terminal; distinct = (pipeline, source, timeline, policy, fault)"
)
BUDGET = {"quick": 150.0, "thorough": 900.0}
KMAX = 3
# depth-3 pipelines: all timelines too (set a tuple of names here to restrict the conforming ones if the budget ever requires it)
D3_TLS = None


def judge(base, R):
    problems = []
    for r in pg.recorders(R):
        g = r.grammar_violation()
        if g:
            which = "outer" if r is R.rec else "inner"
            cls = "after-dispose" if "after dispose() returned" in g else "after-terminal"
            problems.append((f"{which}:{cls}", None, g))
    return problems


def fault_positions(R0):
    """Deviations derived from the fault-free run."""
    out = []
    for slot in sorted(R0.env.probe_counts):
        for k in range(1, min(R0.env.probe_counts[slot], KMAX) + 1):
            out.append({"arm": (slot, k)})
    c = R0.rec.counts
    for k in range(1, min(c["N"], KMAX) + 1):
        out.append({"rec_fault": ("N", k)})
    if c["E"]:
        out.append({"rec_fault": ("E", 1)})
    if c["C"]:
        out.append({"rec_fault": ("C", 1)})
    return out


def reenter_positions(base, R0):
    """Re-entrancy from user code: from inside the subscriber's own k-th on_next / terminal callback the (hot, still live)
    main source synchronously emits one more element or a terminal."""
    if base[1] != "hot" or getattr(R0.main, "done", True) and not R0.rec.counts["N"]:
        return []
    out = []
    c = R0.rec.counts
    for emit in ("N", "C", "E"):
        if c["N"]:
            out.append({"reenter": ("N", 1, emit)})
        if c["C"]:
            out.append({"reenter": ("C", 1, emit)})
        if c["E"]:
            out.append({"reenter": ("E", 1, emit)})
    return out


def signature(base, problem, dev):
    f = "nofault"
    if dev.get("arm"):
        f = "fault:" + dev["arm"][0]
    elif dev.get("rec_fault"):
        f = "fault:subscriber." + dev["rec_fault"][0]
    elif dev.get("reenter"):
        f = "reenter:in-%s-emit-%s" % (dev["reenter"][0], dev["reenter"][2])
    return f"{pg.pname(base[0])}|{problem[0]}|{base[1]}|{f}"


def one(part, base, seed, dev, R):
    problems = judge(base, R)
    notified = any(r.log for r in pg.recorders(R))
    fault_ok = (not dev) or bool(R.env.injected) or bool(dev.get("reenter") and R.reentered)
    rogue_ok = base[1] != "rogue" or R.status == "ok"
    nontrivial = notified and fault_ok and rogue_ok and R.status == "ok"
    outcome = (R.status, R.rec.kinds(), tuple(r.kinds() for r in R.inner if r is not None)[:6], bool(R.env.injected), len(R.env.sched.escaped) > 0)
    key = (base, repr(sorted(dev.items())))
    part.case(key, nontrivial, outcome=outcome, sample={"case": pg.descriptor(base, seed, **dev), "outer": R.rec.kinds(), "inner": [r.kinds() for r in R.inner if r is not None]} if (nontrivial and dev) else None)
    if R.status != "ok":
        part.count("budget_runs")
        if len(part.notes) < 3:
            part.notes.append(f"run exceeded the action budget: {pg.descriptor(base, seed, **dev)}")
    if R.drain == "budget":
        part.count("runs_with_endless_activity_after_horizon")
    if dev and not R.env.injected and not dev.get("reenter"):
        part.count("fault_not_reached")
    for p in problems[:1]:
        part.violation(signature(base, p, dev), f"{pg.pname(base[0])} over {base[1]} {base[2]} (inner policy {base[3]}, deviation {dev or 'none'}): {p[2]}",
                       pg.descriptor(base, seed, **dev), problems=[x[2] for x in problems])


def shard(part: core.Part, shard_i, nshards, tier, seed, deadline, phase):
    clock = pg.Clock(deadline)
    gen = pg.base_cases(phase, kinds=("cold", "hot", "rogue"), tl_names_by_depth={3: D3_TLS} if D3_TLS else None, include_sync=True)
    for base in core.shard_iter(gen, shard_i, nshards):
        R0 = pg.run(base, seed)
        one(part, base, seed, {}, R0)
        part.count("base_cases")
        for dev in fault_positions(R0) + reenter_positions(base, R0):
            if clock.expired():
                part.complete = False
                return
            one(part, base, seed, dev, pg.run(base, seed, **dev))


def run(ctx: core.Ctx):
    phases = ("d0",) + tuple(pg.QUICK if ctx.tier == "quick" else pg.THOROUGH)
    use, skipped = pg.entries()
    ctx.bounds = {"phases": list(phases), "catalogue_entries": len(use), "core_entries": sum(1 for e in use if "core" in e.flags),
                  "sources": ["cold", "hot", "rogue"], "timelines": "catalogue.TLS: 11 conforming (cold, hot) + 3 non-conforming (rogue), at every depth",
                  "inner_policies": list(pg.POLICIES), "fault_k_max": KMAX, "skipped_entries": skipped}
    ctx.assumptions = ["VirtualTimeScheduler queue discipline (checked separately by C28/C29)", "at most one fault per run",
                       "every subscriber subscribes through Observable.subscribe (as the library's public API requires)"]
    pg.run_phases(ctx, shard, phases)


def replay(case):
    base, seed, dev = pg.from_descriptor(case)
    R = pg.run(base, seed, **dev)
    print("observed:", pg.show_run(R))
    problems = judge(base, R)
    return [{"signature": signature(base, p, dev), "what": p[2], "detail": [x[2] for x in problems]} for p in problems[:1]]
