"""C35 Periodic scheduling threads state, keeps the period and stops — virtual-time part.

Stand-alone wrapper around vf.periodic_vt.run_virtual (the thread-interleaving part on
EventLoopScheduler / NewThreadScheduler is added by the E3 harness).
"""
from __future__ import annotations

from .. import core, ilvrun, periodic_ilv, periodic_vt

PROPERTY = "C35"
LEVEL = "model_checking"
META = {
    "engine": "ilv",
    "technique": "bounded-exhaustive enumeration of (scheduler, wrapper, period, dispose instant, raise position, work inside "
    "the action) on real virtual-time schedulers against an arithmetic reference (k*period, threaded state)",
    "text": "schedule_periodic on VirtualTimeScheduler, TestScheduler, HistoricalScheduler and CatchScheduler over each of them, "
    "and reactivex.interval / periodic reactivex.timer on them: every period of the list, dispose at every instant of the grid up "
    "to the horizon (from inside the run and from outside), raise at every tick up to K; invocations must be exactly at "
    "k*period with the state returned by the previous invocation, none after dispose() returned, none after a raise; "
    "interval/timer must emit 0,1,2,.. at d0+i*period. E3 part: the same on EventLoopScheduler, NewThreadScheduler and CatchScheduler over "
    "them under the controlled clock, all interleavings of the disposing thread with the scheduler threads within the preemption/tick bounds: state threaded, no tick before k*period, "
    "at most the tick in flight after dispose() returned, none after a raise, handler called once.",
    "note": "trusted: CPython, the virtual-time queue discipline (C28); a tick and a dispose that are both actions of the same "
    "instant may come in either order (R3). Threaded schedulers: preemption at sync operations and line boundaries of the focus files.",
}
RULE = (
    "cases = (part A: scheduler kind, bare|CatchScheduler verdict, period, dispose spec, raise tick, work) and (part B: scheduler "
    "kind, wrapper, scheduler passed to factory|subscribe, interval|timer(d0), period, dispose spec), all enumerated; distinct = "
    "that tuple; non-trivial = >=2 invocations happened, or >=1 and a dispose or raise was part of the case; outcome = (number "
    "and times of invocations, escaped exceptions, handler calls, dispose time)"
)
BUDGET = {"quick": 150.0, "thorough": 1500.0}


def shard(part: core.Part, shard_i, nshards, tier, seed, deadline):
    periodic_vt.run_virtual(part, tier, seed, deadline, shard=shard_i, nshards=nshards)


def run(ctx: core.Ctx):
    ctx.bounds = dict(periodic_vt.bounds_virtual(ctx.tier))
    ctx.bounds["e3"] = "EventLoop/NewThread (+CatchScheduler) periodic, PB 1 TB 1" if ctx.tier == "quick" else "PB 2 TB 1"
    ctx.assumptions = ["queue discipline of the virtual-time schedulers (C28)", "E3 part: controlled clock and threads (vf/ilv.py), preemption at sync operations and line boundaries of periodicscheduler.py/newthreadscheduler.py/catchscheduler.py"]
    ctx.sharded(shard)
    virt = ctx.total.evals
    ctx.sharded(periodic_ilv.shard, nshards=len(periodic_ilv.harnesses(ctx.tier)))
    ilvrun.finish_cov(ctx, ctx.total, extra_states=virt, extra_transitions=virt)
    ctx.cov["states_note"] = "states = complete thread schedules explored (E3) + virtual-time cases (each a complete run of the real scheduler); transitions = scheduling decisions + virtual-time cases"


def replay(case):
    if isinstance(case, dict) and "harness" in case:
        return periodic_ilv.replay(case)
    return periodic_vt.replay_virtual(case)
