"""C35 Periodic scheduling threads state, keeps the period and stops — virtual-time part.

Stand-alone wrapper around vf.periodic_vt.run_virtual (the thread-interleaving part on
EventLoopScheduler / NewThreadScheduler is added by the E3 harness).
"""
from __future__ import annotations

from .. import core, periodic_vt

PROPERTY = "C35"
LEVEL = "exploration"
META = {
    "engine": "vtx",
    "technique": "bounded-exhaustive enumeration of (scheduler, wrapper, period, dispose instant, raise position, work inside "
    "the action) on real virtual-time schedulers against an arithmetic reference (k*period, threaded state)",
    "text": "schedule_periodic on VirtualTimeScheduler, TestScheduler, HistoricalScheduler and CatchScheduler over each of them, "
    "and reactivex.interval / periodic reactivex.timer on them: every period of the list, dispose at every instant of the grid up "
    "to the horizon (from inside the run and from outside), raise at every tick up to K; invocations must be exactly at "
    "k*period with the state returned by the previous invocation, none after dispose() returned, none after a raise; "
    "interval/timer must emit 0,1,2,.. at d0+i*period. Virtual-time part only.",
    "note": "trusted: CPython, the virtual-time queue discipline (C28); a tick and a dispose that are both actions of the same "
    "instant may come in either order (R3). Event-loop / new-thread schedulers are not covered by this part.",
}
RULE = (
    "cases = (part A: scheduler kind, bare|CatchScheduler verdict, period, dispose spec, raise tick, work) and (part B: scheduler "
    "kind, wrapper, scheduler passed to factory|subscribe, interval|timer(d0), period, dispose spec), all enumerated; distinct = "
    "that tuple; non-trivial = >=2 invocations happened, or >=1 and a dispose or raise was part of the case; outcome = (number "
    "and times of invocations, escaped exceptions, handler calls, dispose time)"
)
BUDGET = {"quick": 150.0, "thorough": 1500.0}


def shard(part: core.Part, shard_i, nshards, tier, seed, deadline):
    periodic_vt.run_virtual(part, tier, seed, deadline, shard=shard_i, nshards=nshards)


def run(ctx: core.Ctx):
    ctx.bounds = periodic_vt.bounds_virtual(ctx.tier)
    ctx.assumptions = ["virtual-time part only; real-thread periodic schedulers are explored by the E3 part", "queue discipline of the virtual-time schedulers (C28)"]
    ctx.sharded(shard)


def replay(case):
    return periodic_vt.replay_virtual(case)
