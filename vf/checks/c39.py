"""C39 Fluent operator methods equal their piped operators (E1, differential, bounded-exhaustive).

Every public method defined in a mixin class of `reactivex.observable.mixins` is discovered
by reflection.  For each method the argument bindings are enumerated from a catalogue keyed
by parameter name (and method where one name means different things): every subset of the
optional parameters given/omitted x catalogue values x binding style (positional, keyword,
thorough: mixed).  Each binding is executed twice on separate but identical virtual-time
worlds (same source timelines, same helper observables, same callbacks):

    fluent :  source.<method>(*args, **kwargs)
    piped  :  source.pipe(reactivex.operators.<method>(*args, **kwargs))

and everything observable is compared: what building returned or raised, the notifications of
two subscribers (values by type and ==, virtual times), the notifications of every inner
observable that was emitted (windows, groups, group_join), the subscription intervals of every
harness source (times), the calls received by every user callback and by the scheduler that
was handed to the operator, exceptions that escaped into the scheduler, and the final state of
a returned future.  Nothing is compared with a hand-written expectation: the piped operator is
the reference.
"""
from __future__ import annotations

import asyncio
import concurrent.futures
import dataclasses
import inspect
import itertools
import re
import time

from .. import core, vt

PROPERTY = "C39"
LEVEL = "exploration"
META = {
    "engine": "vtx",
    "technique": "reflection-driven differential execution of every fluent method against the piped operator of the same name "
    "over an exhaustive set of argument bindings, on identical virtual-time worlds",
    "text": "every public mixin method x every given/omitted subset of its optional parameters x catalogue values x "
    "positional/keyword binding x a fixed family of cold/hot source timelines is run in both forms; notifications (outer and "
    "inner), source subscription intervals, callback and scheduler call logs and non-observable results must be identical",
    "note": "trusted: CPython, the harness in /verif/vf, VirtualTimeScheduler's queue discipline (C28/C29); the operator functions "
    "themselves are the reference (their own semantics are the subject of other properties)",
}
RULE = (
    "cases = (method, source kind+timeline, optional-parameter subset, argument values, binding style), all enumerated; "
    "argument values = full product over the catalogue; quick: 4 fixed timelines, positional+keyword; thorough: 9 fixed timelines + every "
    "timeline of <=3 elements over 2 values ending in completion/error as cold and as hot source, positional+keyword+mixed; "
    "non-trivial = the fluent form built, subscribed the source and delivered >=1 notification (or produced a settled "
    "non-observable result); distinct = the full case key; per-parameter sensitivity (some pair of bindings differing only "
    "in that parameter gives different observations) is measured and reported"
)
BUDGET = {"quick": 150.0, "thorough": 1500.0}

SUB1, CONNECT, SUB2, HORIZON = 200, 210, 245, 900
ENV_BUDGET = 4000

# fluent method -> operator function it is compared with (where the names differ)
ALIAS = {"do": "do_action"}
# fluent parameter name -> operator parameter name (where they differ)
RENAME = {
    "take_while_indexed": {"predicate_indexed": "predicate"},
    "skip_while_indexed": {"predicate_indexed": "predicate"},
    "switch_map_indexed": {"mapper_indexed": "project"},
    "starmap_indexed": {"mapper_indexed": "mapper"},
    "pluck_attr": {"attr": "prop"},
}
# which source kinds a method is run on (default: int elements)
SRC_KINDS = {
    "pluck": ["dict"],
    "pluck_attr": ["attr"],
    "starmap": ["tuple"],
    "starmap_indexed": ["tuple3"],
    "dematerialize": ["note"],
    "switch_latest": ["obs"],
    "merge_all": ["obs"],
    "exclusive": ["obs"],
    "flat_map": ["int", "obs"],
    "flat_map_indexed": ["int", "obs"],
    "switch_map": ["int"],
    "ref_count": ["conn"],
}


class RealTimeLeak(BaseException):
    """A thread was started during a virtual-time run: harness configuration error, never a verdict."""


# --------------------------------------------------------------------------- normalisation
_ADDR = re.compile(r" at 0x[0-9a-fA-F]+")


def _strip(s: str) -> str:
    return _ADDR.sub("", s)


def walk_observables(v, depth=0):
    """Observables nested in a value (windows, groups, (value, window) tuples), in order."""
    from reactivex import Observable

    if isinstance(v, Observable):
        yield v
    elif isinstance(v, (list, tuple)) and depth < 3:
        for i in v:
            yield from walk_observables(i, depth + 1)


def norm(v, inner=None, depth=0):
    """R2 normal form; observables become ('inner', k) when a recorder was attached, else a type marker."""
    from reactivex import Observable
    from reactivex.notification import Notification

    if isinstance(v, Observable):
        key = ("key", norm(v.key)) if hasattr(v, "key") else ()
        if inner is not None and id(v) in inner:
            return ("inner", inner[id(v)]) + key
        return ("observable", type(v).__name__) + key
    if isinstance(v, Notification):
        if v.kind == "N":
            return ("OnNext", norm(v.value, inner, depth + 1))
        if v.kind == "E":
            return ("OnError", norm(v.exception, inner, depth + 1))
        return ("OnCompleted",)
    if isinstance(v, vt.SrcError):
        return ("SrcError", v.tag)
    if isinstance(v, BaseException):
        return ("Exc", type(v).__name__, _strip(str(v)))
    if dataclasses.is_dataclass(v) and not isinstance(v, type):
        return ("dc", type(v).__name__, tuple((f.name, norm(getattr(v, f.name), inner, depth + 1)) for f in dataclasses.fields(v)))
    if isinstance(v, (list, tuple)):
        return (type(v).__name__, tuple(norm(i, inner, depth + 1) for i in v))
    if isinstance(v, dict):
        return ("dict", tuple((norm(k, inner, depth + 1), norm(x, inner, depth + 1)) for k, x in v.items()))
    if isinstance(v, (set, frozenset)):
        return (type(v).__name__, tuple(sorted((norm(i, inner, depth + 1) for i in v), key=repr)))
    if v is None or isinstance(v, (bool, int, float, str, bytes)):
        return (type(v).__name__, v)
    if isinstance(v, (asyncio.Future, concurrent.futures.Future)):
        return ("future", type(v).__name__)
    return ("obj", type(v).__name__, _strip(repr(v)))


# --------------------------------------------------------------------------- world
class Attr:
    """Element type for pluck_attr."""

    def __init__(self, k, z):
        self.k, self.z = k, z

    def __repr__(self):
        return f"Attr(k={self.k!r}, z={self.z!r})"


def make_tagsched_class():
    from reactivex.scheduler.periodicscheduler import PeriodicScheduler

    class TagScheduler(PeriodicScheduler):
        """The scheduler handed to an operator: delegates to the world's virtual scheduler and logs
        every scheduling request, so that a dropped/replaced scheduler argument is observable."""

        def __init__(self, world, tag="sched"):
            self.world, self.inner, self.tag = world, world.env.sched, tag

        @property
        def now(self):
            self.world.log(self.tag, "now")
            return self.inner.now

        def schedule(self, action, state=None):
            self.world.log(self.tag, "schedule")
            return self.inner.schedule(action, state)

        def schedule_relative(self, duetime, action, state=None):
            self.world.log(self.tag, "relative", norm(duetime))
            return self.inner.schedule_relative(duetime, action, state)

        def schedule_absolute(self, duetime, action, state=None):
            self.world.log(self.tag, "absolute", norm(duetime))
            return self.inner.schedule_absolute(duetime, action, state)

        def schedule_periodic(self, period, action, state=None):
            self.world.log(self.tag, "periodic", norm(period))
            return self.inner.schedule_periodic(period, action, state)

    return TagScheduler


_TAGSCHED = None


class World:
    """One execution's world: virtual scheduler, uniquely named helper sources, logged callbacks."""

    def __init__(self, abc_):
        global _TAGSCHED
        if _TAGSCHED is None:
            _TAGSCHED = make_tagsched_class()
        self.env = vt.Env(budget=ENV_BUDGET)
        self.A, self.B, self.C = abc_
        self.calls: list = []
        self.names: dict[str, int] = {}
        self.state: dict[str, int] = {}
        self.tsched = _TAGSCHED(self)
        self.tsched2 = _TAGSCHED(self, "sched2")
        self.loop = None

    def log(self, slot, *what):
        self.calls.append((self.env.sched._clock, slot) + tuple(what))

    def fn(self, slot, f):
        def logged(*a):
            self.log(slot, tuple(norm(x) for x in a))
            return f(*a)

        logged.__name__ = f"cb_{slot}"
        return logged

    def cold(self, base, tl):
        k = self.names.get(base, 0)
        self.names[base] = k + 1
        return self.env.cold(f"{base}#{k}", tl)

    def timer(self, base, d):
        """Duration observable: one element and completion after d."""
        return self.cold(base, [(d, "N", 0), (d, "C", None)])

    def tick(self, key):
        self.state[key] = self.state.get(key, 0) + 1
        return self.state[key]


# helper observables handed to operators -----------------------------------------------------
def O1(w):
    return w.cold("o1", [(15, "N", "x"), (35, "N", "y"), (55, "C", None)])


def O2(w):
    return w.cold("o2", [(5, "N", "p"), (12, "N", "q"), (20, "C", None)])


def OEARLY(w):
    return w.cold("oe", [(5, "N", "e"), (25, "C", None)])


def OERR(w):
    return w.cold("ox", [(15, "N", "x"), (25, "E", "ox")])


def OSAME(w):
    return w.cold("os", [(10, "N", w.A), (20, "N", w.B), (30, "N", w.A), (40, "N", w.C), (50, "N", w.B), (60, "C", None)])


def V(label, f):
    return (label, f)


def const(x):
    return lambda w: x


# --------------------------------------------------------------------------- catalogue
def _pred(slot="predicate"):
    return [
        V("==A", lambda w: w.fn(slot, lambda x: x == w.A)),
        V(">=B", lambda w: w.fn(slot, lambda x: x >= w.B)),
        V("never", lambda w: w.fn(slot, lambda x: False)),
    ]


def _pred_i(slot="predicate_indexed"):
    return [
        V("ieven", lambda w: w.fn(slot, lambda x, i: i % 2 == 0)),
        V("A|i>=3", lambda w: w.fn(slot, lambda x, i: x == w.A or i >= 3)),
    ]


def _to_obs_mapper(slot, d1=7, d2=23):
    """value -> fresh cold observable emitting (value, 'i') twice."""
    return [
        V("cold2", lambda w: w.fn(slot, lambda x, *i: w.cold("m", [(d1, "N", (x, "m1")), (d2, "N", (x, "m2")), (d2 + 2, "C", None)]))),
        V("cold1", lambda w: w.fn(slot, lambda x, *i: w.cold("m", [(3, "N", (x, i)), (4, "C", None)]))),
    ]


def _dur_mapper(slot, d, d2=None):
    out = [V(f"timer{d}", lambda w: w.fn(slot, lambda *a: w.timer(slot[:2], d)))]
    if d2 is not None:
        out.append(V(f"timer{d2}", lambda w: w.fn(slot, lambda *a: w.timer(slot[:2], d2))))
    return out


def _sources():
    return [V("()", lambda w: ()), V("(o1,)", lambda w: (O1(w),)), V("(o1,o2)", lambda w: (O1(w), O2(w)))]


def _obs_mapper(slot):
    """observable -> observable (publish/replay/publish_value mapper)."""

    def zipself(w):
        import reactivex
        from reactivex import operators as ops

        return w.fn(slot, lambda o: reactivex.zip(o, o.pipe(ops.skip(1))))

    def tagged(w):
        from reactivex import operators as ops

        return w.fn(slot, lambda o: o.pipe(ops.map(lambda x: (x, "via-mapper"))))

    return [V("tag", tagged), V("zipself", zipself)]


def _subjects():
    def subj(w):
        from reactivex.subject import Subject

        return Subject()

    def rsubj(w):
        from reactivex.subject import ReplaySubject

        return ReplaySubject(1, scheduler=w.env.sched)

    return [V("Subject", subj), V("Replay1", rsubj)]


def _subject_mapper():
    def rs(w):
        from reactivex.subject import ReplaySubject

        return w.fn("subject_mapper", lambda: ReplaySubject(scheduler=w.env.sched))

    def s(w):
        from reactivex.subject import Subject

        return w.fn("subject_mapper", lambda: Subject())

    return [V("replay", rs), V("subject", s)]


def _future_ctors():
    def conc(w):
        return w.fn("future_ctor", lambda: concurrent.futures.Future())

    def aio(w):
        return w.fn("future_ctor", lambda: w.loop.create_future())

    return [V("concurrent", conc), V("asyncio", aio)]


def _abs_time(t):
    return lambda w: w.env.sched.to_datetime(float(t))


GENERIC = {
    "sources": _sources(),
    "others": _sources(),
    "max_concurrent": [V("1", const(1)), V("2", const(2))],
    "right_source": [V("o1", O1), V("early", OEARLY)],
    "right": [V("o1", O1), V("o2", O2)],
    "left_duration_mapper": _dur_mapper("left_duration_mapper", 25, 8),
    "right_duration_mapper": _dur_mapper("right_duration_mapper", 12, 30),
    "default_value": [V("'d'", const("d")), V("None", const(None)), V("0", const(0))],
    "predicate": _pred(),
    "predicate_indexed": _pred_i(),
    "retry_count": [V("2", const(2)), V("1", const(1)), V("3", const(3))],
    "repeat_count": [V("2", const(2)), V("1", const(1)), V("0", const(0))],
    "count": [V("2", const(2)), V("0", const(0)), V("1", const(1)), V("7", const(7))],
    "skip": [V("1", const(1)), V("3", const(3))],
    "index": [V("1", const(1)), V("0", const(0)), V("9", const(9))],
    "key_mapper": [V("mod2", lambda w: w.fn("key_mapper", lambda x: x % 2)), V("neg", lambda w: w.fn("key_mapper", lambda x: -x))],
    "element_mapper": [V("x10", lambda w: w.fn("element_mapper", lambda x: x * 10)), V("None", const(None))],
    "comparer": [
        V("near", lambda w: w.fn("comparer", lambda a, b: abs(a - b) <= 1)),
        V("always", lambda w: w.fn("comparer", lambda a, b: True)),
    ],
    "inclusive": [V("True", const(True)), V("False", const(False))],
    "other": [V("o1", O1), V("o2", O2)],
    "has_default": [V("True", const(True)), V("False", const(False))],
    "start": [V("1", const(1)), V("-2", const(-2))],
    "stop": [V("3", const(3)), V("-1", const(-1))],
    "step": [V("2", const(2)), V("1", const(1))],
    "duration": [V("25", const(25)), V("45", const(45.0))],
    "start_time": [V("rel25", const(25)), V("abs245", _abs_time(SUB1 + 45))],
    "end_time": [V("rel25", const(25)), V("abs245", _abs_time(SUB1 + 45))],
    "scheduler": [V("tagged", lambda w: w.tsched)],
    "buffer_size": [V("1", const(1)), V("2", const(2))],
    "window": [V("15", const(15)), V("35", const(35))],
    "subject": _subjects(),
    "initial_value": [V("'init'", const("init")), V("None", const(None))],
    "value": [V("B", lambda w: w.B), V("99", const(99))],
    "second": [V("o1", O1)],
    "sampler": [V("25", const(25)), V("o1", O1)],
    "duetime": [V("15", const(15)), V("5", const(5))],
    "window_duration": [V("15", const(15)), V("25", const(25))],
    "throttle_duration_mapper": _dur_mapper("throttle_duration_mapper", 5, 15),
    "accumulator": [
        V("pair", lambda w: w.fn("accumulator", lambda acc, x: (acc, x))),
        V("add", lambda w: w.fn("accumulator", lambda acc, x: (acc if isinstance(acc, int) else 0) + x)),
    ],
    "seed": [V("'s'", const("s")), V("None", const(None)), V("0", const(0))],
    "mapper": [V("tag", lambda w: w.fn("mapper", lambda x: (x, "m"))), V("none", lambda w: w.fn("mapper", lambda x: None))],
    "mapper_indexed": [V("pair", lambda w: w.fn("mapper_indexed", lambda x, i: (x, i))), V("idx", lambda w: w.fn("mapper_indexed", lambda x, i: i))],
    "project": _to_obs_mapper("project"),
    "key": [V("'k'", const("k")), V("'z'", const("z"))],
    "attr": [V("'k'", const("k")), V("'z'", const("z"))],
    "on_next": [V("log", lambda w: w.fn("on_next", lambda x: None))],
    "on_error": [V("log", lambda w: w.fn("on_error", lambda e: None))],
    "on_completed": [V("log", lambda w: w.fn("on_completed", lambda: None))],
    "condition": [V("twice", lambda w: w.fn("condition", lambda o: w.tick("cond") <= 2)), V("once", lambda w: w.fn("condition", lambda o: w.tick("cond") <= 1))],
    "action": [V("log", lambda w: w.fn("action", lambda: None)), V("log2", lambda w: w.fn("action2", lambda: None))],
    "future_ctor": _future_ctors(),
    "timespan": [V("20", const(20)), V("35", const(35))],
    "timeshift": [V("15", const(15)), V("30", const(30))],
    "subscription_delay": [V("timer7", lambda w: w.timer("sd", 7)), V("mapper5", lambda w: w.fn("subscription_delay", lambda x: w.timer("sdm", 5)))],
    "delay_duration_mapper": _dur_mapper("delay_duration_mapper", 12, 3),
    "first_timeout": [V("timer5", lambda w: w.timer("ft", 5)), V("timer25", lambda w: w.timer("ft", 25))],
    "timeout_duration_mapper": _dur_mapper("timeout_duration_mapper", 7, 15),
    "boundaries": [V("o1", O1), V("o2", O2)],
    "subject_mapper": _subject_mapper(),
    "closing_mapper": _dur_mapper("closing_mapper", 25, 12),
    "openings": [V("o1", O1), V("o2", O2)],
    "duration_mapper": _dur_mapper("duration_mapper", 25, 8),
    "handler": [V("o1", O1), V("fn->o2", lambda w: w.fn("handler", lambda e, src: O2(w)))],
}


def _pred3():
    return [
        V("==B", lambda w: w.fn("predicate", lambda x, i, s: x == w.B)),
        V("i==2", lambda w: w.fn("predicate", lambda x, i, s: i == 2)),
        V("never", lambda w: w.fn("predicate", lambda x, i, s: False)),
    ]


def _subcomparer():
    return [V("reverse", lambda w: w.fn("comparer", lambda a, b: b - a)), V("equal", lambda w: w.fn("comparer", lambda a, b: 0))]


def _starmapper(slot, indexed):
    if indexed:
        return [V("sum3", lambda w: w.fn(slot, lambda a, b, i: (a + b, i))), V("swap", lambda w: w.fn(slot, lambda a, b, i: (i, b, a)))]
    return [V("sum", lambda w: w.fn(slot, lambda a, b: a + b)), V("swap", lambda w: w.fn(slot, lambda a, b: (b, a)))]


def _expand_mapper():
    def bounded(w):
        return w.fn("mapper", lambda x: w.cold("ex", [(4, "N", x + 100), (5, "C", None)] if x < 200 else [(1, "C", None)]))

    def leaf(w):
        return w.fn("mapper", lambda x: w.cold("ex", [(2, "C", None)]))

    return [V("+100<200", bounded), V("leaf", leaf)]


SPECIFIC = {
    ("start_with", "args"): [V("()", const(())), V("(C,)", lambda w: (w.C,)), V("(C,None)", lambda w: (w.C, None))],
    ("zip_with_iterable", "second"): [V("list2", const(["x", "y"])), V("tuple6", const(("p", "q", "r", "s", "t", "u")))],
    ("on_error_resume_next", "second"): [V("o1", O1), V("oerr", OERR)],
    ("sequence_equal", "second"): [V("same", OSAME), V("list-same", lambda w: [w.A, w.B, w.A, w.C, w.B]), V("o1", O1), V("list-short", lambda w: [w.A, w.B])],
    ("sequence_equal", "comparer"): [V("eq", lambda w: w.fn("comparer", lambda a, b: a == b)), V("always", lambda w: w.fn("comparer", lambda a, b: True))],
    ("contains", "comparer"): [V("a+1==b", lambda w: w.fn("comparer", lambda a, b: a + 1 == b)), V("never", lambda w: w.fn("comparer", lambda a, b: False))],
    ("find", "predicate"): _pred3(),
    ("find_index", "predicate"): _pred3(),
    ("min", "comparer"): _subcomparer(),
    ("max", "comparer"): _subcomparer(),
    ("min_by", "comparer"): _subcomparer(),
    ("max_by", "comparer"): _subcomparer(),
    ("sum", "key_mapper"): [V("x2", lambda w: w.fn("key_mapper", lambda x: x * 2)), V("one", lambda w: w.fn("key_mapper", lambda x: 1))],
    ("average", "key_mapper"): [V("x2", lambda w: w.fn("key_mapper", lambda x: x * 2)), V("one", lambda w: w.fn("key_mapper", lambda x: 1))],
    ("publish", "mapper"): _obs_mapper("mapper"),
    ("replay", "mapper"): _obs_mapper("mapper"),
    ("publish_value", "mapper"): _obs_mapper("mapper"),
    ("flat_map", "mapper"): _to_obs_mapper("mapper"),
    ("flat_map_latest", "mapper"): _to_obs_mapper("mapper"),
    ("flat_map_indexed", "mapper_indexed"): _to_obs_mapper("mapper_indexed"),
    ("switch_map_indexed", "mapper_indexed"): _to_obs_mapper("mapper_indexed"),
    ("starmap", "mapper"): _starmapper("mapper", False),
    ("starmap_indexed", "mapper_indexed"): _starmapper("mapper_indexed", True),
    ("expand", "mapper"): _expand_mapper(),
    ("buffer_with_count", "count"): [V("2", const(2)), V("3", const(3)), V("1", const(1))],
    ("window_with_count", "count"): [V("2", const(2)), V("3", const(3)), V("1", const(1))],
    ("buffer_with_time_or_count", "count"): [V("2", const(2)), V("3", const(3))],
    ("window_with_time_or_count", "count"): [V("2", const(2)), V("3", const(3))],
    ("timeout", "duetime"): [V("15", const(15)), V("5", const(5)), V("abs235", _abs_time(SUB1 + 35))],
    ("delay_subscription", "duetime"): [V("15", const(15)), V("abs240", _abs_time(SUB1 + 40))],
    ("to_dict", "key_mapper"): [V("id", lambda w: w.fn("key_mapper", lambda x: x)), V("mod2", lambda w: w.fn("key_mapper", lambda x: x % 2))],
    ("group_by_until", "element_mapper"): [V("None", const(None)), V("x10", lambda w: w.fn("element_mapper", lambda x: x * 10))],
    ("timeout_with_mapper", "other"): [V("o2", O2), V("o1", O1)],
    ("observe_on", "scheduler"): [V("tagged", lambda w: w.tsched), V("tagged2", lambda w: w.tsched2)],
    ("subscribe_on", "scheduler"): [V("tagged", lambda w: w.tsched), V("tagged2", lambda w: w.tsched2)],
}

# parameters whose value cannot influence the piped operator either (so the measured insensitivity is expected)
EXPECTED_INSENSITIVE = {
    "to_marbles:scheduler": "operators.to_marbles shadows its scheduler argument with subscribe's scheduler parameter and never uses it",
}

# bindings that are not executed, with the reason (recorded in the evidence)
RESTRICTIONS = {
    "replay:window-without-scheduler": "replay(window=..) without scheduler makes ReplaySubject read the wall clock "
    "(CurrentThreadScheduler.now): window is only given together with scheduler",
}


def restricted(method, given):
    if method == "replay" and "window" in given and "scheduler" not in given:
        return "replay:window-without-scheduler"
    return None


# --------------------------------------------------------------------------- discovery / bindings
def discover():
    """[(mixin class name, method name, function)] for every public method defined in a mixin class."""
    import reactivex.observable.mixins as M

    out = []
    for cname in sorted(n for n in dir(M) if n.endswith("Mixin")):
        cls = getattr(M, cname)
        if not inspect.isclass(cls):
            continue
        for name, f in cls.__dict__.items():
            if name.startswith("_") or not inspect.isfunction(f):
                continue
            out.append((cname, name, f))
    return out


def catalogue(method, pname):
    return SPECIFIC.get((method, pname)) or GENERIC.get(pname)


class Plan:
    """What is known statically about one method: parameters, operator, why it cannot run (if so)."""

    def __init__(self, cname, name, f):
        from reactivex import operators as ops

        self.cname, self.name = cname, name
        self.params = list(inspect.signature(f).parameters.values())[1:]
        self.opname = ALIAS.get(name, name)
        self.op = getattr(ops, self.opname, None)
        self.rename = RENAME.get(name, {})
        self.skip = None
        self.notes = []
        if self.op is None:
            self.skip = f"reactivex.operators has no function {self.opname!r}"
            return
        self.op_params = inspect.signature(self.op).parameters
        for p in self.params:
            if p.kind == p.VAR_KEYWORD:
                self.skip = f"**{p.name} is not supported by the binding generator"
                return
            if catalogue(name, p.name) is None:
                self.skip = f"no catalogue entry for parameter {p.name!r}"
                return
            if p.kind != p.VAR_POSITIONAL and self.rename.get(p.name, p.name) not in self.op_params:
                self.notes.append(f"{name}: parameter {p.name!r} has no namesake in operators.{self.opname}{tuple(self.op_params)}: keyword binding of it is not comparable")
        self.required = [p for p in self.params if p.default is p.empty and p.kind != p.VAR_POSITIONAL]
        self.optional = [p for p in self.params if p.default is not p.empty]
        self.var = [p for p in self.params if p.kind == p.VAR_POSITIONAL]

    def kw_comparable(self, pname):
        return self.rename.get(pname, pname) in self.op_params

    def bindings(self, tier):
        """Yield (given, choice, style): given = tuple of parameter names bound, choice = {name: index into catalogue}."""
        styles = ("pos", "kw") if tier == "quick" else ("pos", "kw", "mixed")
        optn = [p.name for p in self.optional]
        for r in range(len(optn) + 1):
            for sub in itertools.combinations(optn, r):
                given = [p.name for p in self.params if p in self.required or p in self.var or p.name in sub]
                if restricted(self.name, given):
                    continue
                sizes = [len(catalogue(self.name, g)) for g in given]
                choices = list(itertools.product(*[range(n) for n in sizes]))
                for ch in choices:
                    seen_shapes = set()
                    for style in styles:
                        shape = self.shape(given, style)
                        if shape in seen_shapes:
                            continue  # e.g. no parameters: positional and keyword bindings coincide
                        seen_shapes.add(shape)
                        yield tuple(given), dict(zip(given, ch)), style

    def shape(self, given, style):
        """Which parameters go positionally / by keyword for this style: tuple of (name, 'p'|'k'|'v')."""
        out, gap = [], False
        n_required = len(self.required)
        for idx, p in enumerate(self.params):
            if p.kind == p.VAR_POSITIONAL:
                out.append((p.name, "v"))
                gap = True  # everything after *args is keyword-only
                continue
            if p.name not in given:
                gap = True
                continue
            if p.kind == p.KEYWORD_ONLY or gap:
                out.append((p.name, "k"))
            elif style == "pos":
                out.append((p.name, "p"))
            elif style == "kw":
                out.append((p.name, "k" if self.kw_comparable(p.name) else "p"))
            else:  # mixed: required positionally, optional by keyword
                out.append((p.name, "p" if p in self.required else ("k" if self.kw_comparable(p.name) else "p")))
                if out[-1][1] == "k":
                    gap = True
        # a positional argument may not follow a keyword one
        fixed, seen_k = [], False
        for (n, k) in out:
            if k == "k":
                seen_k = True
            elif k == "p" and seen_k:
                k = "k"
            fixed.append((n, k))
        return tuple(fixed)

    def realise(self, world, given, choice, style, form):
        args, kwargs = [], {}
        for (pname, how) in self.shape(given, style):
            label, factory = catalogue(self.name, pname)[choice[pname]]
            val = factory(world)
            if how == "v":
                args.extend(val)
            elif how == "p":
                args.append(val)
            else:
                kwargs[pname if form == "fluent" else self.rename.get(pname, pname)] = val
        return args, kwargs

    def describe(self, given, choice, style):
        parts = []
        for (pname, how) in self.shape(given, style):
            label = catalogue(self.name, pname)[choice[pname]][0]
            parts.append(f"{'*' if how == 'v' else ''}{pname + '=' if how == 'k' else ''}{label}")
        return f"{self.name}({', '.join(parts)})"


# --------------------------------------------------------------------------- sources
def abc_for(seed):
    r = seed % 4
    return (1 + 10 * r, 2 + 10 * r, 3 + 10 * r)


def source_specs(kind, tier, abc_):
    """[(label, hot?, timeline-or-builder)] -- the same list for both forms."""
    A, B, C = abc_
    thorough = tier != "quick"
    if kind == "int":
        conv = lambda v: v
    elif kind == "dict":
        conv = lambda v: {"k": v, "z": ("z", v)}
    elif kind == "attr":
        conv = lambda v: ("attr", v)  # replaced by Attr objects when the source is built
    elif kind == "tuple":
        conv = lambda v: (v, v + 1)
    elif kind == "tuple3":
        conv = lambda v: (v, v + 1, v % 3)
    elif kind == "conn":
        conv = lambda v: v
    else:
        conv = None
    if conv is not None:
        specs = [
            ("cold-many", False, [(10, "N", A), (20, "N", B), (30, "N", A), (40, "N", C), (50, "N", B), (60, "C", None)]),
            ("cold-error", False, [(10, "N", B), (20, "N", A), (30, "E", "src")]),
            ("cold-empty", False, [(10, "C", None)]),
            ("hot-many", True, [(150, "N", C), (205, "N", A), (215, "N", A), (230, "N", B), (260, "N", C), (300, "C", None)]),
            ("cold-sync", False, [(None, "N", A), (None, "N", B), (None, "N", C), (None, "C", None)]),
            ("cold-never", False, [(10, "N", A), (20, "N", B)]),
            ("cold-burst", False, [(10, "N", A), (10, "N", B), (10, "N", C), (20, "C", None)]),
            ("cold-one", False, [(10, "N", C), (20, "C", None)]),
            ("hot-error", True, [(205, "N", B), (215, "N", C), (240, "E", "src")]),
        ]
        if thorough:
            # every timeline of <=3 elements over {A, B} ending in completion or error, cold and hot
            for i, tl in enumerate(vt.timelines(3, (A, B))):
                specs.append((f"cold-tl{i}", False, tl))
                specs.append((f"hot-tl{i}", True, vt.shift(tl, SUB1 - 5)))
        return [(lab, hot, [(t, k, (conv(v) if k == "N" else v)) for (t, k, v) in tl]) for (lab, hot, tl) in specs]
    if kind == "note":
        specs = [
            ("notes-completed", False, [(10, "N", ("OnNext", A)), (20, "N", ("OnNext", B)), (30, "N", ("OnCompleted",)), (40, "N", ("OnNext", C)), (50, "C", None)]),
            ("notes-error", False, [(10, "N", ("OnNext", A)), (20, "N", ("OnError",)), (30, "C", None)]),
            ("notes-open", False, [(10, "N", ("OnNext", None)), (20, "C", None)]),
        ]
        return specs
    if kind == "obs":
        specs = [
            ("obs-overlap", False, [(10, "N", ("in", 0)), (30, "N", ("in", 1)), (45, "N", ("in", 2)), (70, "C", None)]),
            ("obs-error", False, [(10, "N", ("in", 1)), (20, "N", ("in", 3)), (90, "C", None)]),
            ("obs-hot", True, [(205, "N", ("in", 0)), (215, "N", ("in", 2)), (300, "C", None)]),
        ]
        if thorough:
            specs.append(("obs-outer-error", False, [(10, "N", ("in", 0)), (25, "E", "src")]))
        return specs
    raise ValueError(kind)


INNER_TL = {
    0: [(15, "N", "a0"), (35, "N", "a1"), (45, "C", None)],
    1: [(5, "N", "b0"), (25, "N", "b1"), (50, "C", None)],
    2: [(3, "N", "c0"), (8, "C", None)],
    3: [(10, "N", "d0"), (20, "E", "inner")],
}


def make_source(world, kind, hot, tl):
    from reactivex import operators as ops
    from reactivex.notification import OnCompleted, OnError, OnNext

    def conv(v):
        if isinstance(v, tuple) and v and v[0] == "attr" and kind == "attr":
            return Attr(v[1], ("z", v[1]))
        if kind == "note":
            if v[0] == "OnNext":
                return OnNext(v[1])
            if v[0] == "OnCompleted":
                return OnCompleted()
            return OnError(vt.SrcError("materialized"))
        if kind == "obs":
            return world.env.cold(f"in{v[1]}", INNER_TL[v[1]])
        return v

    tl2 = [(t, k, (conv(v) if k == "N" else v)) for (t, k, v) in tl]
    src = world.env.hot("src", tl2) if hot else world.env.cold("src", tl2)
    if kind == "conn":
        return src.pipe(ops.publish())
    return src


# --------------------------------------------------------------------------- one execution
def execute(plan, given, choice, style, form, kind, hot, tl, abc_):
    """Run one form; return the observation (a JSON-able dict of everything that is compared)."""
    from reactivex import ConnectableObservable, Observable

    w = World(abc_)
    w.loop = _LOOP
    env = w.env
    obs = {"build": "ok", "shape": None, "status": None}
    try:
        src = make_source(w, kind, hot, tl)
        args, kwargs = plan.realise(w, given, choice, style, form)
        if form == "fluent":
            out = getattr(src, plan.name)(*args, **kwargs)
        else:
            try:
                inspect.signature(plan.op).bind(*args, **kwargs)
            except TypeError as e:
                # the operator function cannot be called with these arguments at all (e.g. the method
                # declares a default where the operator requires the argument): outside "the same arguments"
                return {"build": "unbindable", "build_msg": str(e)}
            out = src.pipe(plan.op(*args, **kwargs))
    except Exception as e:
        obs["build"] = ("raised", type(e).__name__)
        obs["build_msg"] = _strip(str(e))[:200]
        out = None

    inner: dict[int, str] = {}
    keep: list = []  # keeps emitted observables alive so that id() stays unique

    def attach(rec):
        def hook(value, count):
            for o in walk_observables(value):
                if id(o) in inner:
                    continue
                keep.append(o)
                name = f"{rec.name}.{len([1 for v in inner.values() if v.startswith(rec.name + '.')])}"
                inner[id(o)] = name
                r2 = env.recorder(name)
                attach(r2)
                r2.subscription = o.subscribe(r2, scheduler=env.sched)

        rec.on_next_hook = hook
        return rec

    if obs["build"] == "ok":
        if isinstance(out, ConnectableObservable):
            obs["shape"] = "connectable"
            env.subscribe_at(SUB1, out, attach(env.recorder("r1")))
            env.at(CONNECT, lambda: keep.append(out.connect(env.sched)))
            env.subscribe_at(SUB2, out, attach(env.recorder("r2")))
        elif isinstance(out, Observable):
            obs["shape"] = "observable"
            env.subscribe_at(SUB1, out, attach(env.recorder("r1")))
            env.subscribe_at(SUB2, out, attach(env.recorder("r2")))
        elif isinstance(out, (list, tuple)):
            obs["shape"] = f"{type(out).__name__}[{len(out)}]:" + ",".join("obs" if isinstance(o, Observable) else type(o).__name__ for o in out)
            for i, o in enumerate(out):
                if isinstance(o, Observable):
                    env.subscribe_at(SUB1, o, attach(env.recorder(f"p{i}")))
        elif isinstance(out, (asyncio.Future, concurrent.futures.Future)):
            obs["shape"] = "future:" + type(out).__name__
        else:
            obs["shape"] = "other:" + type(out).__name__
        try:
            obs["status"] = env.run(HORIZON)
        except RealTimeLeak as e:
            obs["status"] = "realtime-leak"
    if isinstance(out, (asyncio.Future, concurrent.futures.Future)):
        if not out.done():
            obs["future"] = ("pending",)
        elif out.cancelled():
            obs["future"] = ("cancelled",)
        elif out.exception() is not None:
            obs["future"] = ("exception", norm(out.exception()))
        else:
            obs["future"] = ("result", norm(out.result()))
    obs["recs"] = [(r.name, [(t, k, norm(v, inner)) for (t, k, v) in r.events()]) for r in env.recorders]
    obs["grammar"] = [g for g in (r.grammar_violation() for r in env.recorders) if g]
    obs["subs"] = [(s["source"], s["sub_time"], s["unsub_time"]) for s in env.sublog]
    obs["calls"] = list(w.calls)
    obs["escaped"] = [(t, norm(e)) for (t, e) in env.sched.escaped]
    return obs


COMPONENTS = ("build", "shape", "status", "recs", "subs", "calls", "escaped", "future")
COMPONENT_NAME = {
    "build": "build-outcome",
    "shape": "result-shape",
    "status": "run-status",
    "recs": "notifications",
    "subs": "source-subscriptions",
    "calls": "callback-calls",
    "escaped": "escaped-exceptions",
    "future": "future-state",
}


def first_difference(a, b):
    for c in COMPONENTS:
        if a.get(c) != b.get(c):
            return c
    return None


def show(x, n=900):
    s = repr(core.jsonable(x))
    return s if len(s) <= n else s[:n] + "..."


def judge(plan, given, choice, style, kind, hot, tl, abc_):
    fl = execute(plan, given, choice, style, "fluent", kind, hot, tl, abc_)
    pi = execute(plan, given, choice, style, "piped", kind, hot, tl, abc_)
    problems = []
    if pi["build"] == "unbindable":
        return [], False, fl, pi
    diff = first_difference(fl, pi)
    if diff is not None:
        problems.append((COMPONENT_NAME[diff], f"fluent {show(fl.get(diff))} != piped {show(pi.get(diff))}"))
    nontrivial = fl["build"] == "ok" and bool(fl["subs"]) and (any(ev for (_, ev) in fl["recs"]) or fl.get("future", ("pending",))[0] != "pending")
    return problems, nontrivial, fl, pi


def signature(plan, given, component):
    opt = [p.name for p in plan.optional if p.name in given]
    return f"{plan.name}|given={','.join(opt) or '-'}|{component}"


# --------------------------------------------------------------------------- enumeration
def plans():
    return [Plan(c, n, f) for (c, n, f) in discover()]


def all_units(tier, seed):
    """The sharding unit: (plan, source kind, source spec index).  All bindings run inside a unit."""
    abc_ = abc_for(seed)
    for plan in plans():
        if plan.skip:
            continue
        for kind in SRC_KINDS.get(plan.name, ["int"]):
            for si, (label, hot, tl) in enumerate(source_specs(kind, tier, abc_)):
                yield plan, kind, si, label, hot, tl, abc_


_LOOP = None


def _guard_threads():
    import threading

    orig = threading.Thread.start

    def start(self, *a, **kw):
        raise RealTimeLeak(f"thread {self.name!r} started during a virtual-time run")

    threading.Thread.start = start
    return orig


def outcome_digest(o):
    return (o["build"], o["shape"], o["status"], repr(o["recs"]), repr(o["subs"]), repr(o["calls"]), repr(o["escaped"]), repr(o.get("future")))


def shard(part: core.Part, shard_i, nshards, tier, seed, deadline):
    import threading

    global _LOOP
    _LOOP = asyncio.new_event_loop()
    asyncio.set_event_loop(_LOOP)
    orig_start = _guard_threads()
    try:
        for (plan, kind, si, label, hot, tl, abc_) in core.shard_iter(all_units(tier, seed), shard_i, nshards):
            if time.time() > deadline:
                part.complete = False
                return
            part.count("units:" + plan.name)
            seen = {}  # binding (given, choice) ignoring style -> outcome digest
            for (given, choice, style) in plan.bindings(tier):
                problems, nontrivial, fl, pi = judge(plan, given, choice, style, kind, hot, tl, abc_)
                desc = plan.describe(given, choice, style)
                key = (plan.name, kind, label, desc)
                if pi["build"] == "unbindable":
                    part.count("unbindable:" + desc.split("(")[0] + "(" + ",".join(given) + ")")
                    continue
                dig = core.h64(outcome_digest(fl))
                part.case(key, nontrivial, outcome=(plan.name, dig), sample={"call": desc, "source": f"{kind}:{label}", "fluent_r1": show(fl["recs"][:1], 300)})
                part.count("m:" + plan.name)
                if fl["status"] == "realtime-leak" and pi["status"] == "realtime-leak":
                    part.count("leak:" + plan.name)
                seen[(given, tuple(sorted(choice.items())))] = dig
                for (component, text) in problems:
                    case = {"method": plan.name, "kind": kind, "source": label, "given": list(given), "choice": choice, "style": style, "tier": tier, "seed": seed}
                    part.violation(signature(plan, given, component), f"{desc} on {kind}:{label}: {component}: {text}", case, call=desc)
            # sensitivity: does some pair of bindings differing in exactly one parameter (given/omitted/other value) observe differently?
            if len(set(seen.values())) >= 2:
                part.count("sens:" + plan.name)
            for p in plan.params:
                groups: dict = {}
                for (given, ch), dig in seen.items():
                    rest = (tuple(g for g in given if g != p.name), tuple(c for c in ch if c[0] != p.name))
                    groups.setdefault(rest, set()).add(dig)
                if any(len(v) >= 2 for v in groups.values()):
                    part.count(f"psens:{plan.name}:{p.name}")
    finally:
        threading.Thread.start = orig_start
        asyncio.set_event_loop(None)
        _LOOP.close()


def run(ctx: core.Ctx):
    ps = plans()
    ctx.bounds = {
        "methods": len(ps),
        "timelines_per_kind": {k: len(source_specs(k, ctx.tier, abc_for(ctx.seed))) for k in ("int", "note", "obs")},
        "optional_subsets": "all",
        "values": "full product over the catalogue",
        "styles": ["pos", "kw"] if ctx.tier == "quick" else ["pos", "kw", "mixed"],
        "subscribers": 2,
        "horizon": HORIZON,
    }
    ctx.assumptions = [
        "VirtualTimeScheduler queue discipline (C28/C29)",
        "harness LoggedCold/LoggedHot sources are conforming",
        "parameter-name differences listed in RENAME/ALIAS are intended API (keyword bindings are translated)",
    ]
    if ctx.tier == "quick":
        ctx.workers = min(ctx.workers, 4)  # ~20 core-seconds of work: a wider fork pool costs more than it saves on a busy machine
    part = ctx.sharded(shard)
    counters = part.counters
    covered = sorted(k[2:] for k in counters if k.startswith("m:"))
    ctx.cov["methods_discovered"] = len(ps)
    ctx.cov["methods_covered"] = covered
    ctx.cov["methods_skipped"] = {p.name: p.skip for p in ps if p.skip}
    missing = [p.name for p in ps if not p.skip and p.name not in covered]
    if missing and part.complete:
        ctx.cov["methods_skipped"].update({m: "no binding could be generated" for m in missing})
    ctx.cov["alias"] = ALIAS
    ctx.cov["renamed_parameters"] = RENAME
    ctx.cov["restrictions"] = RESTRICTIONS
    ctx.cov["harness_notes"] = sorted({n for p in ps for n in p.notes})
    ctx.cov["cases_per_method"] = {k[2:]: v for k, v in sorted(counters.items()) if k.startswith("m:")}
    ctx.cov["operator_rejects_binding"] = {k[11:]: v for k, v in sorted(counters.items()) if k.startswith("unbindable:")}
    ctx.cov["realtime_fallback_in_both_forms"] = {k[5:]: v for k, v in sorted(counters.items()) if k.startswith("leak:")}
    with_params = [p for p in ps if not p.skip and p.params]
    ctx.cov["methods_argument_insensitive"] = sorted(p.name for p in with_params if counters.get("sens:" + p.name, 0) == 0 and p.name in covered)
    ctx.cov["parameters_insensitive_expected"] = EXPECTED_INSENSITIVE
    ctx.cov["parameters_insensitive"] = sorted(
        f"{p.name}:{q.name}" for p in with_params for q in p.params if counters.get(f"psens:{p.name}:{q.name}", 0) == 0 and p.name in covered
    )


def replay(case):
    import threading

    global _LOOP
    core.bind_repo()
    _LOOP = asyncio.new_event_loop()
    asyncio.set_event_loop(_LOOP)
    orig_start = _guard_threads()
    try:
        abc_ = abc_for(case["seed"])
        for plan in plans():
            if plan.name != case["method"] or plan.skip:
                continue
            for (label, hot, tl) in source_specs(case["kind"], case["tier"], abc_):
                if label != case["source"]:
                    continue
                given, choice, style = tuple(case["given"]), dict(case["choice"]), case["style"]
                problems, _, fl, pi = judge(plan, given, choice, style, case["kind"], hot, tl, abc_)
                print("call   :", plan.describe(given, choice, style), "on", case["kind"], label)
                for c in COMPONENTS:
                    print(f"fluent {c}:", show(fl.get(c), 1500))
                    print(f"piped  {c}:", show(pi.get(c), 1500))
                return [{"signature": signature(plan, given, comp), "what": text, "detail": {"component": comp}} for (comp, text) in problems]
        print("case not found")
        return []
    finally:
        threading.Thread.start = orig_start
        asyncio.set_event_loop(None)
        _LOOP.close()
