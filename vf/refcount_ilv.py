"""E3 part of C24: ref_count / share with subscribers coming and going on two threads.

Each thread runs a small program over {S subscribe, D dispose its subscription, N push an element
into the shared hot source}.  The source is a counted observable (every subscription and every
disposal of a subscription is logged).  Every interleaving up to the preemption bound, line-level
scheduling points in _refcount.py and connectableobservable.py.

Oracle (C24's statement, schedule independent): never two source subscriptions alive at once;
at quiescence the source subscription is alive iff at least one subscriber is still subscribed
("connect when the count goes 0 -> 1, disconnect when it returns to 0"); every subscriber receives
each element pushed while it was certainly subscribed (pushed by its own thread between its S and D).
"""
from __future__ import annotations

import itertools

from . import ilv, ilvrun

FOCUS = ["operators/connectable/_refcount.py", "observable/connectableobservable.py"]


class H:
    allow_thread_errors = False

    def __init__(self, form, progs):
        self.form, self.progs = form, progs
        self.name = f"refcount-threads|{form}|" + "||".join(",".join(p) for p in progs)
        self.sig = "refcount-threads"
        self.focus = ilv.focus_files(*FOCUS)

    def setup(self, run):
        import reactivex
        from reactivex import operators as ops
        from reactivex.disposable import Disposable
        from reactivex.subject import Subject

        st = {"subs": 0, "disp": 0, "live": 0, "maxlive": 0, "logs": [[] for _ in self.progs], "subj": Subject(), "subscribed": [False] * len(self.progs), "own": [[] for _ in self.progs]}

        def sub(o, sch=None):
            st["subs"] += 1
            st["live"] += 1
            st["maxlive"] = max(st["maxlive"], st["live"])
            d = st["subj"].subscribe(o)

            def dd():
                st["disp"] += 1
                st["live"] -= 1
                d.dispose()

            return Disposable(dd)

        src = reactivex.create(sub)
        st["o"] = src.pipe(ops.share()) if self.form == "share" else src.pipe(ops.publish(), ops.ref_count())
        return st

    def bodies(self, st):
        def mk(i, prog):
            def body():
                d = None
                for k, op in enumerate(prog):
                    if op == "S":
                        d = st["o"].subscribe(st["logs"][i].append)
                        st["subscribed"][i] = True
                    elif op == "D" and d is not None:
                        st["subscribed"][i] = False
                        d.dispose()
                        d = None
                    elif op == "N":
                        v = (i, k)
                        if d is not None:
                            st["own"][i].append(v)
                        st["subj"].on_next(v)

            return body

        return [mk(i, p) for i, p in enumerate(self.progs)]

    def outcome(self, x):
        st = x.state
        return (st["subs"], st["disp"], st["live"], tuple(tuple(l) for l in st["logs"]))

    def nontrivial(self, x):
        return x.switches > 0

    def check(self, x):
        if x.outcome != "quiescent":
            return []
        st, P = x.state, []

        def bad(cls, text):
            P.append((f"{self.form}|threads|{cls}", f"{text}; programs {self.progs}: source subscriptions {st['subs']}, disposed {st['disp']}, alive {st['live']}, still subscribed {st['subscribed']}"))

        if st["maxlive"] > 1:
            bad("two-source-subscriptions", "two source subscriptions were alive at once")
        want = 1 if any(st["subscribed"]) else 0
        if st["live"] != want:
            bad("connected-without-subscribers" if st["live"] else "disconnected-with-subscribers", f"at quiescence the source subscription must be {'alive' if want else 'gone'}")
        for i, own in enumerate(st["own"]):
            if [v for v in st["logs"][i] if v in own] != own:
                bad("own-element-missed", f"subscriber {i} pushed {own} while subscribed and received {st['logs'][i]}")
        return P[:3]


PROGS_Q = [(("S", "D"), ("S", "D")), (("S",), ("S", "N", "D")), (("S", "D", "S"), ("S", "D"))]
PROGS_T = PROGS_Q + [(("S", "N"), ("S", "N", "D")), (("S", "D", "S", "N"), ("S", "N", "D")), (("S", "D"), ("S", "D"), ("S",))]


def harnesses(tier):
    progs = PROGS_Q if tier == "quick" else PROGS_T
    forms = ("share",) if tier == "quick" else ("share", "publish.ref_count")
    return [H(f, p) for f in forms for p in progs]


def PB_of(tier, h):
    return 2 if len(h.progs) == 2 else 1


def shard(part, shard_i, nshards, tier, seed, deadline):
    ilv.install()
    for i, h in enumerate(harnesses(tier)):
        if (i + seed) % nshards == shard_i:
            ilvrun.explore_all(part, [h], 0, 1, PB_of(tier, h), 0, deadline, horizon=5.0)


def run_part(ctx):
    before = ctx.total.counters.get("executions", 0)
    hs = harnesses(ctx.tier)
    ctx.sharded(shard, nshards=len(hs), deadline=ctx.sub_deadline(0.5))
    ex = ctx.total.counters.get("executions", 0) - before
    ctx.cov["e3_threads"] = {"schedules_explored": ex, "coarse_executions": ctx.total.counters.get("coarse_executions", 0), "schedule_points": ctx.total.counters.get("schedule_points", 0), "PB": "2 (three threads: 1)", "harnesses": [h.name for h in hs]}
    ctx.assumptions = list(ctx.assumptions) + [
        "E3 part: two (three) controlled threads subscribing to / unsubscribing from one share()d observable; preemption at sync operations and "
        "line boundaries of _refcount.py and connectableobservable.py"
    ]


def replay(case):
    ilv.install()
    for tier in ("quick", "thorough"):
        for h in harnesses(tier):
            if h.name == case["harness"]:
                return ilvrun.replay_harness(h, case)
    return []
