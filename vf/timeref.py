"""Helpers shared by C15/C16/C17 (time shifting, rate limiting, time windows).

* `HScheduler`   -- datetime-clock counterpart of vt.VScheduler on top of the library's own
                    HistoricalScheduler (guarded actions, step counter, budget).
* `Clock`        -- one execution's world on a numeric ('num') or datetime ('dt') clock plus
                    the conversions between harness numbers and that clock's readings.
* `gap_timelines`-- all timelines of <=N elements whose consecutive gaps range over a gap
                    alphabet (so that gaps are <, = and > the operator's due time), bursts
                    (gap 0) and a terminal C/E/none at every gap, incl. the same instant.
* `Sim`/`closure`-- reference models as nondeterministic event simulators (DESIGN 3.1): a
                    model only states the rule of the property; the driver feeds it source
                    events and its own timers instant by instant and explores every order of
                    the events that share an instant and have a different origin (rule R3).
                    The result is the *set* of admissible observations.
"""
from __future__ import annotations

import itertools
from datetime import datetime, timedelta, timezone
from typing import Any, Callable

from . import vt

EPOCH = datetime.fromtimestamp(0, tz=timezone.utc)
HORIZON = 1500
MAX_SAME_INSTANT = 80  # the library's run loop changes behaviour after 100 actions in one instant (C29's subject)


# ------------------------------------------------------------------ datetime scheduler

_HS = None


def hscheduler_class():
    """HScheduler is created lazily so that reactivex is imported from the bound tree."""
    global _HS
    if _HS is not None:
        return _HS
    from reactivex.scheduler import HistoricalScheduler

    class HScheduler(HistoricalScheduler):
        """HistoricalScheduler with VScheduler's harness features.  Harness code addresses
        instants by plain numbers (seconds after `base`); the library sees datetimes only."""

        def __init__(self, base: datetime, budget: int = 20000) -> None:
            super().__init__(base)
            self.base = base
            self.step = 0
            self.actions = 0
            self.budget = budget
            self.escaped: list = []
            self._inst = None
            self._inst_n = 0

        def tick(self) -> int:
            self.step += 1
            return self.step

        @property
        def t(self):
            return self._clock

        def schedule_absolute(self, duetime, action, state=None):  # type: ignore[override]
            sched = self
            if not isinstance(duetime, datetime):
                duetime = self.base + timedelta(seconds=duetime)

            def guarded(s, st=None):
                sched.actions += 1
                if sched._inst != sched._clock:
                    sched._inst, sched._inst_n = sched._clock, 0
                sched._inst_n += 1
                # > 100 actions in one instant makes the unrepaired library spin on its own lock
                if sched.actions > sched.budget or sched._inst_n > MAX_SAME_INSTANT:
                    raise vt.BudgetExceeded()
                try:
                    return action(s, st)
                except Exception as e:  # "escaped into the scheduler"
                    sched.escaped.append((sched._clock, e))
                    return None

            return super().schedule_absolute(duetime, guarded, state)

    _HS = HScheduler
    return _HS


class Clock:
    """One execution's world.  kind 'num': vt.VScheduler (float seconds since the epoch);
    kind 'dt': HScheduler whose clock starts at `base` (a datetime chosen by the seed)."""

    def __init__(self, kind: str, seed: int = 0, budget: int = 4000):
        self.kind = kind
        if kind == "num":
            self.base = EPOCH
            self.env = vt.Env(budget=budget)
        else:
            self.base = datetime(2001, 2, 3, 4, 5, 6, tzinfo=timezone.utc) + timedelta(days=37 * (seed % 5), seconds=seed % 7)
            self.env = vt.Env(sched=hscheduler_class()(self.base, budget))
        self.sched = self.env.sched

    # harness number -> what the library is given
    def abs(self, n) -> datetime:
        """absolute datetime of harness instant n (valid on both clocks: the numeric clock
        counts seconds since the epoch)"""
        return self.base + timedelta(seconds=n)

    def td(self, n) -> timedelta:
        return timedelta(seconds=n)

    # clock reading / datetime -> harness number
    def num(self, t):
        if isinstance(t, datetime):
            s = (t - self.base).total_seconds()
        elif isinstance(t, timedelta):
            s = t.total_seconds()
        else:
            s = t
        return int(s) if s == int(s) else s


# ------------------------------------------------------------------ timelines

def gap_timelines(N: int, values: tuple, gaps: tuple, terminals=("C", "E", None), first_gaps: tuple | None = None, term_gaps: tuple | None = None,
                  positional: bool = False):
    """Relative timelines [(offset, kind, value)]: n<=N elements, element i at the sum of the
    first i+1 gaps (gap 0 = same instant as its predecessor = burst; first gap 0 = the
    subscription instant), then no terminal, or C/E after every possible gap (0 = the
    instant of the last element: terminal with a pending element in the same instant).
    positional=True: the i-th element always carries values[i] (pairwise distinct values, for
    operators that never look at the values) instead of every word over `values`."""
    first_gaps = gaps if first_gaps is None else first_gaps
    term_gaps = gaps if term_gaps is None else term_gaps
    for n in range(N + 1):
        for vals in ([tuple(values[i % len(values)] if i < len(values) else (values[i % len(values)], i) for i in range(n))] if positional
                     else itertools.product(values, repeat=n)):
            gap_choices = [first_gaps] + [gaps] * (n - 1) if n else []
            for gs in itertools.product(*gap_choices):
                t, tl = 0, []
                for g, v in zip(gs, vals):
                    t += g
                    tl.append((t, "N", v))
                for term in terminals:
                    if term is None:
                        yield list(tl)
                    else:
                        for g in (term_gaps if n else first_gaps):
                            yield tl + [(t + g, term, "E" if term == "E" else None)]


def instance_timelines(tier: str, values_mode: str, deep: bool, vals: tuple, gaps: tuple, first_gaps, cache: dict):
    """The timelines one operator instance is run on.
    values_mode 'pos'  : the operator never looks at the values -> positional (pairwise distinct) values;
                'alpha': the value selects behaviour (mapper operators) -> every word over the first two values.
    quick   : <=3 elements; positional values for 'pos' instances that are not deep, every word over two values otherwise.
    thorough: deep instances: every word over two values, <=4 elements (+ positional <=4 for 'pos');
              other 'pos' instances: positional <=4 plus every word over two values <=3; other 'alpha': words <=3."""
    key = (tier, values_mode, deep, first_gaps)
    if key in cache:
        return cache[key]
    if tier == "quick":
        sets = [(3, values_mode == "pos" and not deep)]
    elif deep:
        sets = [(4, False)] + ([(4, True)] if values_mode == "pos" else [])
    elif values_mode == "pos":
        sets = [(4, True), (3, False)]
    else:
        sets = [(3, False)]
    out, seen = [], set()
    for (n, positional) in sets:
        for tl in gap_timelines(n, vals[:4] if positional else vals[:2], gaps, first_gaps=first_gaps, positional=positional):
            k = tuple(tl)
            if k not in seen:
                seen.add(k)
                out.append(tl)
    cache[key] = out
    return out


def until_terminal(tl):
    out = []
    for e in tl:
        out.append(e)
        if e[1] in "EC":
            break
    return out


# ------------------------------------------------------------------ nondeterminism

class Choice:
    def __init__(self, prefix=()):
        self.prefix = prefix
        self.trace: list[tuple[int, int]] = []

    def __call__(self, n: int) -> int:
        if n <= 1:
            return 0
        i = len(self.trace)
        c = self.prefix[i] if i < len(self.prefix) else 0
        self.trace.append((c, n))
        return c


class ClosureTooLarge(Exception):
    pass


def closure(run: Callable[[Choice], Any], limit: int = 4000) -> dict:
    """All results of run(ch) over every resolution of its choice points: {result: choices}."""
    results: dict = {}
    stack = [()]
    runs = 0
    while stack:
        p = stack.pop()
        ch = Choice(p)
        r = run(ch)
        runs += 1
        if runs > limit:
            raise ClosureTooLarge(f"more than {limit} resolutions")
        results.setdefault(r, p)
        taken = tuple(c for c, _ in ch.trace)
        for i in range(len(p), len(ch.trace)):
            for alt in range(1, ch.trace[i][1]):
                stack.append(taken[:i] + (alt,))
    return results


class Sim:
    """Driver of a reference model.  The model implements start(sim), on_source(sim, name,
    kind, value), on_timer(sim, id) and uses sim.subscribe / unsubscribe / timer / cancel /
    emit.  Sources are cold relative timelines (offset None = delivered inside subscribe)."""

    def __init__(self, ch: Choice, horizon: float = HORIZON):
        self.ch = ch
        self.horizon = horizon
        self.now = 0
        self.out: list = []
        self.closed = False
        self.queues: dict = {}
        self.timers: dict = {}
        self.sublog: list = []
        self.ties = 0
        self.model = None

    # -- what a model may do
    def subscribe(self, name, rel_tl) -> None:
        self.sublog.append((name, "S", self.now))
        q, sync = [], []
        for (off, k, v) in until_terminal(rel_tl):
            if off is None:
                sync.append((k, v))
            else:
                q.append((self.now + off, k, v))
        self.queues[name] = q
        for (k, v) in sync:
            if name not in self.queues or self.closed:
                break
            if k in "EC":
                del self.queues[name]
            self.model.on_source(self, name, k, v)

    def unsubscribe(self, name) -> None:
        if name in self.queues:
            del self.queues[name]
            self.sublog.append((name, "U", self.now))

    def subscribed(self, name) -> bool:
        return name in self.queues

    def timer(self, tid, due) -> None:
        self.timers[tid] = due

    def cancel(self, tid) -> None:
        self.timers.pop(tid, None)

    def emit(self, kind, value=None) -> None:
        if self.closed:
            return
        self.out.append((self.now, kind, value))
        if kind in "EC":
            self.closed = True
            for n in list(self.queues):
                self.unsubscribe(n)
            self.timers.clear()

    # -- driver
    def run(self, model, t0):
        self.model = model
        self.now = t0
        model.start(self)
        while not self.closed:
            cands = [("s", n) for n, q in self.queues.items() if q and q[0][0] <= self.now]
            cands += [("t", tid) for tid, due in self.timers.items() if due <= self.now]
            if cands:
                if len(cands) > 1:
                    self.ties += 1
                what, x = cands[self.ch(len(cands))]
                if what == "s":
                    (_, k, v) = self.queues[x].pop(0)
                    if k in "EC":
                        del self.queues[x]
                    model.on_source(self, x, k, v)
                else:
                    del self.timers[x]
                    model.on_timer(self, x)
                continue
            nxt = [q[0][0] for q in self.queues.values() if q] + list(self.timers.values())
            if not nxt or min(nxt) >= self.horizon:
                break
            self.now = min(nxt)
        return self


def admissible(make_model: Callable[[], Any], t0, watch: tuple = (), horizon: float = HORIZON):
    """Set of admissible observations {(events, watched subscription instants): choices}
    and whether any tie (two pending events of different origin in one instant) occurred."""
    tied = [False]

    def run(ch):
        sim = Sim(ch, horizon).run(make_model(), t0)
        if sim.ties:
            tied[0] = True
        subs = tuple((n, tuple(t for (m, w, t) in sim.sublog if m == n and w == "S")) for n in watch)
        return (tuple(sim.out), subs)

    res = closure(run)
    return res, tied[0]


# ------------------------------------------------------------------ real runs

def err_key(e):
    if isinstance(e, vt.SrcError):
        tag = e.tag
        return ("srcerr", tag[0] if isinstance(tag, tuple) else tag)
    return ("exc", type(e).__name__)


def src_err(name):
    """what a model emits for the error of harness source `name`"""
    return ("srcerr", name)


def run_real(clock: Clock, sub, sources: dict, build: Callable, watch: tuple = (), horizon: float = HORIZON, norm: Callable | None = None):
    """Subscribe build(clock, S) at instant `sub` (S = {name: LoggedCold}); returns
    (status, observation) in the same shape as `admissible` produces."""
    env = clock.env
    S = {name: env.cold(name, tl) for name, tl in sources.items()}
    rec = env.recorder("out")
    env.subscribe_at(sub, lambda: build(clock, S), rec)
    status = env.run(horizon)
    nv = norm or (lambda v: vt.norm_value(v))
    ev = []
    for (t, k, v) in rec.events():
        ev.append((clock.num(t), k, nv(v) if k == "N" else (err_key(v) if k == "E" else None)))
    subs = tuple((n, tuple(clock.num(s["sub_time"]) for s in S[n].subs)) for n in watch)
    return status, (tuple(ev), subs), rec, S


def show(obs) -> str:
    ev, subs = obs

    def one(e):
        t, k, v = e
        if k == "N":
            return f"{t:g}:{short(v)}"
        if k == "E":
            return f"{t:g}:#{v[1] if isinstance(v, tuple) else v}"
        return f"{t:g}:|"

    s = "[" + " ".join(one(e) for e in ev) + "]"
    if subs:
        s += " subs{" + ",".join(f"{n}@{list(ts)}" for n, ts in subs) + "}"
    return s


def short(v):
    if isinstance(v, tuple) and len(v) == 2 and isinstance(v[0], str) and not isinstance(v[1], tuple):
        return repr(v[1])
    if isinstance(v, tuple):
        return "(" + ",".join(short(i) for i in v) + ")"
    return repr(v)


def classify(obs, exp) -> str:
    """what went wrong, for signatures: which aspect of the observation has no admissible counterpart"""
    ev, subs = obs
    if any(m[0] == ev for m in exp):
        return "subscription-instant"
    n = sum(1 for e in ev if e[1] == "N")
    ns = [sum(1 for e in m[0] if e[1] == "N") for m in exp]
    if n < min(ns):
        return "lost-element"
    if n > max(ns):
        return "extra-element"
    return "wrong-notification"  # right number of elements; an instant, a value or the terminal differs


def judge(clock: Clock, sub, sources, build, make_model, watch=(), horizon=HORIZON, norm=None):
    """Run the real pipeline and the reference closure; returns (problems, observation, expected, tied, env)."""
    status, obs, rec, S = run_real(clock, sub, sources, build, watch, horizon, norm)
    exp, tied = admissible(make_model, sub, watch, horizon)
    problems = []
    if status != "ok":
        problems.append(("budget", "run did not finish within the action budget"))
    elif obs not in exp:
        alts = sorted(show(e) for e in exp)
        problems.append((classify(obs, exp), f"observed {show(obs)}; admissible: " + " | ".join(alts[:6]) + (" ..." if len(alts) > 6 else "")))
    if clock.sched.escaped:
        problems.append(("escaped", f"exception escaped into the scheduler: {clock.sched.escaped[0][1]!r}"))
    g = rec.grammar_violation()
    if g:
        problems.append(("grammar", g))
    return problems, obs, exp, tied, S
