"""E2: explicit-state breadth-first search over call histories of real objects.

A state is the event history that reaches it; `build(history)` replays it on fresh real
objects.  States are de-duplicated by the *canonical heap* reachable from the roots
(system under test + reference model + recorder logs): object identities are renamed in
first-visit order, nothing else is abstracted, so two merged histories have isomorphic
heaps and therefore the same futures.  No field names are hard-coded.
"""
from __future__ import annotations

import collections
import datetime
import hashlib
import types
from typing import Any, Callable, Iterable

_ATOMS = (type(None), bool, int, float, str, bytes, complex, datetime.datetime, datetime.timedelta, datetime.timezone)


def canon(roots: Any, skip_names: frozenset = frozenset()) -> str:
    """Canonical digest of the heap reachable from `roots`."""
    ids: dict[int, int] = {}
    out: list[str] = []
    keep: list[Any] = []  # keep temporaries alive so ids stay unique during traversal
    stack: list[Any] = [roots]
    emit = out.append

    def visit(o: Any) -> None:
        # iterative DFS with explicit work list to avoid recursion limits
        work = [o]
        while work:
            o = work.pop()
            if isinstance(o, _Tok):
                emit(o.s)
                continue
            if isinstance(o, _ATOMS):
                emit(f"{type(o).__name__}:{o!r}")
                continue
            if isinstance(o, BaseException) and not vars(o):
                emit(f"exc:{type(o).__name__}:{o.args!r}")
                continue
            if isinstance(o, (type, types.ModuleType, types.CodeType, types.BuiltinFunctionType)):
                emit(f"static:{getattr(o, '__qualname__', getattr(o, '__name__', type(o).__name__))}")
                continue
            oid = id(o)
            if oid in ids:
                emit(f"ref:{ids[oid]}")
                continue
            ids[oid] = len(ids)
            keep.append(o)
            tname = type(o).__name__
            if hasattr(o, "acquire") and hasattr(o, "release"):
                emit("lock")
                continue
            if isinstance(o, (list, tuple, collections.deque)):
                emit(f"{tname}[{len(o)}")
                work.append(_Tok("]"))
                work.extend(reversed(list(o)))
                continue
            if isinstance(o, dict):
                emit(f"{tname}{{{len(o)}")
                work.append(_Tok("}"))
                for k, v in reversed(list(o.items())):
                    work.append(v)
                    work.append(k)
                continue
            if isinstance(o, (set, frozenset)):
                emit(f"{tname}<{len(o)}")
                work.append(_Tok(">"))
                work.extend(sorted(o, key=lambda x: canon(x)))
                continue
            if isinstance(o, types.FunctionType):
                emit(f"fn:{o.__qualname__}(")
                work.append(_Tok(")"))
                cells = []
                for c in o.__closure__ or ():
                    try:
                        cells.append(c.cell_contents)
                    except ValueError:
                        cells.append(_Tok("emptycell"))
                if o.__defaults__:
                    cells.extend(o.__defaults__)
                work.extend(reversed(cells))
                continue
            if isinstance(o, types.MethodType):
                emit(f"meth:{o.__func__.__qualname__}(")
                work.append(_Tok(")"))
                work.append(o.__self__)
                continue
            if isinstance(o, (types.GeneratorType,)):
                fr = o.gi_frame
                emit(f"gen:{o.__qualname__}:{fr.f_lasti if fr else -1}(")
                work.append(_Tok(")"))
                if fr:
                    loc = fr.f_locals
                    for k in sorted(loc, reverse=True):
                        work.append(loc[k])
                        work.append(k)
                continue
            if isinstance(o, type(iter([]))) or tname.endswith("iterator"):
                try:
                    emit(f"iter:{tname}:{o.__length_hint__()}")
                except Exception:
                    emit(f"iter:{tname}")
                continue
            if tname == "partial":
                emit("partial(")
                work.append(_Tok(")"))
                work.extend(reversed([o.func, o.args, o.keywords]))
                continue
            if tname in ("weakref", "ReferenceType", "WeakKeyDictionary", "WeakSet", "_local"):
                emit(f"opaque:{tname}")
                continue
            # general object: class name + attributes in sorted order (+ __slots__)
            emit(f"obj:{type(o).__qualname__}(")
            work.append(_Tok(")"))
            items = []
            d = getattr(o, "__dict__", None)
            if isinstance(d, dict):
                items.extend(d.items())
            for klass in type(o).__mro__:
                for s in getattr(klass, "__slots__", ()) or ():
                    if isinstance(s, str) and hasattr(o, s) and s not in ("__dict__", "__weakref__"):
                        items.append((s, getattr(o, s)))
            if isinstance(o, BaseException):
                items.append(("args", o.args))
            for k, v in sorted(items, key=lambda kv: kv[0], reverse=True):
                if k in skip_names:
                    continue
                work.append(v)
                work.append(_Tok(f".{k}="))
        return

    visit(roots)
    return hashlib.blake2b("\x1f".join(out).encode(), digest_size=12).hexdigest()


class _Tok:
    __slots__ = ("s",)

    def __init__(self, s: str):
        self.s = s


class Result:
    def __init__(self) -> None:
        self.states = 0
        self.transitions = 0
        self.max_depth = 0
        self.complete = True
        self.violations: list[tuple[list, str]] = []
        self.samples: list[list] = []
        self.outcomes: set[str] = set()
        self.merges = 0


def bfs(
    build: Callable[[list], Any],
    enabled: Callable[[list, Any], Iterable[Any]],
    check: Callable[[Any, list], str | None],
    roots: Callable[[Any], Any],
    depth: int,
    deadline: float | None = None,
    outcome: Callable[[Any], Any] | None = None,
    max_violations: int = 50,
) -> Result:
    """Generic BFS.  build(history) -> world (fresh real objects, history replayed);
    enabled(history, world) -> events; check(world, history) -> problem text or None
    (evaluated on every prefix); roots(world) -> object graph to canonicalise."""
    import time

    res = Result()
    w0 = build([])
    seen = {canon(roots(w0))}
    res.states = 1
    frontier: collections.deque = collections.deque([[]])
    while frontier:
        h = frontier.popleft()
        if deadline is not None and time.time() > deadline:
            res.complete = False
            break
        w = build(h) if h else w0
        evs = list(enabled(h, w))
        for ev in evs:
            h2 = h + [ev]
            w2 = build(h2)
            res.transitions += 1
            res.max_depth = max(res.max_depth, len(h2))
            p = check(w2, h2)
            if outcome is not None:
                res.outcomes.add(repr(outcome(w2)))
            if p is not None:
                if len(res.violations) < max_violations:
                    res.violations.append((h2, p))
                continue  # do not extend a violating history
            k = canon(roots(w2))
            if k in seen:
                res.merges += 1
                continue
            seen.add(k)
            res.states += 1
            if len(res.samples) < 3 and len(h2) >= min(3, depth):
                res.samples.append(h2)
            if len(h2) < depth:
                frontier.append(h2)
    return res
