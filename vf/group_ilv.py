"""E3 part of C19: group_by_until with the duration observables firing on another thread than the source.

The source thread emits 0, 1, 2, ... (key = value % 2) and terminates; every group gets its own
duration Subject (registered at creation, so it never fires inside subscribe); the expiry thread
fires, step by step, the durations registered so far.  Every interleaving up to the preemption
bound, line-level scheduling points in _groupbyuntil.py.  Each group is collected with to_list.

Oracle (C19's statement, schedule independent): every element is delivered to exactly one group,
a group of its key, in arrival order; every group ends (its list is emitted) and the result ends
with the source's terminal notification; nothing escapes into the emitting threads.
"""
from __future__ import annotations

from . import ilv, ilvrun

FOCUS = ["operators/_groupbyuntil.py"]


class Boom(Exception):
    pass


class H:
    allow_thread_errors = False

    def __init__(self, n, term, steps):
        self.n, self.term, self.steps = n, term, steps
        self.name = f"group-threads|n={n}|{term}|expiry-steps={steps}"
        self.sig = "group-threads"
        self.focus = ilv.focus_files(*FOCUS)

    def setup(self, run):
        from reactivex import operators as ops
        from reactivex.subject import Subject

        st = {"out": [], "src": Subject(), "durations": [], "fired": 0}
        out = st["out"]

        def duration(group):
            d = Subject()
            st["durations"].append(d)
            return d

        def collect(g):
            return g.pipe(ops.to_list(), ops.map(lambda l: (g.key, tuple(l))), ops.catch(lambda e, _: __import__("reactivex").of((g.key, "failed"))))

        st["d"] = st["src"].pipe(ops.group_by_until(lambda x: x % 2, None, duration), ops.flat_map(collect)).subscribe(
            lambda v: out.append(v), lambda e: out.append(("E", type(e).__name__)), lambda: out.append("C"))
        return st

    def bodies(self, st):
        def src():
            for i in range(self.n):
                st["src"].on_next(i)
            st["src"].on_completed() if self.term == "C" else st["src"].on_error(Boom("src"))

        def expiry():
            for _ in range(self.steps):
                todo = st["durations"][st["fired"]:]
                st["fired"] += len(todo)
                for d in todo:
                    d.on_next("expire")

        return [src, expiry]

    def outcome(self, x):
        return tuple(x.state["out"])

    def nontrivial(self, x):
        return x.switches > 0

    def check(self, x):
        if x.outcome != "quiescent":
            return []
        out, P = list(x.state["out"]), []
        groups = [o for o in out if isinstance(o, tuple) and o[0] in (0, 1)]
        ended = out[-1] if out and (out[-1] == "C" or (isinstance(out[-1], tuple) and out[-1][0] == "E")) else None

        def bad(cls, text):
            P.append((f"group_by_until|threads|{cls}", f"{text}; source 0..{self.n - 1} then {self.term}, {self.steps} expiry steps; downstream {out}"))

        delivered = [v for (k, l) in groups if l != "failed" for v in l]
        if self.term == "C":
            if sorted(delivered) != list(range(self.n)):
                bad("element-lost-or-duplicated", f"delivered {sorted(delivered)}")
            if ended != "C":
                bad("never-completed", "the source completed")
            if any(l == "failed" for (_, l) in groups):
                bad("group-failed", "a group received an error although nothing failed")
        else:
            if len(set(delivered)) != len(delivered) or not set(delivered) <= set(range(self.n)):
                bad("element-lost-or-duplicated", f"delivered {sorted(delivered)}")
            if not (isinstance(ended, tuple) and ended[0] == "E"):
                bad("error-not-delivered", "the source failed")
        for (k, l) in groups:
            if l != "failed" and (any(v % 2 != k for v in l) or list(l) != sorted(l)):
                bad("wrong-group-or-order", f"group {k} received {l}")
        return P[:3]


def harnesses(tier):
    if tier == "quick":
        return [H(3, "C", 2), H(2, "E", 1)]
    return [H(n, t, s) for n in (2, 3, 4) for t in ("C", "E") for s in (1, 2, 3)]


def PB_of(tier, h):
    return 1 if tier == "quick" or h.n >= 4 else 2


def shard(part, shard_i, nshards, tier, seed, deadline):
    ilv.install()
    for i, h in enumerate(harnesses(tier)):
        if (i + seed) % nshards == shard_i:
            ilvrun.explore_all(part, [h], 0, 1, PB_of(tier, h), 0, deadline, horizon=5.0, coarse_pb=2 if tier == "quick" or h.n >= 4 else 3)


def run_part(ctx):
    before = ctx.total.counters.get("executions", 0)
    hs = harnesses(ctx.tier)
    ctx.sharded(shard, nshards=len(hs), deadline=ctx.sub_deadline(0.5))
    ex = ctx.total.counters.get("executions", 0) - before
    ctx.cov["e3_threads"] = {"schedules_explored": ex, "coarse_executions": ctx.total.counters.get("coarse_executions", 0), "schedule_points": ctx.total.counters.get("schedule_points", 0),
                             "PB": "1" if ctx.tier == "quick" else "2 (n=4: 1)", "harnesses": [h.name for h in hs]}
    ctx.assumptions = list(ctx.assumptions) + [
        "E3 part: group_by_until with per-group duration subjects fired by a second controlled thread (never inside subscribe); preemption at "
        "sync operations and line boundaries of _groupbyuntil.py"
    ]


def replay(case):
    ilv.install()
    for tier in ("quick", "thorough"):
        for h in harnesses(tier):
            if h.name == case["harness"]:
                return ilvrun.replay_harness(h, case)
    return []
