"""E3 part of C10: sequential composition on a scheduler that runs work on other threads.

concat / catch / on_error_resume_next / repeat / retry hand over from one source to the next
through `scheduler.schedule(action)`.  With the NewThreadScheduler every hand-over runs on a
fresh (controlled) thread, so the subscribing thread races the hand-overs.  One managed
thread subscribes; every interleaving up to the preemption bound at lock/condition/thread
operations.  Oracle (the statement, no model needed because the sources are deterministic):
the output is the concatenation of the consumed sources followed by the terminal the operator
ends with, in *every* schedule, and source k+1 is subscribed only after source k terminated.
"""
from __future__ import annotations

from . import ilv, ilvrun


class Boom(Exception):
    pass


ERR = Boom("e")


def source(st, name, values, term, kind):
    """Logged cold source; kind 'sync' emits inside subscribe, 'sched' in one action on the subscribe-time scheduler."""
    import reactivex
    from reactivex.disposable import Disposable

    def subscribe(observer, scheduler=None):
        st["subs"].append(("sub", name))

        def emit(_s=None, _st=None):
            for v in values:
                observer.on_next(v)
            st["subs"].append(("end", name))
            observer.on_error(ERR) if term == "E" else observer.on_completed()

        if kind == "sync" or scheduler is None:
            emit()
            return Disposable()
        return scheduler.schedule(emit)

    return reactivex.create(subscribe)


def forms():
    """name -> (builder(st, kind) -> observable, expected output, expected subscription order)"""
    import reactivex
    from reactivex import operators as ops

    def S(st, kind, name, values, term):
        return source(st, name, values, term, kind)

    return {
        "concat": (lambda st, k: reactivex.concat(S(st, k, "s1", (1,), "C"), S(st, k, "s2", (2,), "C")), [1, 2, "C"], ["s1", "s2"]),
        "concat3-empty-first": (lambda st, k: reactivex.concat(S(st, k, "s1", (), "C"), S(st, k, "s2", (2,), "C"), S(st, k, "s3", (3,), "E")), [2, 3, "E"], ["s1", "s2", "s3"]),
        "concat-op": (lambda st, k: S(st, k, "s1", (1,), "C").pipe(ops.concat(S(st, k, "s2", (2,), "C"))), [1, 2, "C"], ["s1", "s2"]),
        "catch": (lambda st, k: reactivex.catch(S(st, k, "s1", (1,), "E"), S(st, k, "s2", (2,), "C")), [1, 2, "C"], ["s1", "s2"]),
        "catch-all-fail": (lambda st, k: reactivex.catch(S(st, k, "s1", (), "E"), S(st, k, "s2", (2,), "E")), [2, "E"], ["s1", "s2"]),
        "catch-op": (lambda st, k: S(st, k, "s1", (1,), "E").pipe(ops.catch(S(st, k, "s2", (2,), "C"))), [1, 2, "C"], ["s1", "s2"]),
        "on_error_resume_next": (lambda st, k: reactivex.on_error_resume_next(S(st, k, "s1", (1,), "E"), S(st, k, "s2", (2,), "C")), [1, 2, "C"], ["s1", "s2"]),
        "repeat2": (lambda st, k: S(st, k, "s1", (1,), "C").pipe(ops.repeat(2)), [1, 1, "C"], ["s1", "s1"]),
        "retry2": (lambda st, k: S(st, k, "s1", (1,), "E").pipe(ops.retry(2)), [1, 1, "E"], ["s1", "s1"]),
        "start_with": (lambda st, k: S(st, k, "s1", (1,), "C").pipe(ops.start_with(0)), [0, 1, "C"], ["s1"]),
    }


QUICK_FORMS = ("concat", "concat3-empty-first", "catch", "catch-op", "on_error_resume_next", "repeat2", "retry2")


class H:
    allow_thread_errors = False
    focus: list = []

    def __init__(self, form, kind):
        self.form, self.kind = form, kind
        self.name = f"seq-newthread|{form}|{kind}"
        self.sig = "seq-newthread"
        _, self.want, self.order = forms()[form]

    def setup(self, run):
        return {"out": [], "subs": []}

    def bodies(self, st):
        from reactivex.scheduler import NewThreadScheduler

        build = forms()[self.form][0]

        def a():
            out = st["out"]
            build(st, self.kind).subscribe(out.append, lambda e: out.append("E"), lambda: out.append("C"), scheduler=NewThreadScheduler())

        return [a]

    def outcome(self, x):
        return (tuple(x.state["out"]), tuple(x.state["subs"]))

    def nontrivial(self, x):
        return x.switches > 0

    def check(self, x):
        if x.outcome != "quiescent":
            return []
        probs = []
        out, subs = list(x.state["out"]), list(x.state["subs"])
        if out != self.want:
            cls = "never-terminates" if (not out or out[-1] not in ("C", "E")) and out == self.want[: len(out)] else "wrong-output"
            probs.append((f"{self.form}|newthread|{cls}", f"{self.form} over {self.kind} sources on NewThreadScheduler produced {out}, expected {self.want}"))
        open_ = None
        for ev, name in subs:
            if ev == "sub":
                if open_ is not None:
                    probs.append((f"{self.form}|newthread|overlap", f"{name} subscribed while {open_} was still running: {subs}"))
                    break
                open_ = name
            else:
                open_ = None
        if out == self.want and [n for ev, n in subs if ev == "sub"] != self.order:
            probs.append((f"{self.form}|newthread|subscription-order", f"subscriptions {subs}, expected order {self.order}"))
        return probs


def harnesses(tier):
    names = QUICK_FORMS if tier == "quick" else tuple(forms())
    return [H(f, k) for f in names for k in ("sync", "sched")]


def PB_of(tier):
    return 1 if tier == "quick" else 2


def shard(part, shard_i, nshards, tier, seed, deadline):
    ilv.install()
    for i, h in enumerate(harnesses(tier)):
        if (i + seed) % nshards == shard_i:
            ilvrun.explore_all(part, [h], 0, 1, PB_of(tier), 0, deadline, horizon=5.0)


def run_part(ctx):
    before = ctx.total.counters.get("executions", 0)
    hs = harnesses(ctx.tier)
    ctx.sharded(shard, nshards=len(hs), deadline=ctx.sub_deadline(0.5))
    ex = ctx.total.counters.get("executions", 0) - before
    ctx.cov["e3_newthread_handover"] = {
        "schedules_explored": ex, "coarse_executions": ctx.total.counters.get("coarse_executions", 0),
        "schedule_points": ctx.total.counters.get("schedule_points", 0),
        "PB": PB_of(ctx.tier),
        "harnesses": [h.name for h in hs],
    }
    ctx.assumptions = list(ctx.assumptions) + [
        "E3 part (hand-over on NewThreadScheduler): one subscribing thread, every hand-over on a fresh controlled thread; preemption at "
        "lock/condition/thread operations of the library; sources are deterministic so the expected output is the plain concatenation"
    ]


def replay(case):
    ilv.install()
    for tier in ("quick", "thorough"):
        for h in harnesses(tier):
            if h.name == case["harness"]:
                return ilvrun.replay_harness(h, case)
    return []
